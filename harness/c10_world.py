"""C10 helper: function pools, logging proxies around the real conversion cache, history runner.

Everything here runs against the REAL code (malt imported from common.REPO).  A *history* is a plan:
a pool of function groups (generated source exec'ed into fresh namespaces under a scratch directory),
per-thread programs of requests (to_graph / convert(...)(f) / converted_call / _convert_actual) and
environment actions (drop a private function group + gc.collect, redefine it).  Running it yields

* the globally ordered event log of the cache (for the Lean trace validator), and
* the direct-oracle verdicts (behaviour vs cache-less reference conversion, transform counts, errors).

Event order = real order: every proxied dictionary / lock operation performs `operation + log entry`
under one recorder mutex (the GIL already serialises single dict operations; the mutex only ties the
log entry to the operation).  The one operation the proxies cannot intercept -- the store into a
bucket that `cache.py` has just created as a plain `{}` -- and weak-reference removals are detected by
diffing the real dictionaries against a shadow copy before and after every proxied operation.
"""
import gc, hashlib, inspect, linecache, os, random, sys, threading, time, traceback, types, weakref

FEATS_OK = ('LISTS', 'BUILTIN_FUNCTIONS', 'EQUALITY_OPERATORS', 'ASSERT_STATEMENTS')


def _malt():
    import malt
    from malt.impl import api
    from malt.core import converter
    from malt.pyct import transpiler, inspect_utils
    from malt.lang import directives
    return malt, api, converter, transpiler, inspect_utils, directives


# ----------------------------------------------------------------------------------------------
# option sets
# ----------------------------------------------------------------------------------------------

def opt_tuple(o):
    """Canonical (recursive, user_requested, internal, sorted feature names) of a ConversionOptions."""
    return (bool(o.recursive), bool(o.user_requested), bool(o.internal_convert_user_code),
            tuple(sorted(f.name for f in o.optional_features)))


def make_opts(t):
    _, _, converter, _, _, _ = _malt()
    r, u, i, fs = t
    return converter.ConversionOptions(recursive=r, user_requested=u, internal_convert_user_code=i,
                                       optional_features=tuple(getattr(converter.Feature, f) for f in fs))


BASE_OPT = (True, True, True, ())
# each differs from BASE_OPT in exactly one field
OPT_VARIANTS = [
    BASE_OPT,
    (False, True, True, ()),
    (True, False, True, ()),
    (True, True, False, ()),
    (True, True, True, ('LISTS',)),
    (True, True, True, ('EQUALITY_OPERATORS',)),
    (True, True, True, ('BUILTIN_FUNCTIONS',)),
    (True, True, True, ('ASSERT_STATEMENTS',)),
    (True, True, True, ('EQUALITY_OPERATORS', 'LISTS')),
]


def routes_for(opt):
    """Request routes able to produce exactly this options value."""
    r, u, i, fs = opt
    out = ['actual']                         # api._convert_actual(fn, ProgramContext(options))
    if i:
        out.append('converted_call')         # api.converted_call(fn, args, None, options=...)
        out.append('converted_call@D')       # ... issued while the thread's conversion status is DISABLED
        out.append('converted_call@E')       # ... ENABLED
        out.append('converted_call@U')       # ... UNSPECIFIED (explicitly)
    if u and i:
        out.append('to_graph')               # malt.to_graph(fn, recursive, features)
    if i:
        out.append('convert')                # malt.convert(recursive, features, user_requested)(fn)(*args)
    return out


# ----------------------------------------------------------------------------------------------
# function groups
# ----------------------------------------------------------------------------------------------

class Fake(object):
    """A user object that happens to have a method called like a directive (per-thread call log)."""

    def __init__(self):
        self._tl = threading.local()

    @property
    def log(self):
        l = getattr(self._tl, 'log', None)
        if l is None:
            l = self._tl.log = []
        return l

    def set_loop_options(self, **k):
        self.log.append(tuple(sorted(k.items())))


TEMPLATES = {
    # closure + global + default + call of a helper
    'closure': '''
G = {g}
def helper(x):
    if x > 2:
        return x - {c} + probe()
    return x
def make(k):
    def f(x, d={d}):
        s = 0
        i = 0
        while i < x:
            if i % 2 == 0:
                s = s + k
            else:
                s = s + G
            i = i + 1
        return s * 100 + d + helper(x) + {c}
    return f
''',
    # functions defined in a loop, capturing the loop variable as a default
    'loop': '''
G = {g}
fs = []
for k in range(3):
    def f(x, k=k, *, w={d}):
        if x > k:
            return x - k + w + probe()
        return G + k + {c}
    fs.append(f)
''',
    # a call whose callee resolves through the namespace: directive for one function, user code for another
    'directive': '''
G = {g}
def h(n):
    s = 0
    for i in range(n):
        m.set_loop_options(maximum_iterations=3)
        s += G + {c}
    return s
''',
    'directive_closure': '''
G = {g}
def make(m):
    def h(n):
        s = 0
        if m is None:
            return -1
        for i in range(n):
            m.set_loop_options(maximum_iterations=3)
            s += G + {c}
        return s
    return h
''',
    'method': '''
G = {g}
class K(object):
    def __init__(self, a):
        self.a = a
    def m(self, x):
        if x > self.a:
            return x - self.a + {c} + probe()
        return self.a + G
''',
    'lambda': '''
G = {g}
def mk(k):
    return lambda x: x * k + G + {c}
''',
    # sibling closures: created with EQUAL captured values, rebound to different ones after conversion
    'siblings': '''
G = {g}
def make(k):
    def scale(x):
        if x > 0:
            return x * k + G + probe()
        return k + {c}
    def setk(v):
        nonlocal k
        k = v
    return scale, setk
''',
    # functions sharing one code object whose CALLEE differs in kind: an autograph artifact
    # (do_not_convert-ed) for one, an ordinary convertible function for the other (closure and global)
    'callee': '''
G = {g}
def plain(x):
    if x > 0:
        x = x + {c}
    return x + probe()
def other(x):
    return x * 2 + probe()
def make(h):
    def f(x):
        return h(x) + G
    return f
def fg(x):
    return hg(x) + G + {d}
''',
    # edited IN PLACE: the reload keeps file name, first line and function name, only the body changes.
    # No probe: the served function must also behave like the plain function it was converted from.
    'inplace': '''
G = {g}
def scale(x):
    if x > 0:
        x = x * {c} + {d}
    return x + G
def make(k):
    def shift(x):
        if x > k:
            return x - k + {c}
        return G + {d}
    return shift
''',
    # wrappers returned by ONE functools.wraps decorator (one code object): around a function of a
    # DoNotConvert module (`copy.copy`; the wrapper's __module__ is 'copy') and around user code
    'wrapped': '''
G = {g}
def passthrough(fn):
    @functools.wraps(fn)
    def wrapper(*args, **kwargs):
        return fn(*args, **kwargs)
    return wrapper
def user(x):
    if x > 0:
        x = x + {c}
    return x + probe()
''',
    # constructs rewritten only by the OPTIONAL passes (LISTS: append / subscript store; ASSERT_STATEMENTS: assert)
    'listy': '''
G = {g}
def build(n):
    l = []
    i = 0
    while i < n:
        l.append(i * {c})
        i = i + 1
    if n > 1:
        l[0] = G
    assert n >= 0, 'negative'
    return l
def make(k):
    def pick(n):
        l = [k, G]
        l.append(n)
        assert len(l) == 3
        l[1] = n + {d}
        return l
    return pick
''',
    # not convertible (for/else): transform_ast raises, nothing is cached, every request retries
    'broken': '''
G = {g}
def mkb(k):
    def b(x):
        for i in range(x):
            if i == k:
                break
        else:
            return G
        return i + {c}
    return b
''',
}


_CHAINS = {}
_CHAIN_LOCK = threading.Lock()


def _probe():
    """What a running pool function can observe of HOW it was converted: for every pool frame up the
    stack whether it is the converted version (`ag__*`) and, if so, the options embedded in its
    FunctionScope; plus the conversion status (`ag_ctx.control_status_ctx()`) in force.  Returned as
    an int (an index of the observation) so that it flows into the function's result."""
    from malt.core import ag_ctx
    from malt.operators import function_wrappers
    chain = []
    f = sys._getframe(1)
    while f is not None:
        if str(f.f_globals.get('__name__', '')).startswith('c10pool_'):
            n = f.f_code.co_name
            opts = None
            if n.startswith('ag__'):
                for v in list(f.f_locals.values()):
                    if isinstance(v, function_wrappers.FunctionScope):
                        opts = opt_tuple(v.options)
            chain.append((n, opts))
        f = f.f_back
    ctx = ag_ctx.control_status_ctx()
    key = (tuple(chain), ctx.status.name)
    with _CHAIN_LOCK:
        idx = _CHAINS.setdefault(key, len(_CHAINS) + 1)
    return 1000 * idx


def probe_key(result_repr):
    return result_repr


_PROBE = []


def probe_fn():
    if not _PROBE:
        # an autograph artifact is called as-is, without entering a DISABLED conversion context
        _PROBE.append(_malt()[1].autograph_artifact(_probe))
    return _PROBE[0]


class Fn(object):
    """One function object of the pool plus what the oracle needs."""
    __slots__ = ('fn', 'args', 'bound', 'fake', 'label', 'refs', 'setter', 'pure')

    def __init__(self, fn, args, label, bound=None, fake=None, setter=None, pure=False):
        self.fn, self.args, self.label, self.bound, self.fake = fn, args, label, bound, fake
        self.setter = setter
        self.pure = pure         # no probe / directive: the conversion must also behave like the plain function
        self.refs = {}           # opt tuple -> reference-converted function


class Group(object):
    """Functions created from one source text (possibly exec'ed several times)."""

    def __init__(self, world, kind, params, name):
        self.world, self.kind, self.params, self.name = world, kind, dict(params), name
        self.fns = []
        self.gen = 0
        self.modnames = []
        self.twin = False
        self.inplace = False     # reloads rewrite the SAME file (same definition site, new body)

    def source(self):
        return TEMPLATES[self.kind].format(**self.params)

    def load(self):
        """exec the source (again): new namespace, new code objects.  The same text gives code objects
        that are == to the earlier ones (the file name is not part of a code object's value)."""
        w = self.world
        src = self.source()
        self.gen += 1
        if self.inplace:
            # the user edits the file: same path, same lines, new body (only groups private to one thread)
            path = os.path.join(w.dir, '%s_inplace.py' % self.name)
            old = None
            if os.path.exists(path):
                with open(path) as f:
                    old = f.read()
            if old != src:
                tmp = path + '.%d.tmp' % threading.get_ident()
                with open(tmp, 'w') as f:
                    f.write(src)
                os.replace(tmp, path)
                linecache.cache.pop(path, None)
        else:
            path = os.path.join(w.dir, '%s_%s.py' % (self.name, hashlib.sha1(src.encode()).hexdigest()[:8]))
            if not os.path.exists(path):        # never rewrite a file another thread may be reading
                tmp = path + '.%d.tmp' % threading.get_ident()
                with open(tmp, 'w') as f:
                    f.write(src)
                os.replace(tmp, path)
        linecache.checkcache(path)
        # a real module object (inspect.getmodule must find it: lambdas are located through it)
        modname = 'c10pool_%s_%d_%d' % (self.name, self.gen, id(self))
        mod = types.ModuleType(modname)
        mod.__file__ = path
        sys.modules[modname] = mod
        self.modnames.append(modname)
        ns = mod.__dict__
        ns['probe'] = probe_fn()
        import functools as _functools
        ns['functools'] = _functools
        exec(compile(src, path, 'exec'), ns)
        out = []
        kind = self.kind
        malt = _malt()[0]
        if kind == 'closure':
            f1, f2 = ns['make'](1), ns['make'](7)
            out += [Fn(f1, [(4,), (3, 9)], 'closure k=1'), Fn(f2, [(4,), (5, 1)], 'closure k=7')]
            # same code, other defaults
            f3 = types.FunctionType(f1.__code__, f1.__globals__, 'f', (40,), f1.__closure__)
            out.append(Fn(f3, [(4,), (2,)], 'closure k=1, other defaults'))
            # same code, other globals (same conversion-relevant view)
            g2 = dict(ns); g2['G'] = ns['G'] + 1000
            f4 = types.FunctionType(f2.__code__, g2, 'f', f2.__defaults__, f2.__closure__)
            out.append(Fn(f4, [(4,), (6, 2)], 'closure k=7, other globals'))
            # the callee of all of the above, also requested directly
            out.append(Fn(ns['helper'], [(5,), (1,)], 'helper (also reached as a callee)'))
        elif kind == 'loop':
            for j, f in enumerate(ns['fs']):
                out.append(Fn(f, [(0,), (5,)], 'loop k=%d' % j))
            f = ns['fs'][0]
            f5 = types.FunctionType(f.__code__, f.__globals__, 'f', (9,), None)
            f5.__kwdefaults__ = {'w': 500}
            out.append(Fn(f5, [(1,), (20,)], 'loop other defaults+kwdefaults'))
        elif kind == 'directive':
            h1 = ns['h']
            ns['m'] = malt.experimental
            fake = Fake()
            g2 = dict(ns); g2['m'] = fake
            h2 = types.FunctionType(h1.__code__, g2, 'h')
            out += [Fn(h1, [(2,)], 'directive m=malt.experimental'), Fn(h2, [(2,)], 'directive m=user object', fake=fake)]
        elif kind == 'directive_closure':
            fake = Fake()
            out += [Fn(ns['make'](malt.experimental), [(2,)], 'directive(closure) m=malt.experimental'),
                    Fn(ns['make'](fake), [(2,)], 'directive(closure) m=user object', fake=fake)]
        elif kind == 'method':
            k1, k2 = ns['K'](2), ns['K'](5)
            out += [Fn(k1.m, [(1,), (9,)], 'method a=2', bound=k1), Fn(k2.m, [(1,), (9,)], 'method a=5', bound=k2),
                    Fn(ns['K'].m, [(k1, 3), (k2, 30)], 'plain function K.m')]
        elif kind == 'lambda':
            out += [Fn(ns['mk'](2), [(3,)], 'lambda k=2'), Fn(ns['mk'](5), [(3,)], 'lambda k=5')]
        elif kind == 'siblings':
            self.maker = ns['make']
        elif kind == 'inplace':
            out += [Fn(ns['scale'], [(3,), (0,)], 'edited in place: scale', pure=True),
                    Fn(ns['make'](2), [(5,), (1,)], 'edited in place: closure shift', pure=True)]
        elif kind == 'listy':
            # not `pure`: on the pinned tree the ASSERT_STATEMENTS pass emits a call of a missing operator (not C10's
            # concern); these functions are compared with the reference conversion only (behaviour + generated source)
            out += [Fn(ns['build'], [(3,), (0,)], 'list append / subscript store / assert'),
                    Fn(ns['make'](5), [(2,), (9,)], 'closure with list append / subscript store / assert')]
        elif kind == 'wrapped':
            import copy as _copy
            out += [Fn(ns['passthrough'](ns['user']), [(3,), (0,)], 'functools.wraps wrapper around user code'),
                    Fn(ns['passthrough'](_copy.copy), [(3,), (0,)], 'functools.wraps wrapper around copy.copy (__module__ == copy)'),
                    Fn(ns['passthrough'](ns['user']), [(4,), (0,)], 'second functools.wraps wrapper around user code')]
        elif kind == 'callee':
            raw = malt.experimental.do_not_convert(ns['other'])
            ns['hg'] = raw
            g2 = dict(ns); g2['hg'] = ns['plain']
            fg2 = types.FunctionType(ns['fg'].__code__, g2, 'fg')
            out += [Fn(ns['make'](raw), [(3,), (0,)], 'callee(closure) = do_not_convert artifact'),
                    Fn(ns['make'](ns['plain']), [(3,), (0,)], 'callee(closure) = plain convertible function'),
                    Fn(ns['fg'], [(3,), (0,)], 'callee(global) = do_not_convert artifact'),
                    Fn(fg2, [(3,), (0,)], 'callee(global) = plain convertible function')]
        elif kind == 'broken':
            out += [Fn(ns['mkb'](1), [(3,), (1,)], 'unconvertible k=1'), Fn(ns['mkb'](4), [(3,), (9,)], 'unconvertible k=4')]
        self.fns = out
        return out

    def drop(self):
        """Forget every function of the group (they form cycles with their namespaces) and collect."""
        for f in self.fns:
            f.refs.clear()
            f.fn = None
            f.bound = None
        self.fns = []
        for m in self.modnames:
            sys.modules.pop(m, None)
        self.modnames = []
        gc.collect()


# ----------------------------------------------------------------------------------------------
# recorder + proxies
# ----------------------------------------------------------------------------------------------

def code_value_key(c):
    """What code.__eq__ compares (CPython 3.12), nested code objects included."""
    consts = tuple(code_value_key(k) if isinstance(k, types.CodeType) else (type(k).__name__, repr(k))
                   for k in c.co_consts)
    return (c.co_name, c.co_qualname, c.co_argcount, c.co_posonlyargcount, c.co_kwonlyargcount, c.co_flags,
            c.co_firstlineno, c.co_code, consts, c.co_names, c.co_varnames, c.co_freevars, c.co_cellvars,
            c.co_linetable, c.co_exceptiontable)


def code_names(c):
    out = set(c.co_names) | set(c.co_freevars)
    for k in c.co_consts:
        if isinstance(k, types.CodeType):
            out |= code_names(k)
    return out


class Recorder(object):
    """Serial numbers, shadow state, event log."""

    def __init__(self, seed, yield_p):
        self.mutex = threading.Lock()
        self.events = []
        self.unexpected = []
        self.tidx = {}                 # thread ident -> model thread index
        self.rngs = {}
        self.seed, self.yield_p = seed, yield_p
        self.tl = threading.local()
        self.wkd = None
        # serials
        self.codes = {}                # id(code) -> (weakref, serial, val)
        self.ncodes = 0
        self.addr_reuse = 0
        self.vals = {}                 # value key -> val serial
        self.code_info = {}            # serial -> val
        self.envs = {}
        self.sigs = {}
        self.facts = {}                # id(factory) -> serial
        self.fact_keep = []
        self.buckets = []              # raw dicts, index = serial
        self.bucket_ids = {}           # id(raw) -> serial
        self.bucket_creator = []
        self.sh_outer = {}             # code serial -> bucket serial
        self.sh_buckets = []           # serial -> {opt tuple: factory serial}
        self.requests = {}             # thread index -> list of request dicts
        self.xcount = {}               # (code serial, opt tuple) -> n
        self._modtok = {}
        self.hook = None               # callable(kind, thread index, result), called outside the mutex
        self.last = {}                 # thread index -> kind of its last logged event
        self.allow_ok = {}             # (id(function), opt tuple) -> (weakref, reason): legitimate allowlist-cache entries
        self.allow_bad = []            # allowlist-cache entries recorded for a context-dependent decision
        self.pending_x = {}            # thread index -> request whose conversion is running (event not yet logged)

    # ---- threads
    def register_thread(self, index):
        self.tidx[threading.get_ident()] = index
        self.rngs[index] = random.Random(self.seed * 1000003 + index)
        self.requests.setdefault(index, [])

    def t(self):
        return self.tidx.get(threading.get_ident(), -1)

    def maybe_yield(self):
        t = self.t()
        r = self.rngs.get(t)
        if r is None:
            return
        x = r.random()
        if x < self.yield_p:
            time.sleep(0 if x < self.yield_p * 0.7 else r.random() * 3e-4)

    # ---- allowlist cache (conversion._ALLOWLIST_CACHE): audited, not modelled
    def allowed(self, fn, opt):
        f = getattr(fn, '__func__', fn)
        e = self.allow_ok.get((id(f), opt))
        return e is not None and e[0]() is f

    # ---- serials
    def code_serial(self, c):
        if not isinstance(c, types.CodeType):
            # a cache keyed by something else than the code object: outside the model
            msg = 'cache key is a %s, not a code object' % type(c).__name__
            if msg not in self.unexpected:
                self.unexpected.append(msg)
            k = ('non-code', id(c))
            if k not in self.codes:
                self.ncodes += 1
                v = self.vals.setdefault(k, len(self.vals) + 1)
                self.codes[k] = (None, self.ncodes, v)
                self.code_info[self.ncodes] = v
                self.fact_keep.append(c)
            return self.codes[k][1]
        e = self.codes.get(id(c))
        if e is not None and e[0]() is c:
            return e[1]
        if e is not None:
            self.addr_reuse += 1
        self.ncodes += 1
        s = self.ncodes
        vk = code_value_key(c)
        v = self.vals.setdefault(vk, len(self.vals) + 1)
        self.codes[id(c)] = (weakref.ref(c), s, v)
        self.code_info[s] = v
        return s

    def fact_serial(self, f):
        s = self.facts.get(id(f))
        if s is None:
            s = len(self.facts) + 1
            self.facts[id(f)] = s
            self.fact_keep.append(f)
        return s

    def env_serial(self, key):
        return self.envs.setdefault(key, len(self.envs) + 1)

    def _dtoken(self, v, depth, directives):
        if v is directives.set_loop_options:
            return 'D:loop'
        if v is directives.set_element_type:
            return 'D:elt'
        if inspect.ismodule(v) and depth > 0:
            k = (id(v), depth)
            if k not in self._modtok:
                sub = []
                for a in sorted(vars(v)):
                    if a.startswith('__'):
                        continue
                    tkn = self._dtoken(vars(v)[a], depth - 1, directives)
                    if tkn:
                        sub.append((a, tkn))
                self._modtok[k] = ('M', tuple(sub)) if sub else None
            return self._modtok[k]
        return None

    def sig_of(self, fn):
        """The part of the function's namespace the conversion inspects: for every global / free name
        the code mentions, whether it resolves (directly or through module attributes) to a directive;
        plus the __future__ features detected from the globals."""
        _, _, _, _, inspect_utils, directives = _malt()
        ns = inspect_utils.getnamespace(fn)
        items = []
        for n in sorted(code_names(fn.__code__)):
            if n in ns:
                tk = self._dtoken(ns[n], 2, directives)
                if tk:
                    items.append((n, tk))
        fut = tuple(sorted(inspect_utils.getfutureimports(fn)))
        return self.sigs.setdefault((tuple(items), fut), len(self.sigs) + 1)

    # ---- shadow / diff
    def bucket_serial(self, raw, creator=None):
        s = self.bucket_ids.get(id(raw))
        if s is None:
            s = len(self.buckets)
            self.buckets.append(raw)
            self.bucket_ids[id(raw)] = s
            self.bucket_creator.append(creator)
            self.sh_buckets.append({})
        return s

    def scan(self, full=False, outer=False):
        try:
            return self._scan(full, outer)
        except Exception:      # noqa  (bookkeeping must never change the program's control flow)
            return [('unexpected', 'recorder failure: ' + traceback.format_exc()[-300:])]

    def _scan(self, full=False, outer=False):
        """Changes of the real dictionaries not yet reflected in the shadow (not applied).  An entry whose
        weak reference is already dead counts as gone (lookups no longer match it), even if its removal
        callback has not run yet (the cyclic collector clears all weak references first and runs the
        callbacks afterwards, and other threads can run in between)."""
        ch = []
        data = self.wkd.data
        if full or outer or len(data) != len(self.sh_outer):
            real = {}
            for ref, val in list(data.items()):
                c = ref()
                if c is not None:
                    real[self.code_serial(c)] = val
            for cs in list(self.sh_outer):
                if cs not in real:
                    ch.append(('gc', cs))
            for cs, val in real.items():
                if cs not in self.sh_outer:
                    ch.append(('unexpected', 'outer entry for code %d appeared without __setitem__' % cs))
                elif not isinstance(val, dict) or self.bucket_ids.get(id(val)) != self.sh_outer[cs]:
                    ch.append(('unexpected', 'outer entry for code %d changed its bucket' % cs))
        for bs, raw in enumerate(self.buckets):
            sh = self.sh_buckets[bs]
            if not full and len(raw) == len(sh):
                continue
            cur = dict(raw)
            for k, v in cur.items():
                try:
                    ok = opt_tuple(k)
                except Exception:
                    ch.append(('unexpected', 'bucket key is not a ConversionOptions: %r' % (k,)))
                    continue
                fs = self.fact_serial(v)
                if ok not in sh:
                    ch.append(('iset', bs, ok, fs))
                elif sh[ok] != fs:
                    ch.append(('unexpected', 'value of bucket %d key %s replaced' % (bs, ok)))
            if len(cur) < len(sh):
                ch.append(('unexpected', 'entry removed from bucket %d' % bs))
        return ch

    def emit(self, changes, setter=None):
        for c in changes:
            if c[0] == 'gc':
                cs = c[1]
                del self.sh_outer[cs]
                self.events.append(('gc', cs, self.code_info[cs]))
            elif c[0] == 'iset':
                _, bs, ok, fs = c
                self.sh_buckets[bs][ok] = fs
                t = setter if setter is not None else self.bucket_creator[bs]
                self.events.append(('iset', -1 if t is None else t, fs, bs, ok))
            else:
                self.unexpected.append(c[1])
                self.events.append(('unexpected', c[1]))

    def log(self, *e):
        self.events.append(e)
        if len(e) > 1 and isinstance(e[1], int):
            self.last[e[1]] = e[0]

    def flush_x(self, t, ok):
        """The conversion (parse + transform_ast + factory.create) of thread t has ended: log it.  Called
        (under the mutex) before the thread's next logged operation (ok) or when its exception leaves the
        critical section (not ok).  The step is thread-local, so logging it late does not reorder anything
        observable."""
        req = self.pending_x.pop(t, None)
        if req is None:
            return False
        self.log('xform', t, bool(ok))
        req['x_logged'] = True
        if ok:
            k = (req['code'], req['opt'])
            self.xcount[k] = self.xcount.get(k, 0) + 1
        else:
            req['xfail'] = True
        return True

    def conversion_raised(self, t):
        """An exception leaves `with self._cache_lock`."""
        if self.flush_x(t, False):
            return
        req = getattr(self.tl, 'req', None)
        if self.last.get(t) == 'oset':
            self.raw_keyerror(t)
        elif req is not None and not req.get('x_logged'):
            # raised before transform_ast was reached (source lookup, parsing)
            self.log('xform', t, False)
            req['x_logged'] = True
            req['xfail'] = True

    def raw_keyerror(self, t):
        """`parent[subkey]` on a bucket cache.py has just created as a plain (empty) dict cannot be
        intercepted; its KeyError is the only possible outcome and is logged when it propagates."""
        if self.last.get(t) == 'oset':
            self.log('iget', t, None, -1, None)


class BucketProxy(object):
    """What LoggingWKD.get returns instead of the raw bucket dict."""
    __slots__ = ('rec', 'raw', 'bs')

    def __init__(self, rec, raw, bs):
        self.rec, self.raw, self.bs = rec, raw, bs

    def __contains__(self, k):
        rec = self.rec
        rec.maybe_yield()
        with rec.mutex:
            rec.flush_x(rec.t(), True)
            rec.emit(rec.scan())
            r = k in self.raw
            post = rec.scan()
            ok = _safe_opt(k)
            before = [c for c in post if not (c[0] == 'iset' and c[1] == self.bs and c[2] == ok and not r)]
            after = [c for c in post if c not in before]
            rec.emit(before)
            rec.log('ihas', rec.t(), bool(r), self.bs, ok)
            rec.emit(after)
        if rec.hook is not None:
            rec.hook('ihas', rec.t(), bool(r))
        return r

    def __getitem__(self, k):
        rec = self.rec
        rec.maybe_yield()
        with rec.mutex:
            rec.flush_x(rec.t(), True)
            rec.emit(rec.scan())
            try:
                v = self.raw[k]
                found = True
            except KeyError:
                found = False
            post = rec.scan()
            ok = _safe_opt(k)
            before = [c for c in post if not (c[0] == 'iset' and c[1] == self.bs and c[2] == ok and not found)]
            after = [c for c in post if c not in before]
            rec.emit(before)
            rec.log('iget', rec.t(), rec.fact_serial(v) if found else None, self.bs, ok)
            rec.emit(after)
        if not found:
            raise KeyError(k)
        return v

    def __setitem__(self, k, v):
        rec = self.rec
        rec.maybe_yield()
        with rec.mutex:
            rec.flush_x(rec.t(), True)
            rec.emit(rec.scan())
            self.raw[k] = v
            ch = rec.scan()
            mine = [c for c in ch if c[0] == 'iset' and c[1] == self.bs]
            rec.emit([c for c in ch if c not in mine])
            if not mine:
                rec.emit([('unexpected', 'bucket %d: store of an existing key' % self.bs)])
            rec.emit(mine, setter=rec.t())

    def __getattr__(self, name):           # anything else cache.py might start to use
        rec = self.rec
        with rec.mutex:
            rec.emit([('unexpected', 'bucket method %s' % name)])
        return getattr(self.raw, name)

    def __len__(self):
        return len(self.raw)

    def __iter__(self):
        with self.rec.mutex:
            self.rec.emit([('unexpected', 'bucket iteration')])
        return iter(self.raw)


def _safe_opt(k):
    try:
        return opt_tuple(k)
    except Exception:
        return ('?', repr(k))


class LoggingWKD(weakref.WeakKeyDictionary):
    """The outer dictionary of the cache, logging `get` and `__setitem__`."""

    def __init__(self, rec):
        weakref.WeakKeyDictionary.__init__(self)
        self._rec = rec

    def get(self, key, default=None):
        rec = self._rec
        rec.maybe_yield()
        with rec.mutex:
            rec.flush_x(rec.t(), True)
            rec.emit(rec.scan())
            r = weakref.WeakKeyDictionary.get(self, key, None)
            kv = rec.code_info.get(rec.code_serial(key)) if isinstance(key, types.CodeType) else None
            expected = any(rec.code_info.get(cs) == kv for cs in rec.sh_outer)
            post = rec.scan(outer=(expected != (r is not None)))
            # a weak-reference removal of an equal code object that raced with this lookup
            before = [c for c in post if not (c[0] == 'gc' and rec.code_info.get(c[1]) == kv and r is not None)]
            after = [c for c in post if c not in before]
            rec.emit(before)
            if r is None:
                rec.log('oget', rec.t(), None)
                out = default
            elif isinstance(r, dict) and id(r) in rec.bucket_ids:
                bs = rec.bucket_ids[id(r)]
                rec.log('oget', rec.t(), bs)
                out = BucketProxy(rec, r, bs)
            else:
                rec.emit([('unexpected', 'outer value is not a known bucket: %r' % (type(r),))])
                out = r
            rec.emit(after)
        return out

    def __setitem__(self, key, value):
        rec = self._rec
        rec.maybe_yield()
        with rec.mutex:
            rec.flush_x(rec.t(), True)
            rec.emit(rec.scan())
            weakref.WeakKeyDictionary.__setitem__(self, key, value)
            if not isinstance(value, dict) or not isinstance(key, types.CodeType):
                rec.emit([('unexpected', 'outer __setitem__(%s, %s)' % (type(key).__name__, type(value).__name__))])
                return
            bs = rec.bucket_serial(value, creator=rec.t())
            # which key object does the entry hang on now (an equal key keeps the old key object)
            owner = None
            for ref, val in list(self.data.items()):
                if val is value:
                    c = ref()
                    if c is not None:
                        owner = rec.code_serial(c)
            if owner is None:
                rec.emit([('unexpected', 'outer __setitem__: entry not found afterwards')])
                return
            rec.sh_outer[owner] = bs
            rec.log('oset', rec.t(), bs, owner)
            rec.emit(rec.scan())

    def _unexpected(self, name):
        with self._rec.mutex:
            self._rec.emit([('unexpected', 'outer method %s' % name)])

    def __getitem__(self, key):
        self._unexpected('__getitem__'); return weakref.WeakKeyDictionary.__getitem__(self, key)

    def __contains__(self, key):
        self._unexpected('__contains__'); return weakref.WeakKeyDictionary.__contains__(self, key)

    def __delitem__(self, key):
        self._unexpected('__delitem__'); return weakref.WeakKeyDictionary.__delitem__(self, key)

    def setdefault(self, key, default=None):
        self._unexpected('setdefault'); return weakref.WeakKeyDictionary.setdefault(self, key, default)

    def pop(self, key, *a):
        self._unexpected('pop'); return weakref.WeakKeyDictionary.pop(self, key, *a)

    def clear(self):
        self._unexpected('clear'); return weakref.WeakKeyDictionary.clear(self)

    def update(self, *a, **k):
        self._unexpected('update'); return weakref.WeakKeyDictionary.update(self, *a, **k)


class LoggingLock(object):
    """`_cache_lock` with logged acquire/release (logged while the lock is held)."""

    def __init__(self, rec, real):
        self.rec, self.real = rec, real

    def acquire(self, *a, **k):
        self.rec.maybe_yield()
        r = self.real.acquire(*a, **k)
        try:
            with self.rec.mutex:
                self.rec.emit(self.rec.scan())
                self.rec.log('acq', self.rec.t())
        except Exception:      # noqa  (bookkeeping must never change the program's control flow)
            self.rec.unexpected.append('recorder failure: ' + traceback.format_exc()[-300:])
        return r

    def release(self):
        try:
            self.rec.maybe_yield()
            with self.rec.mutex:
                self.rec.flush_x(self.rec.t(), True)
                self.rec.emit(self.rec.scan())
                self.rec.log('rel', self.rec.t())
        except Exception:      # noqa
            self.rec.unexpected.append('recorder failure: ' + traceback.format_exc()[-300:])
        finally:
            self.real.release()

    def __enter__(self):
        self.acquire()
        return self

    def __exit__(self, exc_type=None, *a):
        if exc_type is not None:
            try:
                with self.rec.mutex:
                    self.rec.conversion_raised(self.rec.t())
            except Exception:      # noqa
                self.rec.unexpected.append('recorder failure: ' + traceback.format_exc()[-300:])
        self.release()


class Installed(object):
    """Context manager: a fresh api.PyToPy() with logging proxies installed as api._TRANSPILER."""

    def __init__(self, rec):
        self.rec = rec

    def __enter__(self):
        malt, api, converter, transpiler, _, _ = _malt()
        rec = self.rec
        self.api, self.transpiler = api, transpiler
        self.old_tr = api._TRANSPILER
        tr = api.PyToPy()
        rec.wkd = LoggingWKD(rec)
        tr._cache._cache = rec.wkd
        if getattr(tr, '_cache_lock', None) is not None:
            tr._cache_lock = LoggingLock(rec, tr._cache_lock)
        else:
            # the lock structure of the transpiler changed: outside the model; observe what can be observed
            rec.unexpected.append('the transpiler has no `_cache_lock` (lock structure changed)')
            lock_for = getattr(tr, '_cache_lock_for', None)
            if callable(lock_for):
                proxies = {}

                def logging_lock_for(fn):
                    real = lock_for(fn)
                    p = proxies.get(id(real))
                    if p is None or p.real is not real:
                        p = proxies[id(real)] = LoggingLock(rec, real)
                    return p
                tr._cache_lock_for = logging_lock_for
        orig_tf = tr.transform_function
        orig_ast = tr.transform_ast

        def transform_function(fn, user_context):
            t = rec.t()
            depth = getattr(rec.tl, 'depth', 0)
            rec.tl.depth = depth + 1
            # the options actually requested (not get_caching_key's view of them)
            opt = _safe_opt(getattr(user_context, 'options', None))
            code = getattr(fn, '__code__', None)
            req = {'t': t, 'opt': opt, 'outcome': None, 'fn_id': id(getattr(fn, '__func__', fn))}
            with rec.mutex:
                rec.emit(rec.scan())
                if depth:
                    rec.emit([('unexpected', 'nested transform_function in one thread')])
                cs = rec.code_serial(code)
                req['code'], req['val'] = cs, rec.code_info[cs]
                req['env'] = rec.env_serial(_env_key(fn.__globals__, fn.__closure__ or (), fn.__defaults__,
                                                     getattr(fn, '__kwdefaults__', None)))
                req['sig'] = rec.sig_of(fn)
                rec.requests.setdefault(t, []).append(req)
                rec.tl.req = req
                rec.log('begin', t)
            try:
                res = orig_tf(fn, user_context)
                req['outcome'] = 'ok'
                req['ret_is_inst'] = (id(res[0]) == req.get('inst_id'))
                req['bind_err'] = binding_error(res[0], fn)
                return res
            except BaseException as e:
                req['outcome'] = 'err:' + type(e).__name__
                with rec.mutex:
                    if not rec.flush_x(t, False) and isinstance(e, KeyError):
                        rec.raw_keyerror(t)
                raise
            finally:
                rec.tl.depth = depth
                rec.tl.req = None
                rec.tl.last_req = req

        def transform_ast(node, ctx):
            req = getattr(rec.tl, 'req', None)
            with rec.mutex:
                rec.emit(rec.scan())
                if req is not None:
                    if rec.t() in rec.pending_x or req.get('x_logged'):
                        rec.emit([('unexpected', 'transform_ast ran twice in one request')])
                    rec.pending_x[rec.t()] = req
            rec.maybe_yield()
            return orig_ast(node, ctx)

        tr.transform_function = transform_function
        tr.transform_ast = transform_ast
        self.orig_inst = orig_inst = transpiler._PythonFnFactory.instantiate

        def instantiate(fself, globals_, closure, defaults=None, kwdefaults=None):
            req = getattr(rec.tl, 'req', None)
            if req is not None:
                rec.maybe_yield()
                with rec.mutex:
                    rec.flush_x(rec.t(), True)
                    rec.emit(rec.scan())
                    rec.log('inst', rec.t(), rec.fact_serial(fself),
                            rec.env_serial(_env_key(globals_, closure, defaults, kwdefaults)))
            out = orig_inst(fself, globals_, closure, defaults, kwdefaults)
            if req is not None:
                req['inst_id'] = id(out)
            return out

        transpiler._PythonFnFactory.instantiate = instantiate
        api._TRANSPILER = tr
        self.tr = tr

        # the second cache consulted by converted_call: function object -> {options: True} ("run as-is").
        # Fresh per history; every insertion is audited: it must record a context-INDEPENDENT decision.
        from malt.impl import conversion
        from malt.pyct import cache as cache_mod
        from malt.core import ag_ctx
        self.conversion = conversion
        self.old_allow = conversion._ALLOWLIST_CACHE
        conversion._ALLOWLIST_CACHE = type(conversion._ALLOWLIST_CACHE)()     # a fresh one of the class under test
        self.orig_cache_allowlisted = orig_ca = conversion.cache_allowlisted

        def cache_allowlisted(entity, options):
            try:
                f = getattr(entity, '__func__', entity)
                opt = _safe_opt(options)
                last = getattr(rec.tl, 'last_req', None)
                if api.is_autograph_artifact(entity):
                    reason = 'artifact'
                elif not getattr(options, 'internal_convert_user_code', True):
                    reason = 'internal_convert_user_code=False'
                elif conversion.is_unsupported(entity) or (not options.user_requested and conversion.is_allowlisted(entity)):
                    reason = 'policy'
                elif last is not None and last.get('fn_id') == id(f) and str(last.get('outcome')).startswith('err'):
                    reason = 'fallback after ' + last['outcome']
                else:
                    reason = None
                with rec.mutex:
                    if reason is None:
                        rec.allow_bad.append({'what': 'allowlist cache: "run as-is" recorded for a convertible function under '
                                                      'conversion status %s although its conversion did not fail; later '
                                                      'converted_call requests with these options will skip the conversion'
                                                      % ag_ctx.control_status_ctx().status.name,
                                              'function': getattr(f, '__qualname__', repr(f)), 'thread': rec.t(),
                                              'opt': [opt[0], opt[1], opt[2], list(opt[3])] if len(opt) == 4 else repr(opt)})
                    else:
                        try:
                            rec.allow_ok[(id(f), opt)] = (weakref.ref(f), reason)
                        except TypeError:
                            pass
            except Exception:      # noqa
                rec.unexpected.append('recorder failure: ' + traceback.format_exc()[-300:])
            return orig_ca(entity, options)

        conversion.cache_allowlisted = cache_allowlisted
        self.orig_in_allow = orig_in = conversion.is_in_allowlist_cache

        def is_in_allowlist_cache(entity, options):
            r = orig_in(entity, options)
            try:
                if r and not rec.allowed(entity, _safe_opt(options)):
                    f = getattr(entity, '__func__', entity)
                    with rec.mutex:
                        rec.allow_bad.append({'what': 'allowlist cache answered "run as-is" for a callable that has no entry of its '
                                                      'own: the verdict recorded for ANOTHER callable was served',
                                              'function': getattr(f, '__qualname__', repr(f)), 'thread': rec.t(),
                                              'opt': list(_safe_opt(options)[:3]) + [list(_safe_opt(options)[3])]})
            except Exception:      # noqa
                rec.unexpected.append('recorder failure: ' + traceback.format_exc()[-300:])
            return r

        conversion.is_in_allowlist_cache = is_in_allowlist_cache
        return tr

    def __exit__(self, *a):
        self.transpiler._PythonFnFactory.instantiate = self.orig_inst
        self.api._TRANSPILER = self.old_tr
        self.conversion.cache_allowlisted = self.orig_cache_allowlisted
        self.conversion.is_in_allowlist_cache = self.orig_in_allow
        self.conversion._ALLOWLIST_CACHE = self.old_allow
        with self.rec.mutex:
            self.rec.emit(self.rec.scan(full=True))


def binding_error(conv, fn):
    """The served function must be bound to the REQUESTING function's own environment, by identity:
    same globals dict, same cell object for every free variable it shares (by name) with the original,
    same defaults / kwdefaults objects.  Returns a description of the first deviation or None."""
    try:
        if conv.__globals__ is not fn.__globals__:
            return 'globals of the served function are not the requesting function\'s globals dict'
        ofree = fn.__code__.co_freevars
        oclo = fn.__closure__ or ()
        cfree = conv.__code__.co_freevars
        cclo = conv.__closure__ or ()
        for i, name in enumerate(cfree):
            if name in ofree:
                if cclo[i] is not oclo[ofree.index(name)]:
                    return 'free variable %r of the served function is bound to another cell than the requesting function\'s' % name
        if (fn.__defaults__ or None) is not None and conv.__defaults__ is not fn.__defaults__:
            return 'defaults of the served function are not the requesting function\'s defaults object'
        kd = getattr(fn, '__kwdefaults__', None)
        if kd and conv.__kwdefaults__ is not kd:
            return 'kwdefaults of the served function are not the requesting function\'s kwdefaults object'
    except Exception as e:      # noqa
        return 'binding check failed: %s' % type(e).__name__
    return None


def _env_key(g, closure, defaults, kwdefaults):
    return (id(g), tuple(id(c) for c in (closure or ())), id(defaults) if defaults else 0,
            id(kwdefaults) if kwdefaults else 0)


# ----------------------------------------------------------------------------------------------
# oracle
# ----------------------------------------------------------------------------------------------

def behave(g, args, fake):
    n0 = len(fake.log) if fake is not None else 0
    try:
        r = ('ok', repr(g(*args)))
    except Exception as e:       # noqa
        r = ('exc', type(e).__name__)
    return r + ((tuple(fake.log[n0:]),) if fake is not None else ())


class ConversionFailed(Exception):
    pass


def reference(entry, opt):
    """Cache-less conversion of exactly this function object under exactly these options
    (ConversionFailed if it raises)."""
    ref = entry.refs.get(opt)
    if ref is None:
        _, api, converter, _, _, _ = _malt()
        tr = api.PyToPy()
        try:
            ref, _, _ = tr.transform(entry.fn, converter.ProgramContext(options=make_opts(opt)))
        except Exception as e:      # noqa
            ref = ConversionFailed(type(e).__name__)
        entry.refs[opt] = ref
    if isinstance(ref, ConversionFailed):
        raise ref
    return ref


def call_args(entry, a):
    return ((entry.bound,) + tuple(a)) if entry.bound is not None else tuple(a)


_FEATS_RE = None


def gen_source(g):
    """Normalised generated source of a converted function (None if unavailable)."""
    global _FEATS_RE
    import re
    if _FEATS_RE is None:
        _FEATS_RE = re.compile(r'optional_features=\(([^()]*)\)')
    try:
        src = inspect.getsource(g)
    except Exception:       # noqa
        return None

    def norm(m):
        items = sorted(x.strip() for x in m.group(1).split(',') if x.strip())
        return 'optional_features=(%s)' % ', '.join(items)
    return _FEATS_RE.sub(norm, src)


def do_request(world, entry, opt, route, verdicts, where):
    """One request through a public route + the direct oracle.  Appends a verdict dict on failure."""
    malt, api, converter, _, _, _ = _malt()
    r, u, i, fs = opt
    feats = tuple(getattr(converter.Feature, f) for f in fs) or None
    fn = entry.fn
    info = dict(where, label=entry.label, opt=list(opt[:3]) + [list(opt[3])], route=route)
    try:
        try:
            ref = reference(entry, opt)
        except ConversionFailed:
            ref = None
        if route in ('to_graph', 'actual'):
            try:
                if route == 'to_graph':
                    g = malt.to_graph(fn, recursive=r, experimental_optional_features=feats)
                else:
                    g = api._convert_actual(fn, converter.ProgramContext(options=make_opts(opt)))
            except Exception as e:      # noqa
                if ref is not None:
                    verdicts.append(dict(info, what='request raised %s: %s (the cache-less reference conversion succeeds)'
                                         % (type(e).__name__, str(e)[:200])))
                return
            if ref is None:
                verdicts.append(dict(info, what='request returned a function although the cache-less reference conversion raises'))
                return
            for a in entry.args:
                got = behave(g, call_args(entry, a), entry.fake)
                exp = behave(ref, call_args(entry, a), entry.fake)
                if got != exp:
                    verdicts.append(dict(info, what='behaviour differs from cache-less reference conversion',
                                         args=[repr(x)[:60] for x in a], got=repr(got), expected=repr(exp)))
                elif entry.pure:
                    # a reference made in this process shares every process-wide memo with the request; a function
                    # without probe must in addition behave like the definition it was converted from
                    plain = behave(fn, call_args(entry, a), entry.fake)
                    if got != plain:
                        verdicts.append(dict(info, what='served conversion does not behave like the CURRENT definition of the '
                                                        'function (stale code)', args=[repr(x)[:60] for x in a],
                                             got=repr(got), expected=repr(plain)))
            sg, sr = gen_source(g), gen_source(ref)
            if sg is not None and sr is not None and sg != sr:
                import difflib
                d = [l for l in difflib.unified_diff(sr.split('\n'), sg.split('\n'), 'reference', 'served', lineterm='', n=0)][:12]
                verdicts.append(dict(info, what='generated code differs from cache-less reference conversion', diff=d))
        else:
            from malt.core import ag_ctx
            a = entry.args[world.pick(len(entry.args))]
            status = None
            if route.startswith('converted_call@'):
                status = {'D': ag_ctx.Status.DISABLED, 'E': ag_ctx.Status.ENABLED, 'U': ag_ctx.Status.UNSPECIFIED}[route[-1]]

            def under(g):
                if status is None:
                    return g

                def run(*xs):
                    with ag_ctx.ControlStatusCtx(status=status):
                        return g(*xs)
                return run
            if route.startswith('converted_call'):
                call = lambda *xs: api.converted_call(fn, tuple(xs), None, options=make_opts(opt))   # noqa
            else:
                call = malt.convert(recursive=r, optional_features=feats, user_requested=u)(fn)
            rec = getattr(world, 'rec', None)
            t = rec.t() if rec is not None else -1
            pre_allowed = rec.allowed(fn, opt) if rec is not None else False
            n0 = len(rec.requests.get(t, [])) if rec is not None else 0
            # the wrapper passes `self` itself for bound methods
            got = behave(under(call), tuple(a), entry.fake)
            as_is = lambda: behave(under(fn), tuple(a), entry.fake)      # noqa
            if status == ag_ctx.Status.DISABLED or ref is None or pre_allowed:
                # conversion disabled in this context / documented fallback of an unconvertible function /
                # legitimately allowlisted earlier: the function runs as-is
                exp = as_is()
            else:
                exp = behave(under(ref), call_args(entry, a), entry.fake)
                if got != exp and rec is not None and len(rec.requests.get(t, [])) == n0 and rec.allowed(fn, opt):
                    exp = as_is()      # a legitimate allowlist entry made by another thread raced with this request
            if got != exp:
                verdicts.append(dict(info, what='converted call differs from the same request against fresh caches',
                                     args=[repr(x)[:60] for x in a], got=repr(got), expected=repr(exp)))
            elif entry.pure and got != as_is():
                verdicts.append(dict(info, what='served conversion does not behave like the CURRENT definition of the function '
                                                '(stale code)', args=[repr(x)[:60] for x in a], got=repr(got), expected=repr(as_is())))
    except Exception as e:       # noqa
        verdicts.append(dict(info, what='request raised %s: %s' % (type(e).__name__, str(e)[:200])))


def do_pair(world, group, opt, route, verdicts, where):
    """Two sibling closures from one factory, created with EQUAL captured values, converted back to
    back; then the captured variable of one (sometimes both) is rebound through its setter closure; only
    then are both compared with their cache-less reference conversions."""
    malt, api, converter, _, _, _ = _malt()
    r, u, i, fs = opt
    feats = tuple(getattr(converter.Feature, f) for f in fs) or None
    k0 = 3 + world.pick(5)
    (sa, seta), (sb, setb) = group.maker(k0), group.maker(k0)
    ea = Fn(sa, [(3,), (0,)], 'sibling closure a (k=%d at conversion)' % k0, setter=seta)
    eb = Fn(sb, [(3,), (0,)], 'sibling closure b (k=%d at conversion)' % k0, setter=setb)
    info = dict(where, opt=list(opt[:3]) + [list(opt[3])], route=route)
    try:
        conv = []
        for e in (ea, eb):
            if route == 'to_graph':
                conv.append(malt.to_graph(e.fn, recursive=r, experimental_optional_features=feats))
            else:
                conv.append(api._convert_actual(e.fn, converter.ProgramContext(options=make_opts(opt))))
        refs = [reference(ea, opt), reference(eb, opt)]
        # diverge AFTER both conversions
        setb(k0 + 7)
        if world.pick(3) == 0:
            seta(k0 + 20)
        for e, g, ref in zip((ea, eb), conv, refs):
            for a in e.args:
                got = behave(g, a, None)
                exp = behave(ref, a, None)
                if got != exp:
                    verdicts.append(dict(info, label=e.label, args=[repr(x) for x in a], got=repr(got), expected=repr(exp),
                                         what='behaviour differs from cache-less reference conversion after the '
                                              'captured variable was rebound'))
            be = binding_error(g, e.fn)
            if be:
                verdicts.append(dict(info, label=e.label, what=be))
    except Exception as e:       # noqa
        verdicts.append(dict(info, label='sibling closures', what='request raised %s: %s' % (type(e).__name__, str(e)[:200])))


class World(object):
    def __init__(self, seed, scratch):
        self.rng = random.Random(seed)
        self.dir = scratch
        self.groups = []
        self._pick_lock = threading.Lock()

    def pick(self, n):
        with self._pick_lock:
            return self.rng.randrange(n)

    def new_group(self, kind, params=None, name=None):
        rng = self.rng
        p = {'g': rng.randrange(1, 50), 'c': rng.randrange(1, 9), 'd': rng.randrange(1, 9)}
        p.update(params or {})
        g = Group(self, kind, p, name or ('%s%d' % (kind, len(self.groups))))
        self.groups.append(g)
        return g
