"""C08 — re-analysis slice: the analysis must be a function of the tree, not of annotations left on it.

Sequence on ONE tree:  qual_names.resolve + activity.resolve  ->  an edit that keeps annotations
(ast_util.rename_symbols, ast_util.copy_clean(preserve_annos=…) followed by in-place edits of Name ids,
templates.replace inserting a statement built from an annotated node)  ->  qual_names.resolve + activity.resolve
AGAIN.  The second result must equal the analysis of a freshly parsed copy of the edited source (freshness) and
the Lean model's answer for the edited tree; running the analysis twice on an unedited tree must give identical
results (idempotence).
"""
import ast
import random

import c08_real

EDITS = ['rename', 'copy', 'template']


def _names_in(node):
    out = []
    for n in ast.walk(node):
        if isinstance(n, ast.Name) and not n.id.startswith('__') and n.id not in out:
            out.append(n.id)
    return out


def _all_identifiers(node):
    ids = set()
    for n in ast.walk(node):
        for f in ('id', 'name', 'arg', 'attr', 'asname'):
            v = getattr(n, f, None)
            if isinstance(v, str):
                ids.add(v)
        if isinstance(n, (ast.Global, ast.Nonlocal)):
            ids.update(n.names)
        if isinstance(n, ast.alias):
            ids.update(n.name.split('.'))
    return ids


def choose_mapping(node, rng, how_many=3):
    """A random injective renaming of some of the names of the tree to names that do not occur in it."""
    names = sorted(_names_in(node))
    if not names:
        return {}
    rng.shuffle(names)
    used = _all_identifiers(node)
    mapping, k = {}, 0
    for old in names[:how_many]:
        while 'rn%d_' % k in used:
            k += 1
        mapping[old] = 'rn%d_' % k
        k += 1
    return mapping


def apply_edit(node, kind, mapping):
    """Applies the edit to an ANALYSED tree, keeping its annotations.  Returns the edited tree."""
    from malt.pyct import anno, ast_util, qual_names, templates
    if kind == 'rename':
        return ast_util.rename_symbols(node, {qual_names.QN(o): qual_names.QN(n) for o, n in mapping.items()})
    if kind == 'copy':
        keys = set()
        for n in ast.walk(node):
            keys |= set(anno.keys(n))
        new = ast_util.copy_clean(node, preserve_annos=keys)
        for n in ast.walk(new):
            if isinstance(n, ast.Name) and n.id in mapping:
                n.id = mapping[n.id]          # in-place edit: the annotations stay on the node
        return new
    if kind == 'template':
        src = None
        for n in ast.walk(node):
            if isinstance(n, ast.Name) and isinstance(n.ctx, ast.Load) and n.id in mapping:
                src = n
                break
        if src is None:
            for n in ast.walk(node):
                if isinstance(n, ast.Name) and isinstance(n.ctx, ast.Load):
                    src = n
                    break
        if src is None:
            return node
        new_name = sorted(mapping.values())[0] if mapping else 'rn_tpl_'
        stmts = templates.replace('new_ = old_', new_=new_name, old_=src)
        node.body = list(stmts) + list(node.body)
        return node
    raise ValueError(kind)


class Result(object):
    pass


def reanalyse(fn_node, kind, seed):
    """fn_node: a fresh FunctionDef.  Returns a Result (set-aside reason in `.aside`, else the texts to compare)."""
    r = Result()
    r.kind, r.aside, r.mapping = kind, None, {}
    r.source = ast.unparse(fn_node)
    first = c08_real.Impl(fn_node)
    if first.crash:
        r.aside = 'first-pass-crash:' + first.crash
        return r
    r.first_text = first.text()
    # idempotence: analysing the same, unedited tree again
    second = c08_real.Impl(fn_node)
    r.idempotent = (second.crash is None and second.text() == r.first_text)
    r.second_text = second.text()
    rng = random.Random(seed)
    r.mapping = choose_mapping(fn_node, rng)
    try:
        edited = apply_edit(fn_node, kind, r.mapping)
        ast.fix_missing_locations(edited)
        r.edited_source = ast.unparse(edited)
        fresh = ast.parse(r.edited_source).body[0]
    except Exception as e:  # noqa: an edit the utilities reject / an unparsable result is not a finding
        r.aside = 'edit-failed:' + type(e).__name__
        return r
    re_impl = c08_real.Impl(edited)             # resolve + activity on the tree that carries the old annotations
    fr_impl = c08_real.Impl(fresh)              # … and on a freshly parsed copy of the same program
    r.re_text, r.fresh_text = re_impl.text(), fr_impl.text()
    r.ser_text = fr_impl.ser.text()
    r.lambda_body_ids = {str(fr_impl.ser.id_of(n.body)) for n in ast.walk(fresh) if isinstance(n, ast.Lambda)}
    r.model_comparable = not (fr_impl.crash or c08_real.literal_aliasing(fresh) or c08_real.has_unknown(fr_impl.ser.sexp))
    return r
