"""C02 helpers: a REAL tracing-style operator backend injected through PyToPy.get_extra_locals, and the
translators from real trees (the tree ControlFlowTransformer receives, with its static annotations; the final
generated tree) to the S-expression formats of lean/MaltModel/Drv/C02.lean.

The backend touches the enclosing function's variables ONLY through get_state/set_state:
  if_stmt   : s0 = get_state(); body(); sb = get_state(); set_state(s0); orelse(); so = get_state();
              set_state(selected[:nouts] + s0[nouts:])
  while_stmt: s0 = get_state(); body() out of band; set_state(s0); then: set_state(carried); test(); body(); carried = get_state()
  for_stmt  : same, the out-of-band trace gets the first item (0 for an empty iterable)
which is exactly `execF` of lean/MaltModel/Func/Target.lean.
"""
import ast, importlib.machinery, importlib.util

import common
import passes


class Unsupported(Exception):
    """The tree is outside the shared fragment (not an error)."""


class ShapeMismatch(Exception):
    """The generated code does not have the shape the target model assumes (a broken obligation)."""


# ------------------------------------------------------------------------------------------------
# the tracing backend
# ------------------------------------------------------------------------------------------------
class Counters(object):
    def __init__(self):
        self.reset()

    def reset(self):
        self.ifs = self.whiles = self.fors = self.zero_trip = self.both_branches = 0


COUNTERS = Counters()
ITERATION_CAP = 5000


def f_if_stmt(cond, body, orelse, get_state, set_state, symbol_names, nouts):
    COUNTERS.ifs += 1
    s0 = get_state()
    body()
    sb = get_state()
    set_state(s0)
    orelse()
    so = get_state()
    COUNTERS.both_branches += 1
    sel = sb if cond else so
    set_state(tuple(sel[:nouts]) + tuple(s0[nouts:]))


def f_while_stmt(test, body, get_state, set_state, symbol_names, opts):
    COUNTERS.whiles += 1
    s0 = get_state()
    body()                      # traced once out of band, also for zero iterations
    set_state(s0)
    carried = s0
    trips = 0
    while True:
        set_state(carried)
        if not test():
            break
        body()
        carried = get_state()
        trips += 1
        if trips > ITERATION_CAP:      # a loop whose counter is not carried would spin forever: make it a failing outcome
            raise RuntimeError('tracing backend: iteration cap exceeded (loop state not carried?)')
    if trips == 0:
        COUNTERS.zero_trip += 1


def f_for_stmt(iter_, extra_test, body, get_state, set_state, symbol_names, opts):
    COUNTERS.fors += 1
    items = list(iter_)
    s0 = get_state()
    body(items[0] if items else 0)   # traced once out of band, also for zero iterations
    set_state(s0)
    carried = s0
    trips = 0
    if extra_test is None or extra_test():
        for v in items:
            set_state(carried)
            body(v)
            carried = get_state()
            trips += 1
            if extra_test is not None and not extra_test():
                break
    set_state(carried)
    if trips == 0:
        COUNTERS.zero_trip += 1


_BACKEND = {}


def backend_class():
    if 'cls' not in _BACKEND:
        from malt.impl import api

        class TracingPyToPy(api.PyToPy):
            def get_extra_locals(self):
                if self._extra_locals is None:
                    std = api.PyToPy.get_extra_locals(self)['ag__']
                    spec = importlib.machinery.ModuleSpec('malt', None)
                    mod = importlib.util.module_from_spec(spec)
                    mod.__dict__.update(std.__dict__)
                    mod.if_stmt = f_if_stmt
                    mod.while_stmt = f_while_stmt
                    mod.for_stmt = f_for_stmt
                    self._extra_locals = {'ag__': mod}
                return self._extra_locals

            def transform_ast(self, node, ctx):
                out = api.PyToPy.transform_ast(self, node, ctx)
                try:
                    from malt.pyct import parser
                    self.last_source = parser.unparse(out, include_encoding_marker=False)
                except Exception as e:     # never let the recording change the conversion
                    self.last_source = 'UNPARSE-ERROR %r' % (e,)
                return out
        _BACKEND['cls'] = TracingPyToPy
    return _BACKEND['cls']


def convert_tracing(fn):
    """Convert `fn` with a fresh tracing-backend transpiler. recursive=False: nested defs are converted in place as
    part of fn's tree (and call the same backend); other callees are called unconverted."""
    from malt.core import converter
    t = backend_class()()
    opts = converter.ConversionOptions(recursive=False, user_requested=True, optional_features=None)
    ctx = converter.ProgramContext(options=opts)
    converted, module, source_map = t.transform(fn, ctx)
    converted.__c02_source__ = getattr(t, 'last_source', None)
    return converted


def same_generated_code(native_source, tracing_source):
    """The two conversions of one function differ only in the embedded options (recursive=False for the tracing one)."""
    if native_source is None or tracing_source is None:
        return False
    import re
    opts = re.compile(r'ag__\.ConversionOptions\((?:[^()]|\([^()]*\))*\)|ag__\.STD\b')
    norm = lambda s: opts.sub('OPTS', s)
    return norm(native_source) == norm(tracing_source)


# ------------------------------------------------------------------------------------------------
# expressions (shared by both translators; `final` = the tree after all passes, with ag__ wrappers)
# ------------------------------------------------------------------------------------------------
_BIN = {ast.Add: 'add', ast.Sub: 'sub', ast.Mult: 'mul'}
_CMP = {ast.Lt: ('lt', False), ast.LtE: ('le', False), ast.Gt: ('lt', True), ast.GtE: ('le', True),
        ast.Eq: ('eq', False), ast.NotEq: ('ne', False)}


def _is_ag(n, name):
    return isinstance(n, ast.Attribute) and n.attr == name and isinstance(n.value, ast.Name) and n.value.id == 'ag__'


def _lambda_body(n):
    if isinstance(n, ast.Lambda) and not (n.args.args or n.args.vararg or n.args.kwarg or n.args.kwonlyargs):
        return n.body
    raise Unsupported('lambda shape')


def tx_expr(e):
    """Python expression (either tree) -> model expr sexp (nested lists)."""
    if isinstance(e, ast.Name):
        return ['v', e.id]
    if isinstance(e, ast.Constant):
        if isinstance(e.value, bool):
            return ['c', 1 if e.value else 0]
        if isinstance(e.value, int):
            return ['c', e.value]
        if e.value is None:
            return ['n']
        raise Unsupported('constant')
    if isinstance(e, ast.BinOp) and type(e.op) in _BIN:
        return ['bin', _BIN[type(e.op)], tx_expr(e.left), tx_expr(e.right)]
    if isinstance(e, ast.UnaryOp) and isinstance(e.op, ast.Not):
        return ['not', tx_expr(e.operand)]
    if isinstance(e, ast.UnaryOp) and isinstance(e.op, ast.USub):
        return ['bin', 'sub', ['c', 0], tx_expr(e.operand)]
    if isinstance(e, ast.Compare) and len(e.ops) == 1 and type(e.ops[0]) in _CMP:
        op, swap = _CMP[type(e.ops[0])]
        a, b = tx_expr(e.left), tx_expr(e.comparators[0])
        return ['bin', op, b, a] if swap else ['bin', op, a, b]
    if isinstance(e, ast.BoolOp):
        vals = [tx_expr(v) for v in e.values]
        op = 'and' if isinstance(e.op, ast.And) else 'or'
        out = vals[-1]
        for v in reversed(vals[:-1]):
            out = [op, v, out]
        return out
    if isinstance(e, ast.IfExp):
        return ['ite', tx_expr(e.test), tx_expr(e.body), tx_expr(e.orelse)]
    if isinstance(e, ast.Call):
        f = e.func
        if _is_ag(f, 'ld') and len(e.args) == 1 and isinstance(e.args[0], ast.Name):
            return ['v', e.args[0].id]
        if _is_ag(f, 'not_') and len(e.args) == 1:
            return ['not', tx_expr(e.args[0])]
        if (_is_ag(f, 'and_') or _is_ag(f, 'or_')) and len(e.args) == 2:
            return ['and' if f.attr == 'and_' else 'or', tx_expr(_lambda_body(e.args[0])), tx_expr(_lambda_body(e.args[1]))]
        if _is_ag(f, 'if_exp') and len(e.args) == 4:
            return ['ite', tx_expr(e.args[0]), tx_expr(_lambda_body(e.args[1])), tx_expr(_lambda_body(e.args[2]))]
        if _is_ag(f, 'UndefinedReturnValue') and not e.args:
            return ['n']
    raise Unsupported('expression ' + type(e).__name__)


def tx_iter(e):
    """Iterated expression of a `for`: a name (list parameter) or range(<int expr>)."""
    if isinstance(e, ast.Call) and _is_ag(e.func, 'ld') and isinstance(e.args[0], ast.Name):
        return ['v', e.args[0].id]
    if isinstance(e, ast.Name):
        return ['v', e.id]
    if isinstance(e, ast.Call) and _is_ag(e.func, 'converted_call') and len(e.args) >= 2:
        callee = e.args[0]
        if isinstance(callee, ast.Call) and _is_ag(callee.func, 'ld'):
            callee = callee.args[0]
        if isinstance(callee, ast.Name) and callee.id == 'range' and isinstance(e.args[1], ast.Tuple) and len(e.args[1].elts) == 1:
            return tx_expr(e.args[1].elts[0])
    raise Unsupported('iterated expression')


_EXC_TAGS = {'E1': 1, 'E2': 2}


def _unld(n):
    if isinstance(n, ast.Call) and _is_ag(n.func, 'ld') and len(n.args) == 1:
        return n.args[0]
    return n


def with_tag(s):
    """`with cm(<int>):` (either tree) -> the tag, else Unsupported."""
    if len(s.items) == 1 and s.items[0].optional_vars is None:
        c = s.items[0].context_expr
        if isinstance(c, ast.Call) and isinstance(_unld(c.func), ast.Name) and _unld(c.func).id == 'cm' \
                and len(c.args) == 1 and isinstance(c.args[0], ast.Constant) and isinstance(c.args[0].value, int):
            return c.args[0].value
    raise Unsupported('with item')


def raise_tag(s):
    """`raise E1()` / `raise E2()` (either tree; the call goes through converted_call) -> the tag."""
    e = s.exc
    if isinstance(e, ast.Call) and _is_ag(e.func, 'converted_call') and e.args:
        callee = _unld(e.args[0])
        if isinstance(callee, ast.Name) and callee.id in _EXC_TAGS:
            return _EXC_TAGS[callee.id]
    if isinstance(e, ast.Call) and isinstance(_unld(e.func), ast.Name) and _unld(e.func).id in _EXC_TAGS:
        return _EXC_TAGS[_unld(e.func).id]
    raise Unsupported('raise')


def handler_tag(h):
    t = _unld(h.type) if h.type is not None else None
    if isinstance(t, ast.Name) and t.id in _EXC_TAGS and h.name is None:
        return _EXC_TAGS[t.id]
    raise Unsupported('except clause')


# ------------------------------------------------------------------------------------------------
# the tree ControlFlowTransformer receives  ->  annotated model program (astmt sexps)
# ------------------------------------------------------------------------------------------------
def simple_names(names):
    return sorted(n for n in names if '.' not in n and '[' not in n)


def _fscope_body(fn):
    """Statements of the function body inside `with ag__.FunctionScope(...) as fscope:`."""
    if len(fn.body) == 1 and isinstance(fn.body[0], ast.With):
        w = fn.body[0]
        if len(w.items) == 1 and isinstance(w.items[0].context_expr, ast.Call) and _is_ag(w.items[0].context_expr.func, 'FunctionScope'):
            return w.body
    raise Unsupported('no FunctionScope wrapper')


def _is_return_tail(stmts, k):
    """`try: do_return = True; retval_ = E  except: do_return = False; raise` followed by `return fscope.ret(...)`."""
    s = stmts[k]
    if not (isinstance(s, ast.Try) and k + 2 == len(stmts) and isinstance(stmts[k + 1], ast.Return)):
        return None
    if len(s.body) != 2 or s.orelse or s.finalbody or len(s.handlers) != 1 or s.handlers[0].type is not None:
        return None
    a, b = s.body
    if not (isinstance(a, ast.Assign) and isinstance(b, ast.Assign) and isinstance(b.targets[0], ast.Name)):
        return None
    return b.value


def _return_try(s):
    """`try: <dr> = True; <rv> = E  except: <dr> = False; raise` (what the return pass makes of `return E`) -> (a, b):
    the two assignments.  The handler only resets `do_return` on the way out of the function."""
    if not isinstance(s, ast.Try) or len(s.body) != 2 or s.orelse or s.finalbody or len(s.handlers) != 1 \
            or s.handlers[0].type is not None:
        return None
    a, b = s.body
    h = s.handlers[0].body
    if not (isinstance(a, ast.Assign) and isinstance(b, ast.Assign) and isinstance(a.targets[0], ast.Name)
            and isinstance(b.targets[0], ast.Name) and isinstance(a.value, ast.Constant) and a.value.value is True
            and a.targets[0].id.startswith('do_return') and b.targets[0].id.startswith('retval_')):
        return None
    if not (len(h) == 2 and isinstance(h[0], ast.Assign) and isinstance(h[0].targets[0], ast.Name)
            and h[0].targets[0].id == a.targets[0].id and isinstance(h[0].value, ast.Constant) and h[0].value.value is False
            and isinstance(h[1], ast.Raise) and h[1].exc is None):
        return None
    return a, b


GENERATED_FN_PREFIXES = ('if_body', 'else_body', 'loop_body', 'get_state', 'set_state', 'loop_test', 'extra_test')


def own_statements(fn):
    """Statements of `fn` at its own level (not inside nested defs / classes)."""
    out, stack = [], list(fn.body)
    while stack:
        s = stack.pop()
        out.append(s)
        if isinstance(s, (ast.FunctionDef, ast.AsyncFunctionDef, ast.ClassDef)):
            continue
        for sub in ('body', 'orelse', 'finalbody'):
            b = getattr(s, sub, None)
            if isinstance(b, list):
                stack.extend(x for x in b if isinstance(x, ast.stmt))
        if isinstance(s, ast.Try):
            for h in s.handlers:
                stack.extend(h.body)
    return out


def user_defs(fn):
    """`fn` and the user's nested defs in it, pre-order, with nesting flag — generated body/state functions are skipped
    (but searched: a user's def may sit inside a generated body function)."""
    out = []

    def go(f, nested, user):
        if user:
            out.append((f, nested))
        for s in own_statements(f):
            if isinstance(s, ast.FunctionDef):
                go(s, True, not s.name.startswith(GENERATED_FN_PREFIXES))
    go(fn, False, True)
    return out


def wrapper_of(fn, nested):
    """The model's `Wrapper` record of one generated function, read off the REAL final code, with every shape the model
    of Func/Wrapper.lean assumes checked: one `with ag__.FunctionScope('<fn>', '<scope>', <options>) as <scope>:` holding
    the whole body (after the docstring); shape (a) no `return` at the function's own level; shape (b)
    `do_return = False; retval_ = ag__.UndefinedReturnValue(); ...; return <scope>.ret(retval_, do_return)` and no other
    `return` outside the generated body functions; nested defs carry `@ag__.autograph_artifact` and call options."""
    body = list(fn.body)
    if body and isinstance(body[0], ast.Expr) and isinstance(body[0].value, ast.Constant):
        body = body[1:]
    if not (len(body) == 1 and isinstance(body[0], ast.With) and len(body[0].items) == 1):
        raise ShapeMismatch('function %s: body is not a single with statement' % fn.name)
    w = body[0]
    call, var = w.items[0].context_expr, w.items[0].optional_vars
    if not (isinstance(call, ast.Call) and _is_ag(call.func, 'FunctionScope') and len(call.args) == 3 and not call.keywords
            and isinstance(var, ast.Name)):
        raise ShapeMismatch('function %s: with item is not ag__.FunctionScope(name, scope, options) as scope' % fn.name)
    a0, a1, opts = call.args
    # the converted entity itself is renamed by the transpiler after the passes (`ag__<name>`); nested defs keep theirs
    if not (isinstance(a0, ast.Constant) and (a0.value == fn.name or (not nested and fn.name == 'ag__' + str(a0.value)))):
        raise ShapeMismatch('function %s: FunctionScope function name %s' % (fn.name, ast.unparse(a0)))
    if not (isinstance(a1, ast.Constant) and a1.value == var.id and var.id.startswith('fscope')):
        raise ShapeMismatch('function %s: scope name %s bound as %s' % (fn.name, ast.unparse(a1), var.id))
    if _is_ag(opts, 'STD'):
        ur = False
    elif isinstance(opts, ast.Call) and _is_ag(opts.func, 'ConversionOptions'):
        kws = dict((k.arg, k.value) for k in opts.keywords)
        u = kws.get('user_requested')
        if not (isinstance(u, ast.Constant) and isinstance(u.value, bool)):
            raise ShapeMismatch('function %s: user_requested is not a literal' % fn.name)
        ur = u.value
    else:
        raise ShapeMismatch('function %s: options %s' % (fn.name, ast.unparse(opts)[:60]))
    decos = fn.decorator_list
    if nested:
        if not (decos and _is_ag(decos[-1], 'autograph_artifact')):
            raise ShapeMismatch('nested function %s lacks @ag__.autograph_artifact' % fn.name)
    elif decos:
        raise ShapeMismatch('converted entity %s keeps decorators' % fn.name)
    inner = list(w.body)
    returns = [s for f, _ in [(fn, None)] for s in own_statements(f) if isinstance(s, ast.Return)]
    # returns of generated state/test functions live in nested defs: not at own level
    ret = None
    if inner and isinstance(inner[-1], ast.Return):
        r = inner[-1]
        v = r.value
        if not (len(inner) >= 3 and isinstance(v, ast.Call) and isinstance(v.func, ast.Attribute) and v.func.attr == 'ret'
                and isinstance(v.func.value, ast.Name) and v.func.value.id == var.id and len(v.args) == 2
                and all(isinstance(x, ast.Name) for x in v.args) and not v.keywords):
            raise ShapeMismatch('function %s: final return is not <scope>.ret(retval_, do_return)' % fn.name)
        rv, dr = v.args[0].id, v.args[1].id
        i0, i1 = inner[0], inner[1]
        if not (isinstance(i0, ast.Assign) and len(i0.targets) == 1 and isinstance(i0.targets[0], ast.Name) and i0.targets[0].id == dr
                and isinstance(i0.value, ast.Constant) and i0.value.value is False):
            raise ShapeMismatch('function %s: first statement is not %s = False' % (fn.name, dr))
        if not (isinstance(i1, ast.Assign) and len(i1.targets) == 1 and isinstance(i1.targets[0], ast.Name) and i1.targets[0].id == rv
                and isinstance(i1.value, ast.Call) and _is_ag(i1.value.func, 'UndefinedReturnValue') and not i1.value.args):
            raise ShapeMismatch('function %s: second statement is not %s = ag__.UndefinedReturnValue()' % (fn.name, rv))
        if not (dr.startswith('do_return') and rv.startswith('retval_')):
            raise ShapeMismatch('function %s: names of the return variables' % fn.name)
        if returns != [r]:
            raise ShapeMismatch('function %s: a return statement besides the final one is left' % fn.name)
        ret = [dr, rv]
        inner = inner[2:-1]
    elif returns:
        raise ShapeMismatch('function %s: a return statement is left in a body that does not end in <scope>.ret' % fn.name)
    return {'name': a0.value, 'scope': var.id, 'ur': ur, 'ret': ret, 'inner': inner, 'nested': nested}


def source_wrapper_facts(source_fn):
    """What the model predicts from the SOURCE: per user def (pre-order) (name, nested, has a `return` of its own)."""
    out = []
    for f, nested in user_defs(source_fn):
        out.append((f.name, nested, any(isinstance(s, ast.Return) for s in own_statements(f))))
    return out


def wrapper_shape_problems(source_fn, final_fn):
    """Compare the prediction with the wrappers found in the real final code; list of problems (empty = corresponds)."""
    want = source_wrapper_facts(source_fn)
    try:
        got = [wrapper_of(f, nested) for f, nested in user_defs(final_fn)]
    except ShapeMismatch as e:
        return [str(e)]
    probs = []
    if [(w['name'], w['nested']) for w in got] != [(n, ne) for n, ne, _ in want]:
        return ['functions in the final code %r, in the source %r' % ([(w['name'], w['nested']) for w in got], [(n, ne) for n, ne, _ in want])]
    for w, (n, ne, hr) in zip(got, want):
        if (w['ret'] is not None) != hr:
            probs.append('function %s: source has %s return, generated shape is %s' % (n, 'a' if hr else 'no', 'b' if w['ret'] else 'a'))
        if w['ur'] != (not ne):
            probs.append('function %s: user_requested=%r for a %s function' % (n, w['ur'], 'nested' if ne else 'top-level'))
    scopes = [w['scope'] for w in got]
    if len(set(scopes)) != len(scopes):
        probs.append('scope names are not distinct: %r' % scopes)
    return probs


class PreTree(object):
    """The pre-ControlFlow tree of the top-level function as an annotated model program.
    wrapper=True: the return protocol is kept (`do_return = False; retval_ = None; ...; return retval_`, every lowered
    `return E` as `do_return = True; retval_ = E`) — the `Lowered.prog` of Func/Wrapper.lean; otherwise the trailing lowered
    return is read back as `return E`."""

    def __init__(self, node, annos_of, wrapper=False):
        """node: the ast.FunctionDef the pass received (re-built from the snapshot), annos_of(node) -> dict."""
        self.annos_of = annos_of
        self.params = [a.arg for a in node.args.args]
        self.n_compound = 0
        self.wrapper = wrapper
        self.block = self.conv_block(_fscope_body(node), [], top=True)

    def info(self, s, nxt_in):
        an = self.annos_of(s)
        li = simple_names(an.get('LIVE_VARS_IN', []))
        lo = simple_names(an['LIVE_VARS_OUT']) if 'LIVE_VARS_OUT' in an else list(nxt_in)
        de = simple_names(an.get('DEFINED_VARS_IN', []))
        return {'in': li, 'out': lo, 'def': de, 'decl': [], 'undef': [], 'nouts': 0}

    def live_in(self, s):
        return simple_names(self.annos_of(s).get('LIVE_VARS_IN', []))

    def conv_block(self, stmts, cont, top=False):
        out = []
        k = 0
        while k < len(stmts):
            s = stmts[k]
            if self.wrapper:
                nxt = self.live_in(stmts[k + 1]) if k + 1 < len(stmts) else cont
                rt = _return_try(s)
                if rt is not None:
                    a, b = rt
                    ia = self.info(a, self.live_in(b))
                    ib = self.info(b, nxt)
                    ib['out'] = list(nxt)
                    ia['out'] = list(ib['in'])
                    out.append(['assign', ia, a.targets[0].id, tx_expr(a.value)])
                    out.append(['assign', ib, b.targets[0].id, tx_expr(b.value)])
                    k += 1
                    continue
                if isinstance(s, ast.Return):
                    v = s.value
                    if not (top and k + 1 == len(stmts) and isinstance(v, ast.Call) and isinstance(v.func, ast.Attribute)
                            and v.func.attr == 'ret' and len(v.args) == 2 and isinstance(v.args[0], ast.Name)):
                        raise Unsupported('return outside the protocol')
                    inf = self.info(s, [])
                    inf['out'] = []
                    out.append(['ret', inf, ['v', v.args[0].id]])
                    break
                out.append(self.conv_stmt(s, nxt))
                k += 1
                continue
            tail = _is_return_tail(stmts, k)
            if tail is not None:
                inf = self.info(s, [])
                inf['out'] = []
                out.append(['ret', inf, tx_expr(tail)])
                break
            nxt = self.live_in(stmts[k + 1]) if k + 1 < len(stmts) else cont
            out.append(self.conv_stmt(s, nxt))
            k += 1
        return out

    def conv_stmt(self, s, nxt):
        inf = self.info(s, nxt)
        if isinstance(s, ast.Assign) and len(s.targets) == 1 and isinstance(s.targets[0], ast.Name):
            return ['assign', inf, s.targets[0].id, tx_expr(s.value)]
        if isinstance(s, ast.AugAssign) and isinstance(s.target, ast.Name) and type(s.op) in _BIN:
            return ['assign', inf, s.target.id, ['bin', _BIN[type(s.op)], ['v', s.target.id], tx_expr(s.value)]]
        if isinstance(s, ast.Expr):
            v = s.value
            if isinstance(v, ast.Tuple) and len(v.elts) == 1:
                v = v.elts[0]
            return ['expr', inf, tx_expr(v)]
        if isinstance(s, ast.Pass):
            return ['pass', inf]
        if isinstance(s, ast.If):
            self.n_compound += 1
            return ['if', inf, tx_expr(s.test), self.conv_block(s.body, inf['out']),
                    self.conv_block(s.orelse, inf['out']) if s.orelse else [['pass', dict(inf, **{'in': inf['out'], 'def': []})]]]
        if isinstance(s, ast.While) and not s.orelse:
            self.n_compound += 1
            return ['while', inf, tx_expr(s.test), self.conv_block(s.body, inf['in'])]
        if isinstance(s, ast.For) and not s.orelse and isinstance(s.target, ast.Name):
            self.n_compound += 1
            extra = getattr(s, '_extra_test', None)
            return ['for', inf, s.target.id, tx_iter(s.iter), [tx_expr(extra)] if extra is not None else [],
                    self.conv_block(s.body, inf['in'])]
        if isinstance(s, ast.With):
            return ['with', inf, with_tag(s), self.conv_block(s.body, inf['out'])]
        if isinstance(s, ast.Raise):
            return ['raise', inf, raise_tag(s)]
        if isinstance(s, ast.Try) and not s.orelse:
            # continuation of body and handlers: the finally block's live-in (the try's live-out if there is none)
            fi = self.live_in(s.finalbody[0]) if s.finalbody else inf['out']
            return ['try', inf, self.conv_block(s.body, fi),
                    [[handler_tag(h), self.conv_block(h.body, fi)] for h in s.handlers],
                    self.conv_block(s.finalbody, inf['out'])]
        raise Unsupported('statement ' + type(s).__name__)


# ------------------------------------------------------------------------------------------------
# the final generated tree  ->  model target program (tstmt sexps), checking the shape the model assumes
# ------------------------------------------------------------------------------------------------
def _names_of_tuple(t):
    if isinstance(t, ast.Tuple):
        out = []
        for e in t.elts:
            if isinstance(e, ast.Name):
                out.append(e.id)
            elif isinstance(e, ast.Constant) and isinstance(e.value, str):
                out.append(e.value)
            else:
                raise Unsupported('composite state entry')
        return out
    raise ShapeMismatch('state tuple is not a tuple')


def _decls(fn):
    """(declared names, remaining statements) of a generated function body."""
    names, k = [], 0
    while k < len(fn.body) and isinstance(fn.body[k], (ast.Nonlocal, ast.Global)):
        if isinstance(fn.body[k], ast.Global):
            raise Unsupported('global state')
        names += fn.body[k].names
        k += 1
    return names, fn.body[k:]


class FinalTree(object):
    def __init__(self, node, inner=None):
        """inner: the statements between the return-protocol initialisation and the final `return <scope>.ret(...)`
        (`wrapper_of(node)['inner']`) — every lowered `return E` is then read as `do_return = True; retval_ = E`."""
        self.wrapper = inner is not None
        self.block = self.parse_block(_fscope_body(node) if inner is None else inner)

    def check_state_fns(self, defs, getter, setter, names):
        g, s = defs.get(getter), defs.get(setter)
        if g is None or s is None:
            raise ShapeMismatch('state functions not found')
        if not names:
            return
        if not (len(g.body) == 1 and isinstance(g.body[0], ast.Return)):
            raise ShapeMismatch('getter shape')
        if _names_of_tuple(g.body[0].value) != names:
            raise ShapeMismatch('getter tuple %r differs from symbol_names %r' % (_names_of_tuple(g.body[0].value), names))
        decl, rest = _decls(s)
        if sorted(decl) != sorted(names):
            raise ShapeMismatch('setter nonlocal list %r differs from symbol_names %r' % (decl, names))
        if not (len(rest) == 1 and isinstance(rest[0], ast.Assign) and _names_of_tuple(rest[0].targets[0]) == names):
            raise ShapeMismatch('setter assignment differs from symbol_names')

    def body_fn(self, defs, name, names, nargs=0):
        fn = defs.get(name)
        if fn is None:
            raise ShapeMismatch('body function %s not found' % name)
        if len(fn.args.args) != nargs:
            raise ShapeMismatch('body function %s takes %d parameters' % (name, len(fn.args.args)))
        decl, rest = _decls(fn)
        if sorted(decl) != sorted(names):
            raise ShapeMismatch('function %s declares %r nonlocal, state tuple is %r' % (name, sorted(decl), sorted(names)))
        return fn, rest

    def parse_block(self, stmts):
        defs = {}
        out = []
        k = 0
        while k < len(stmts):
            s = stmts[k]
            if isinstance(s, ast.FunctionDef):
                defs[s.name] = s
                k += 1
                continue
            rt = _return_try(s) if self.wrapper else None
            if rt is not None:
                for x in rt:
                    out.append(['assign', x.targets[0].id, tx_expr(x.value)])
                k += 1
                continue
            tail = None if self.wrapper else _is_return_tail(stmts, k)
            if tail is not None:
                out.append(['ret', tx_expr(tail)])
                break
            if isinstance(s, ast.Assign) and len(s.targets) == 1 and isinstance(s.targets[0], ast.Name):
                x = s.targets[0].id
                v = s.value
                if isinstance(v, ast.Call) and _is_ag(v.func, 'Undefined'):
                    if not (len(v.args) == 1 and isinstance(v.args[0], ast.Constant) and v.args[0].value == x):
                        raise ShapeMismatch('Undefined placeholder named differently from its variable')
                    out.append(['undef', x])
                elif (isinstance(v, ast.Call) and _is_ag(v.func, 'ld') and isinstance(v.args[0], ast.Name) and v.args[0].id == x
                      and k + 1 < len(stmts) and isinstance(stmts[k + 1], ast.AugAssign)
                      and isinstance(stmts[k + 1].target, ast.Name) and stmts[k + 1].target.id == x):
                    a = stmts[k + 1]                    # `x = ag__.ld(x); x op= e`  ==  `x = x op e`
                    if type(a.op) not in _BIN:
                        raise Unsupported('augmented operator')
                    out.append(['assign', x, ['bin', _BIN[type(a.op)], ['v', x], tx_expr(a.value)]])
                    k += 1
                else:
                    out.append(['assign', x, tx_expr(v)])
            elif isinstance(s, ast.Pass):
                out.append(['pass'])
            elif isinstance(s, ast.With):
                out.append(['withT', with_tag(s), self.parse_block(s.body)])
            elif isinstance(s, ast.Raise):
                out.append(['raise', raise_tag(s)])
            elif isinstance(s, ast.Try) and not s.orelse:
                out.append(['tryT', self.parse_block(s.body), [[handler_tag(h), self.parse_block(h.body)] for h in s.handlers],
                            self.parse_block(s.finalbody)])
            elif isinstance(s, ast.Expr) and isinstance(s.value, ast.Call) and (
                    _is_ag(s.value.func, 'if_stmt') or _is_ag(s.value.func, 'while_stmt') or _is_ag(s.value.func, 'for_stmt')):
                out.append(self.parse_op(defs, s.value))
            elif isinstance(s, ast.Expr):
                v = s.value
                if isinstance(v, ast.Tuple) and len(v.elts) == 1:
                    v = v.elts[0]
                out.append(['expr', tx_expr(v)])
            else:
                raise Unsupported('generated statement ' + type(s).__name__)
            k += 1
        return out

    def parse_op(self, defs, call):
        op = call.func.attr
        a = call.args

        def nm(x):
            if isinstance(x, ast.Name):
                return x.id
            raise ShapeMismatch('operator argument is not a function name')
        if op == 'if_stmt':
            if len(a) != 7:
                raise ShapeMismatch('if_stmt arity')
            names = _names_of_tuple(a[5])
            nouts = a[6].value
            self.check_state_fns(defs, nm(a[3]), nm(a[4]), names)
            _, body = self.body_fn(defs, nm(a[1]), names)
            _, orelse = self.body_fn(defs, nm(a[2]), names)
            return ['ifF', tx_expr(a[0]), self.parse_block(body), self.parse_block(orelse), names, nouts]
        if op == 'while_stmt':
            if len(a) != 6:
                raise ShapeMismatch('while_stmt arity')
            names = _names_of_tuple(a[4])
            self.check_state_fns(defs, nm(a[2]), nm(a[3]), names)
            test = defs.get(nm(a[0]))
            if test is None or not (len(test.body) == 1 and isinstance(test.body[0], ast.Return)):
                raise ShapeMismatch('loop_test shape')
            _, body = self.body_fn(defs, nm(a[1]), names)
            return ['whileF', tx_expr(test.body[0].value), self.parse_block(body), names]
        if op == 'for_stmt':
            if len(a) != 7:
                raise ShapeMismatch('for_stmt arity')
            names = _names_of_tuple(a[5])
            self.check_state_fns(defs, nm(a[3]), nm(a[4]), names)
            extra = []
            if not (isinstance(a[1], ast.Constant) and a[1].value is None):
                _, rest = self.body_fn(defs, nm(a[1]), names)
                if not (len(rest) == 1 and isinstance(rest[0], ast.Return)):
                    raise ShapeMismatch('extra_test shape')
                extra = [tx_expr(rest[0].value)]
            fn, body = self.body_fn(defs, nm(a[2]), names, nargs=1)
            itr = fn.args.args[0].arg
            if not (body and isinstance(body[0], ast.Assign) and isinstance(body[0].targets[0], ast.Name)
                    and isinstance(body[0].value, ast.Name) and body[0].value.id == itr):
                raise Unsupported('for target expansion')
            return ['forF', body[0].targets[0].id, tx_iter(a[0]), extra, self.parse_block(body[1:]), names]
        raise ShapeMismatch(op)


# ------------------------------------------------------------------------------------------------
# alignment: copy declared / undefined / nouts of the REAL generated code into the annotated program
# ------------------------------------------------------------------------------------------------
_SIMPLE = {'assign': 'assign', 'expr': 'expr', 'pass': 'pass', 'ret': 'ret', 'raise': 'raise'}
_COMPOUND = {'if': 'ifF', 'while': 'whileF', 'for': 'forF'}


def align(ablock, tblock):
    j = 0
    for s in ablock:
        kind = s[0]
        if kind in _SIMPLE:
            if j >= len(tblock) or tblock[j][0] != _SIMPLE[kind]:
                raise ShapeMismatch('generated statement %r where %s was expected' % (tblock[j][0] if j < len(tblock) else None, kind))
            j += 1
            continue
        if kind in ('with', 'try'):
            tk = 'withT' if kind == 'with' else 'tryT'
            if j >= len(tblock) or tblock[j][0] != tk:
                raise ShapeMismatch('generated statement %r where %s was expected' % (tblock[j][0] if j < len(tblock) else None, tk))
            t = tblock[j]
            j += 1
            if kind == 'with':
                if s[2] != t[1]:
                    raise ShapeMismatch('with tag')
                align(s[3], t[2])
            else:
                align(s[2], t[1])
                if [h[0] for h in s[3]] != [h[0] for h in t[2]]:
                    raise ShapeMismatch('handler tags')
                for ha, ht in zip(s[3], t[2]):
                    align(ha[1], ht[1])
                align(s[4], t[3])
            continue
        undef = []
        while j < len(tblock) and tblock[j][0] == 'undef':
            undef.append(tblock[j][1])
            j += 1
        if j >= len(tblock) or tblock[j][0] != _COMPOUND[kind]:
            raise ShapeMismatch('generated statement %r where %s was expected' % (tblock[j][0] if j < len(tblock) else None, _COMPOUND[kind]))
        t = tblock[j]
        j += 1
        inf = s[1]
        inf['undef'] = undef
        if kind == 'if':
            inf['decl'], inf['nouts'] = list(t[4]), t[5]
            align(s[3], t[2])
            align(s[4], t[3])
        elif kind == 'while':
            inf['decl'] = list(t[3])
            align(s[3], t[2])
        else:
            inf['decl'] = list(t[5])
            align(s[5], t[4])
    if j != len(tblock):
        raise ShapeMismatch('extra generated statements')


def info_sexp(i):
    return ['info', list(i['in']), list(i['out']), list(i['def']), list(i['decl']), list(i['undef']), i['nouts']]


def ablock_sexp(b):
    out = []
    for s in b:
        k = s[0]
        if k in ('assign',):
            out.append(['assign', info_sexp(s[1]), s[2], s[3]])
        elif k == 'expr':
            out.append(['expr', info_sexp(s[1]), s[2]])
        elif k == 'pass':
            out.append(['pass', info_sexp(s[1])])
        elif k == 'ret':
            out.append(['ret', info_sexp(s[1])] + s[2:])
        elif k == 'if':
            out.append(['if', info_sexp(s[1]), s[2], ablock_sexp(s[3]), ablock_sexp(s[4])])
        elif k == 'while':
            out.append(['while', info_sexp(s[1]), s[2], ablock_sexp(s[3])])
        elif k == 'for':
            out.append(['for', info_sexp(s[1]), s[2], s[3], s[4], ablock_sexp(s[5])])
        elif k == 'raise':
            out.append(['raise', info_sexp(s[1]), s[2]])
        elif k == 'with':
            out.append(['with', info_sexp(s[1]), s[2], ablock_sexp(s[3])])
        elif k == 'try':
            out.append(['try', info_sexp(s[1]), ablock_sexp(s[2]), [[h[0], ablock_sexp(h[1])] for h in s[3]], ablock_sexp(s[4])])
    return out


def canon_undefs(tblock):
    """The order of the `Undefined` pre-assignments of one statement is the iteration order of a Python set:
    sort each run of consecutive `undef`s (recursively)."""
    out, run = [], []

    def flush():
        out.extend(sorted(run))
        del run[:]
    for s in tblock:
        if s[0] == 'undef':
            run.append(s)
            continue
        flush()
        if s[0] == 'ifF':
            out.append(['ifF', s[1], canon_undefs(s[2]), canon_undefs(s[3]), s[4], s[5]])
        elif s[0] == 'whileF':
            out.append(['whileF', s[1], canon_undefs(s[2]), s[3]])
        elif s[0] == 'forF':
            out.append(['forF', s[1], s[2], s[3], canon_undefs(s[4]), s[5]])
        elif s[0] == 'withT':
            out.append(['withT', s[1], canon_undefs(s[2])])
        elif s[0] == 'tryT':
            out.append(['tryT', canon_undefs(s[1]), [[h[0], canon_undefs(h[1])] for h in s[2]], canon_undefs(s[3])])
        else:
            out.append(s)
    flush()
    return out


def to_str_tree(x):
    """ints -> str, so that a locally built sexp compares equal to one parsed from the driver's answer."""
    if isinstance(x, (list, tuple)):
        return [to_str_tree(e) for e in x]
    if isinstance(x, bool):
        return 'True' if x else 'False'
    return str(x)


# ------------------------------------------------------------------------------------------------
# real annotations of the pre-ControlFlow tree (all functions, also outside the fragment)
# ------------------------------------------------------------------------------------------------
def cf_record(trace):
    for r in trace.passes:
        if r.name == 'ControlFlowTransformer':
            return r
    return None


def rebuild_with_annos(rec):
    """Rebuild the ast of the snapshot and a function node -> annotation dict."""
    import pyast
    table = {}
    for ent in rec.before_annos or []:
        table.setdefault(int(ent[0]), {})[ent[1]] = ent[2]
    ids = {}

    def build(x):
        """to_stmt with id tracking: rebuild statement by statement so ids can be attached."""
        node = pyast.to_stmt(strs(x))
        attach(x, node)
        return node

    def strs(x):
        if isinstance(x, list):
            return [strs(e) for e in x]
        if isinstance(x, bool):
            return 'True' if x else 'False'
        return str(x) if isinstance(x, int) else x

    def attach(x, node):
        # walk sexp and ast in parallel for statements only (that is where the annotations we need live)
        ids[id(node)] = int(x[1])
        k = x[0]
        if k == 'FunctionDef':
            for sx, sn in zip(x[4], node.body):
                attach(sx, sn)
        elif k == 'For':
            for sx, sn in zip(x[4], node.body):
                attach(sx, sn)
            for sx, sn in zip(x[5], node.orelse):
                attach(sx, sn)
        elif k in ('While', 'If'):
            for sx, sn in zip(x[3], node.body):
                attach(sx, sn)
            for sx, sn in zip(x[4], node.orelse):
                attach(sx, sn)
        elif k == 'With':
            for sx, sn in zip(x[3], node.body):
                attach(sx, sn)
        elif k == 'Try':
            for sx, sn in zip(x[2], node.body):
                attach(sx, sn)
            for sx, sn in zip(x[3], node.handlers):
                attach(sx, sn)
            for sx, sn in zip(x[4], node.orelse):
                attach(sx, sn)
            for sx, sn in zip(x[5], node.finalbody):
                attach(sx, sn)
        elif k == 'ExceptHandler':
            for sx, sn in zip(x[4], node.body):
                attach(sx, sn)
    node = build(rec.before)
    return node, (lambda n: table.get(ids.get(id(n), -1), {}))


def for_target_class(node, annos_of):
    """Finding class `for_target_live_across_zero_trip` on the REAL annotations, for any function of the tree:
    some `for` whose (simple) target is live after the loop but not live into it."""
    hits = []
    for n in ast.walk(node):
        if isinstance(n, ast.For):
            an = annos_of(n)
            tg = [t.id for t in ast.walk(n.target) if isinstance(t, ast.Name)]
            for t in tg:
                if t in an.get('LIVE_VARS_OUT', []) and t not in an.get('LIVE_VARS_IN', []):
                    hits.append(t)
    return hits
