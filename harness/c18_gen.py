"""C18 program generator + the tracer prelude (mirror of lean/MaltModel/Py/SemAnfStd.lean).

Programs are straight-line / if / for / with / try functions `f(a, b)` over ints whose only effects go
through the prelude: `tr(k, *args, **kw)` (logged call, returns an int computed from its arguments and the
log length, raises `Err` when k % 100 == 99), `O.m*(…)` (logged method call), `mk(…)` (logged, returns a list),
`cm(k)` (logged; context manager logging enter/exit), `E(k)` (logged; builds an `Err`), and stores /
deletes on the opaque object `O` (logged).  Every operand position gets a tracer call with some probability.
"""
import ast
import inspect

PRELUDE = '''
LOG = []
def weight(v):
    if isinstance(v, bool): return 1 if v else 0
    if isinstance(v, int): return v
    if isinstance(v, (tuple, list)): return sum(weight(x) for x in v)
    if isinstance(v, slice): return weight(v.start) + weight(v.stop) + weight(v.step)
    return 0
class Err(Exception):
    pass
def tr(t, *rest, **kw):
    n = len(LOG)
    LOG.append(('call', 'tr', (t,) + rest, dict(kw)))
    if t % 100 == 99:
        raise Err(t)
    return (t * 7 + 3 * n + sum(weight(x) for x in rest) + sum(weight(x) for x in kw.values())) % 13
def mk(*p):
    LOG.append(('call', 'mk', p, {}))
    return list(p)
def E(*p):
    LOG.append(('call', 'E', p, {}))
    return Err(p[0] if p else None)
class CM:
    def __init__(self, k): self.k = k
    def __enter__(self):
        LOG.append(('enter', '', (self,), {}))
        return self.k + 1
    def __exit__(self, *a):
        LOG.append(('exit', '', (self,), {}))
        return False
def cm(*p):
    LOG.append(('call', 'cm', p, {}))
    return CM(p[0])
class _O:
    def __getattr__(self, a):
        if a.startswith('m'):
            def meth(*p, **kw):
                n = len(LOG)
                LOG.append(('call', 'O.' + a, p, dict(kw)))
                return (5 + 3 * n + sum(weight(x) for x in p) + sum(weight(x) for x in kw.values())) % 11
            meth.__name__ = 'O.' + a
            return meth
        if a.startswith('o'):
            return self
        return len(a)
    def __setattr__(self, a, v): LOG.append(('setattr', a, (self, v), {}))
    def __delattr__(self, a): LOG.append(('delattr', a, (self,), {}))
    def __getitem__(self, y): return (2 * weight(y) + 1) % 17
    def __setitem__(self, y, v): LOG.append(('setitem', '', (self, y, v), {}))
    def __delitem__(self, y): LOG.append(('delitem', '', (self, y), {}))
    def __matmul__(self, y):
        LOG.append(('call', 'matmul', (y,), {}))
        return weight(y) + 1
O = _O()
# --- mutable state (stream 'mutable' only): what a repeated load reads changes when `bump` is called in between
class _Box:
    def __init__(self):
        self.n = 0
B = _Box()
L = [10, 20, 30]
G = 0
def bump(k):
    global G
    LOG.append(('call', 'bump', (k,), {}))
    B.n += 1
    L.insert(0, L[0] + 7)
    L[1] = L[1] + 1
    G += 3
    return 2 * k + 1
# --- objects whose formatting is observable (streams 'fstring' / 'grammar' only)
class _Fmt:
    def __init__(self, k): self.k = k
    def __format__(self, spec):
        LOG.append(('call', 'format', (self.k, spec, B.n, len(L)), {}))
        return '<%d:%s:%d>' % (self.k, spec, B.n)
    def __repr__(self):
        LOG.append(('call', 'repr', (self.k, B.n), {}))
        return 'F%d@%d' % (self.k, B.n)
    def __str__(self):
        LOG.append(('call', 'str', (self.k, B.n), {}))
        return 'f%d@%d' % (self.k, B.n)
F = _Fmt(0)
def Fm(k):
    LOG.append(('call', 'Fm', (k,), {}))
    return _Fmt(k)
async def aw(*p):
    LOG.append(('call', 'aw', p, {}))
    return 3 + sum(weight(x) for x in p)
class ACM:
    def __init__(self, k): self.k = k
    async def __aenter__(self):
        LOG.append(('enter', 'a', (self.k,), {}))
        return self.k + 1
    async def __aexit__(self, *a):
        LOG.append(('exit', 'a', (self.k,), {}))
        return False
def acm(*p):
    LOG.append(('call', 'acm', p, {}))
    return ACM(p[0])
class AIT:
    def __init__(self, *p): self.p = list(p)
    def __aiter__(self): return self
    async def __anext__(self):
        LOG.append(('call', 'anext', (len(self.p),), {}))
        if not self.p:
            raise StopAsyncIteration
        return self.p.pop(0)
def ait(*p):
    LOG.append(('call', 'ait', p, {}))
    return AIT(*p)
'''



def make_namespace():
    ns = {}
    exec(compile(PRELUDE, '<c18-prelude>', 'exec'), ns)
    return ns


def canon_val(v, ns):
    """Python value -> nested lists (the format of Drv/C18.lean valSexp, sets/dicts normalised)."""
    if v is None:
        return 'None'
    if isinstance(v, bool):
        return ['bool', 'True' if v else 'False']
    if isinstance(v, int):
        return ['int', str(v)]
    if isinstance(v, str):
        return ['str', repr(v)]
    if isinstance(v, tuple):
        return ['tuple'] + [canon_val(x, ns) for x in v]
    if isinstance(v, list):
        return ['list'] + [canon_val(x, ns) for x in v]
    if isinstance(v, (set, frozenset)):
        return ['set'] + sorted({str(int(x)) if isinstance(x, int) else repr(x) for x in v})
    if isinstance(v, dict):
        return ['dict', [[_key(k, ns), canon_val(x, ns)] for k, x in v.items()]]
    if isinstance(v, slice):
        return ['slice', canon_val(v.start, ns), canon_val(v.stop, ns), canon_val(v.step, ns)]
    if isinstance(v, ns['CM']):
        return ['tuple', ['str', "'cm'"], canon_val(v.k, ns)]
    if isinstance(v, ns['_O']):
        return ['obj', 'O']
    if isinstance(v, ns['_Box']):
        return ['obj', 'B']
    if isinstance(v, ns['_Fmt']):
        return ['obj', 'F%d' % v.k]
    if isinstance(v, float):
        return ['float', repr(v)]
    if isinstance(v, BaseException):
        if isinstance(v, ns['Err']):
            return ['exc', 'Err', canon_val(v.args[0] if v.args else None, ns)]
        return ['exc', type(v).__name__, 'None']
    if isinstance(v, type):
        return ['fn', v.__name__]
    if callable(v):
        return ['fn', getattr(v, '__name__', '?')]
    return ['opaque', type(v).__name__]


def _key(k, ns=None):
    if isinstance(k, int):
        return str(int(k))
    if isinstance(k, str) or ns is None:
        return repr(k)
    return repr(canon_val(k, ns))      # same text as canon_model_val gives for a non-int, non-str key


def canon_model_val(x):
    """Model value (parsed S-expression) -> the same normal form as canon_val."""
    if isinstance(x, str):
        return x
    h = x[0]
    if h == 'set':
        out = set()
        for e in x[1:]:
            e = canon_model_val(e)
            out.add(e[1] if e[0] == 'int' else ('1' if e[1] == 'True' else '0') if e[0] == 'bool' else repr(e))
        return ['set'] + sorted(out)
    if h == 'dict':
        d = {}
        for k, v in zip(x[1], x[2]):
            k = canon_model_val(k)
            kk = k[1] if k[0] in ('int', 'str') else ('1' if k[1] == 'True' else '0') if k[0] == 'bool' else repr(k)
            d[kk] = canon_model_val(v)
        return ['dict', [[k, v] for k, v in d.items()]]
    if h in ('tuple', 'list', 'slice'):
        return [h] + [canon_model_val(e) for e in x[1:]]
    if h == 'exc':
        return ['exc', x[1], canon_model_val(x[2]) if x[1] == 'Err' else 'None']
    return x


def canon_event(ev, ns):
    what, callee, args, kw = ev
    return [what, callee, [canon_val(a, ns) for a in args], [[k, canon_val(v, ns)] for k, v in kw.items()]]


def canon_model_event(x):
    return [x[0], x[1], [canon_model_val(a) for a in x[2]], [[k, canon_model_val(v)] for k, v in x[3]]]


def canon_model_obs(x):
    o = x[0]
    if isinstance(o, list):
        o = [o[0], canon_model_val(o[1])]
    return [o, [canon_model_event(e) for e in x[1]]]


def run_python(fn_node, args):
    """Compile the FunctionDef and call it on args in a fresh prelude namespace -> observation (canonical)."""
    # CPython's AST validator does not check the context of a `:=` target: a Load target compiles into bytecode that
    # can crash the interpreter (the transformer produces such nodes: class walrus_target_context_clobbered_...)
    if any(isinstance(n, ast.NamedExpr) and not isinstance(getattr(n.target, 'ctx', None), ast.Store) for n in ast.walk(fn_node)):
        return [['compile-error', 'NamedExprTargetNotStore'], []]
    ns = make_namespace()
    mod = ast.Module(body=[fn_node], type_ignores=[])
    ast.fix_missing_locations(mod)
    try:
        code = compile(mod, '<c18-case>', 'exec')
    except Exception as e:  # noqa
        return [['compile-error', type(e).__name__], []]
    exec(code, ns)
    f = ns[fn_node.name]
    try:
        r = f(*args)
        if inspect.iscoroutine(r):          # `async def`: the prelude's awaitables never suspend
            try:
                while True:
                    r.send(None)
            except StopIteration as e:
                r = e.value
        elif inspect.isgenerator(r):        # generator: yielded values, what was sent back, and the return value
            ys = []
            try:
                y = next(r)
                while len(ys) < 50:
                    ys.append(y)
                    y = r.send(len(ys) * 2)
                r.close()
                r = ('yielded', ys, 'unfinished')
            except StopIteration as e:
                r = ('yielded', ys, e.value)
        out = ['return', canon_val(r, ns)]
    except Exception as e:  # noqa
        out = ['raise', canon_val(e, ns)]
    return [out, [canon_event(ev, ns) for ev in ns['LOG']]]


def exc_type_view(obs):
    """What the property compares: result value, or exception *type*; and the ordered log."""
    o = obs[0]
    if o[0] == 'raise':
        o = ['raise', o[1][1] if isinstance(o[1], list) and len(o[1]) > 1 else o[1]]
    return [o, obs[1]]


# =====================================================================================================
class Gen:
    """One random program.  `hazard_free_bias`: probability of keeping later operands shallow."""

    def __init__(self, rng, size=8, depth=3, p_call=0.55, lazy=0.0, raising=0.06, walrus=0.06, shallow_bias=0.5,
                 temp_names=False, frag=False, temp_hi=False, fstr=0.0):
        self.rng, self.size, self.depth = rng, size, depth
        self.p_call, self.lazy, self.raising, self.walrus = p_call, lazy, raising, walrus
        self.shallow_bias = shallow_bias
        self.tag = 0
        self.feats = set()
        self.tmpv = 0
        self.temp_names = temp_names
        self.temp_hi = temp_hi
        self.fstr = 0.0 if frag else fstr
        self.frag = frag      # only constructs of the fragment of C18_sem_partial

    # -------------------------------------------------------------- names / tags
    def newtag(self):
        self.tag += 1
        t = self.tag
        if t % 100 == 99:
            self.tag += 1
            t = self.tag
        if self.rng.random() < self.raising:
            self.feats.add('raising-call')
            return t * 100 + 99
        return t

    def fresh(self, ints):
        if self.temp_names and self.rng.random() < 0.5:
            self.feats.add('temp-name')
            if self.temp_hi and self.rng.random() < 0.4:
                return 'tmp_%d' % self.rng.choice([1000, 1004, 1007, 1010, 1100, 1999])
            return 'tmp_%d' % (1001 + self.rng.randrange(3))
        self.tmpv += 1
        return 'v%d' % self.tmpv

    # -------------------------------------------------------------- expressions
    def atom(self, ints):
        r = self.rng
        if ints and r.random() < 0.6:
            return r.choice(sorted(ints))
        return str(r.randint(0, 9))

    def operand(self, d, ints, seqs, first=True):
        """An int-valued operand; later operands are kept shallow with probability shallow_bias."""
        if not first and self.rng.random() < self.shallow_bias:
            return self.int_expr(min(d, 1), ints, seqs)
        return self.int_expr(d, ints, seqs)

    def call_args(self, d, ints, seqs):
        r = self.rng
        parts = []
        n = r.choice([0, 1, 1, 2, 2, 3])
        for k in range(n):
            if seqs and not self.frag and r.random() < 0.12:
                self.feats.add('starred')
                parts.append('*' + self.seq_expr(d - 1, ints, seqs))
            elif not self.frag and r.random() < 0.08:
                parts.append(self.any_expr(d - 1, ints, seqs))
            else:
                parts.append(self.operand(d - 1, ints, seqs, first=(k == 0)))
        if not self.frag and r.random() < 0.2:
            self.feats.add('keyword')
            parts.append('k=' + self.operand(d - 1, ints, seqs, first=not parts))
            if r.random() < 0.3:
                parts.append('j=' + self.operand(d - 1, ints, seqs, first=False))
        if not self.frag and r.random() < 0.06:
            self.feats.add('dstar')
            parts.append("**{'z': %s}" % self.operand(d - 1, ints, seqs, first=not parts))
        return parts

    def call(self, d, ints, seqs):
        r = self.rng
        self.feats.add('call')
        if r.random() < 0.2:
            self.feats.add('method-call')
            head = r.choice(['O', 'O.o1']) + '.m%d' % r.randint(1, 3)
            return '%s(%s)' % (head, ', '.join(self.call_args(d, ints, seqs)))
        return 'tr(%s)' % ', '.join([str(self.newtag())] + self.call_args(d, ints, seqs))

    _nw = False

    def int_expr(self, d, ints, seqs):
        r = self.rng
        if d <= 0:
            return self.atom(ints)
        x = r.random()
        if x < self.p_call:
            return self.call(d, ints, seqs)
        x = r.random()
        if x < 0.22:
            self.feats.add('binop')
            return '(%s %s %s)' % (self.operand(d - 1, ints, seqs), r.choice(['+', '-', '*']), self.operand(d - 1, ints, seqs, False))
        if x < 0.30:
            self.feats.add('unary')
            return '(%s%s)' % (r.choice(['-', 'not ', '+', '~']), self.int_expr(d - 1, ints, seqs))
        if x < 0.40:
            self.feats.add('compare')
            return '(%s %s %s)' % (self.operand(d - 1, ints, seqs), r.choice(['<', '<=', '>', '>=', '==', '!=']),
                                   self.operand(d - 1, ints, seqs, False))
        if x < 0.50:
            self.feats.add('attribute')
            base = r.choice(['O', 'O', 'O.o1', 'O.o2.o3'])
            return '%s.%s' % (base, r.choice(['x', 'yy', 'zzz']))
        if x < 0.64:
            self.feats.add('subscript')
            base = r.choice(['O', 'O', 'O.o1'])
            old_nw, self._nw = self._nw, True
            try:
                return self._subscript(base, r.random(), d, ints, seqs)
            finally:
                self._nw = old_nw
        if x < 0.64 + self.walrus and ints and not (self.frag and self._nw):
            self.feats.add('namedexpr')
            return '(%s := %s)' % (r.choice(sorted(ints)), self.int_expr(d - 1, ints, seqs))
        if x < 0.64 + self.walrus + self.lazy:
            return self.lazy_expr(d, ints, seqs)
        if x < 0.64 + self.walrus + self.lazy + self.fstr:
            return self.fstring_use(d, ints, seqs)
        if x < 0.80:
            return self.atom(ints)
        return self.call(d, ints, seqs)

    def fstring(self, d, ints, seqs):
        """An f-string with 1-3 replacement fields (names / calls / arbitrary operands), conversions, format specs,
        nested replacement fields inside the format spec."""
        r = self.rng
        parts = []
        n = r.choice([1, 2, 2, 3])
        self.feats.add('fstring-%d-fields' % n)
        for k in range(n):
            if r.random() < 0.6:
                parts.append(r.choice(['x', '-', '|', ' ', '{{', '}}', 'a=']))
            v = self.operand(d - 1, ints, seqs, first=(k == 0)) if r.random() < 0.8 else self.seq_expr(d - 1, ints, seqs)
            conv = r.choice(['', '', '', '!r', '!s', '!a'])
            if conv:
                self.feats.add('fstring-conversion')
            y = r.random()
            if y < 0.55:
                spec = ''
            elif y < 0.75:
                self.feats.add('fstring-spec')
                spec = ':' + r.choice(['>7', '^9', '<3', '12'])
            else:
                self.feats.add('fstring-nested-spec')
                w = self.call(min(d - 1, 1), ints, seqs) if r.random() < 0.6 else str(r.randint(0, 9))
                spec = ':%s{%s}' % (r.choice(['>', '<', '^']), w)
            if spec and not conv and v.lstrip('(').startswith(('(', '[')) or (spec and not conv and r.random() < 0.5):
                conv = '!r'     # a format spec with alignment is valid for any string
            parts.append('{%s%s%s}' % (v, conv, spec))
        if r.random() < 0.3:
            parts.append(r.choice(['.', '!', '}}']))
        return 'f"%s"' % ''.join(parts)

    def fstring_use(self, d, ints, seqs):
        r = self.rng
        f = self.fstring(max(d, 1), ints, seqs)
        x = r.random()
        if x < 0.6:
            return 'tr(%d, %s)' % (self.newtag(), f)
        if x < 0.8:
            return 'O[%s]' % f
        if x < 0.9:
            return 'O.m1(%s, k=%s)' % (self.atom(ints), f)
        return '(%s == %s)' % (f, self.atom(ints))

    def _subscript(self, base, y, d, ints, seqs):
        r = self.rng
        if y < 0.55 or self.frag:
            return '%s[%s]' % (base, self.operand(d - 1, ints, seqs, False))
        if y < 0.8:
            self.feats.add('slice')
            lo = self.operand(d - 1, ints, seqs) if r.random() < 0.8 else ''
            hi = self.operand(d - 1, ints, seqs, False) if r.random() < 0.8 else ''
            st = (':' + self.operand(d - 1, ints, seqs, False)) if r.random() < 0.3 else ''
            return '%s[%s:%s%s]' % (base, lo, hi, st)
        self.feats.add('tuple-index')
        return '%s[%s, %s]' % (base, self.operand(d - 1, ints, seqs), self.operand(d - 1, ints, seqs, False))

    def lazy_expr(self, d, ints, seqs):
        """Lazy constructs: trivial operands (accepted) or non-trivial ones (must be rejected under the default)."""
        r = self.rng
        triv = r.random() < 0.5
        sub = (lambda: self.atom(ints)) if triv else (lambda: self.int_expr(max(1, d - 1), ints, seqs))
        k = r.choice(['boolop', 'ifexp', 'cmp', 'lambda', 'comp'])
        self.feats.add('lazy-' + k + ('-trivial' if triv else ''))
        if k == 'boolop':
            return '(%s %s %s)' % (sub(), r.choice(['and', 'or']), sub())
        if k == 'ifexp':
            return '(%s if %s else %s)' % (sub(), sub(), sub())
        if k == 'cmp':
            return '(%s < %s <= %s)' % (sub(), sub(), sub())
        if k == 'lambda':
            return 'tr(%d, (lambda: %s))' % (self.newtag(), sub())
        return self.comprehension(d, ints, seqs, sub)

    def comprehension(self, d, ints, seqs, sub=None):
        """Every comprehension kind, with (nested) calls in element / key / value / condition / iterable position."""
        r = self.rng
        kind = r.choice(['list', 'set', 'dict', 'gen'])
        pos = r.choice(['elt', 'key', 'value', 'cond', 'iter', 'flat'])
        self.feats.add('comp-%s-%s' % (kind, pos))
        deep = lambda v: 'tr(%d, tr(%d, %s))' % (self.newtag(), self.newtag(), v)      # noqa: E731
        it = '(%s, %s)' % (self.atom(ints), self.atom(ints))
        elt, key, val, cond = 'q', 'q', 'q', ''
        if pos in ('elt', 'value'):
            elt = val = deep('q')
        elif pos == 'key':
            key = elt = deep('q')
        elif pos == 'cond':
            cond = ' if %s' % deep('q')
        elif pos == 'iter':
            it = 'mk(%s, %s)' % (deep(self.atom(ints)), self.atom(ints))
        if kind == 'dict':
            body = '{%s: %s for q in %s%s}' % (key, val, it, cond)
        elif kind == 'list':
            body = '[%s for q in %s%s]' % (elt, it, cond)
        elif kind == 'set':
            body = '{%s for q in %s%s}' % (elt, it, cond)
        else:
            body = '*(%s for q in %s%s)' % (elt, it, cond)
        return 'tr(%d, %s)' % (self.newtag(), body)

    def seq_expr(self, d, ints, seqs):
        old_nw, self._nw = self._nw, True
        try:
            return self._seq_expr(d, ints, seqs)
        finally:
            self._nw = old_nw

    def _seq_expr(self, d, ints, seqs):
        r = self.rng
        x = r.random()
        if seqs and (d <= 0 or x < 0.35):
            return r.choice(sorted(seqs))
        n = r.choice([1, 2, 2, 3])
        elts = [self.operand(d - 1, ints, seqs, first=(k == 0)) for k in range(n)]
        if seqs and not self.frag and r.random() < 0.15:
            self.feats.add('starred')
            elts.insert(r.randrange(len(elts) + 1), '*' + r.choice(sorted(seqs)))
        if x < 0.55:
            self.feats.add('tuple')
            return '(%s,)' % ', '.join(elts)
        if x < 0.8:
            self.feats.add('list')
            return '[%s]' % ', '.join(elts)
        self.feats.add('mk')
        return 'mk(%s)' % ', '.join(elts)

    def any_expr(self, d, ints, seqs):
        r = self.rng
        x = r.random()
        if x < 0.35:
            return self.seq_expr(d, ints, seqs)
        if x < 0.6:
            self.feats.add('dict')
            n = r.choice([1, 1, 2, 3])
            items = []
            for k in range(n):
                key = self.operand(d - 1, ints, seqs, first=(k == 0)) if r.random() < 0.5 else repr('k%d' % k)
                items.append('%s: %s' % (key, self.operand(d - 1, ints, seqs, False)))
            return '{%s}' % ', '.join(items)
        if x < 0.75:
            self.feats.add('set')
            return '{%s}' % ', '.join(self.operand(d - 1, ints, seqs, first=(k == 0)) for k in range(r.choice([1, 2, 3])))
        return self.int_expr(d, ints, seqs)

    # -------------------------------------------------------------- statements
    def block(self, budget, ints, seqs, depth, in_loop=False):
        """-> (lines, ints', seqs') ; ints'/seqs' = definitely bound afterwards."""
        r = self.rng
        lines = []
        ints, seqs = set(ints), set(seqs)
        n = max(1, min(budget, r.randint(1, 4)))
        for _ in range(n):
            ls, ints, seqs, stop = self.stmt(max(1, budget // n), ints, seqs, depth, in_loop)
            lines += ls
            if stop:
                break
        return lines, ints, seqs

    def stmt(self, budget, ints, seqs, depth, in_loop):
        if self.frag:
            return self.frag_stmt(budget, ints, seqs, depth, in_loop)
        return self.any_stmt(budget, ints, seqs, depth, in_loop)

    def frag_stmt(self, budget, ints, seqs, depth, in_loop):
        r = self.rng
        d = self.depth
        ind = lambda ls: ['    ' + l for l in ls]     # noqa: E731
        x = r.random()
        if depth > 0 and budget > 1 and x < 0.38:
            y = r.random()
            if y < 0.25:
                self.feats.add('try')
                b1, _, _ = self.block(budget - 1, ints, seqs, depth - 1, in_loop)
                out = ['try:'] + ind(b1)
                shape = r.random()
                if shape < 0.75:
                    b2, _, _ = self.block(max(1, budget // 2), ints, seqs, depth - 1, in_loop)
                    out += ['except %s:' % r.choice(['Err', 'Err', 'Exception', ''])] + ind(b2)
                    out[-len(b2) - 1] = out[-len(b2) - 1].replace('except :', 'except:')
                    if r.random() < 0.25:
                        b3, _, _ = self.block(1, ints, seqs, 0, in_loop)
                        out += ['else:'] + ind(b3)
                if shape >= 0.75 or r.random() < 0.3:
                    b4, _, _ = self.block(1, ints, seqs, 0, False)
                    b4 = [(l[:len(l) - len(l.lstrip())] + 'pass') if l.strip().startswith(('return', 'break', 'continue')) else l
                          for l in b4] or ['pass']
                    out += ['finally:'] + ind(b4)
                return out, ints, seqs, False
            if y < 0.62:
                self.feats.add('if')
                b1, i1, s1 = self.block(budget - 1, ints, seqs, depth - 1, in_loop)
                out = ['if %s:' % self.int_expr(d, ints, seqs)] + ind(b1)
                if r.random() < 0.6:
                    b2, i2, s2 = self.block(budget - 1, ints, seqs, depth - 1, in_loop)
                    return out + ['else:'] + ind(b2), i1 & i2, s1 & s2, False
                return out, ints, seqs, False
            self.feats.add('for')
            v = self.fresh(ints)
            it = self.seq_expr(d, ints, seqs)
            b1, _, _ = self.block(budget - 1, ints | {v}, seqs, depth - 1, True)
            out = ['for %s in %s:' % (v, it)] + ind(b1)
            if r.random() < 0.2:
                b2, _, _ = self.block(1, ints, seqs, 0, in_loop)
                out += ['else:'] + ind(b2)
            return out, ints, seqs, False
        if x < 0.5:
            self.feats.add('assign')
            v = self.fresh(ints)
            return ['%s = %s' % (v, self.int_expr(d, ints, seqs))], ints | {v}, seqs - {v}, False
        if x < 0.60:
            y = r.random()
            e = self.int_expr(d, ints, seqs)
            if y < 0.25:
                self.feats.add('store')
                return ['%s = %s' % (r.choice(['O.p', 'O[%s]' % self.atom(ints), 'O.o1.qq']), e)], ints, seqs, False
            if y < 0.4:
                self.feats.add('assign-unpack')
                v1, v2 = self.fresh(ints), self.fresh(ints)
                if v1 == v2:
                    v2 += 'b'
                return ['%s, %s = %s, %s' % (v1, v2, e, self.operand(d - 1, ints, seqs, False))], ints | {v1, v2}, seqs, False
            if y < 0.6 and ints:
                self.feats.add('augassign')
                return ['%s %s= %s' % (r.choice(sorted(ints)), r.choice(['+', '-', '*']), e)], ints, seqs, False
            if y < 0.7:
                self.feats.add('raise')
                return ['raise E(%s)' % e], ints, seqs, True
            if y < 0.8:
                self.feats.add('delete')
                return ['del O[%s]' % self.atom(ints)], ints, seqs, False
            if y < 0.9 and ints:
                self.feats.add('assert-trivial')
                return ['assert %s, %s' % (r.choice(sorted(ints)), self.atom(ints))], ints, seqs, False
            self.feats.add('nested-def')
            return ['def h%d(u):' % r.randint(1, 3), '    return tr(%d, u)' % self.newtag()], ints, seqs, False
        if x < 0.68:
            self.feats.add('assign-seq')
            v = 's%d' % r.randint(1, 3)
            return ['%s = %s' % (v, self.seq_expr(d, ints, seqs))], ints - {v}, seqs | {v}, False
        if x < 0.85:
            self.feats.add('expr-stmt')
            return [self.call(d, ints, seqs)], ints, seqs, False
        if x < 0.93:
            self.feats.add('return')
            return ['return %s' % self.int_expr(d, ints, seqs)], ints, seqs, True
        if in_loop:
            return [r.choice(['break', 'continue'])], ints, seqs, True
        return ['pass'], ints, seqs, False

    def any_stmt(self, budget, ints, seqs, depth, in_loop):
        r = self.rng
        d = self.depth
        x = r.random()
        ind = lambda ls: ['    ' + l for l in ls]     # noqa: E731
        if depth > 0 and budget > 1 and x < 0.32:
            y = r.random()
            if y < 0.3:
                self.feats.add('if')
                b1, i1, s1 = self.block(budget - 1, ints, seqs, depth - 1, in_loop)
                out = ['if %s:' % self.int_expr(d, ints, seqs)] + ind(b1)
                if r.random() < 0.6:
                    b2, i2, s2 = self.block(budget - 1, ints, seqs, depth - 1, in_loop)
                    out += ['else:'] + ind(b2)
                    return out, i1 & i2, s1 & s2, False
                return out, ints, seqs, False
            if y < 0.55:
                self.feats.add('for')
                v = self.fresh(ints)
                it = self.seq_expr(d, ints, seqs)
                b1, _, _ = self.block(budget - 1, ints | {v}, seqs, depth - 1, True)
                out = ['for %s in %s:' % (v, it)] + ind(b1)
                if r.random() < 0.2:
                    self.feats.add('for-else')
                    b2, _, _ = self.block(1, ints, seqs, 0, in_loop)
                    out += ['else:'] + ind(b2)
                return out, ints, seqs, False
            if y < 0.78:
                self.feats.add('with')
                items, newints = [], set()
                for k in range(1 if r.random() < 0.8 else 2):
                    ce = 'cm(%s)' % self.int_expr(d - 1, ints, seqs)
                    z = r.random()
                    if z < 0.5:
                        v = self.fresh(ints)
                        newints.add(v)
                        items.append('%s as %s' % (ce, v))
                    elif z < 0.6:
                        self.feats.add('with-target-attr')
                        items.append('%s as %s' % (ce, r.choice(['O.w', 'O[%s]' % self.int_expr(1, ints, seqs)])))
                    else:
                        items.append(ce)
                if len(items) > 1:
                    self.feats.add('with-multi')
                b1, i1, s1 = self.block(budget - 1, ints | newints, seqs, depth - 1, in_loop)
                return ['with %s:' % ', '.join(items)] + ind(b1), i1, s1 & seqs, False
            self.feats.add('try')
            b1, _, _ = self.block(budget - 1, ints, seqs, depth - 1, in_loop)
            out = ['try:'] + ind(b1)
            shape = r.random()
            if shape < 0.75:
                b2, _, _ = self.block(max(1, budget // 2), ints, seqs, depth - 1, in_loop)
                out += ['except %s:' % r.choice(['Err', 'Err', 'Exception'])] + ind(b2)
                if r.random() < 0.25:
                    self.feats.add('try-else')
                    b3, _, _ = self.block(1, ints, seqs, 0, in_loop)
                    out += ['else:'] + ind(b3)
            if shape >= 0.75 or r.random() < 0.3:
                self.feats.add('finally')
                b4, _, _ = self.block(1, ints, seqs, 0, False)
                b4 = [(l[:len(l) - len(l.lstrip())] + 'pass') if l.strip().startswith(('return', 'break', 'continue')) else l
                      for l in b4] or ['pass']
                out += ['finally:'] + ind(b4)
            return out, ints, seqs, False
        x = r.random()
        if x < 0.30:
            self.feats.add('assign')
            v = self.fresh(ints)
            return ['%s = %s' % (v, self.int_expr(d, ints, seqs))], ints | {v}, seqs - {v}, False
        if x < 0.36:
            self.feats.add('assign-seq')
            v = 's%d' % r.randint(1, 3)
            return ['%s = %s' % (v, self.seq_expr(d, ints, seqs))], ints - {v}, seqs | {v}, False
        if x < 0.42:
            self.feats.add('assign-unpack')
            v1, v2 = self.fresh(ints), self.fresh(ints)
            if v1 == v2:
                v2 = v2 + 'b'
            rhs = '%s, %s' % (self.int_expr(d - 1, ints, seqs), self.operand(d - 1, ints, seqs, False))
            if r.random() < 0.35:
                self.feats.add('assign-unpack-store')
                t2 = r.choice(['O.o1.p', 'O.o1.o2.qq', 'O[%s]' % self.atom(ints), 'O.o1[%s]' % self.int_expr(1, ints, seqs)])
                lhs = r.choice(['%s, %s', '[%s, %s]', '(%s, %s)']) % ((v1, t2) if r.random() < 0.5 else (t2, v1))
                return ['%s = %s' % (lhs, rhs)], ints | {v1}, seqs, False
            return ['%s, %s = %s' % (v1, v2, rhs)], ints | {v1, v2}, seqs, False
        if x < 0.54:
            self.feats.add('store')
            y = r.random()
            if y < 0.35:
                tgt = '%s.%s' % (r.choice(['O', 'O.o1', 'O.o1.o2']), r.choice(['p', 'qq']))
            elif y < 0.85:
                tgt = '%s[%s]' % (r.choice(['O', 'O', 'O.o1']), self.int_expr(d - 1, ints, seqs))
            else:
                tgt = 'O[%s:%s]' % (self.int_expr(d - 1, ints, seqs), self.operand(d - 1, ints, seqs, False))
            return ['%s = %s' % (tgt, self.int_expr(d, ints, seqs))], ints, seqs, False
        if x < 0.62:
            self.feats.add('augassign')
            y = r.random()
            if y < 0.5 and ints:
                tgt = r.choice(sorted(ints))
            elif y < 0.8:
                tgt = 'O[%s]' % self.int_expr(d - 1, ints, seqs)
            else:
                tgt = 'O.o1.g'
            return ['%s %s= %s' % (tgt, r.choice(['+', '-', '*']), self.int_expr(d, ints, seqs))], ints, seqs, False
        if x < 0.76:
            self.feats.add('expr-stmt')
            return [self.call(d, ints, seqs)], ints, seqs, False
        if x < 0.82:
            self.feats.add('return')
            e = self.int_expr(d, ints, seqs) if r.random() < 0.75 else self.any_expr(d, ints, seqs)
            return ['return %s' % e], ints, seqs, True
        if x < 0.86:
            self.feats.add('raise')
            if r.random() < 0.2:
                self.feats.add('raise-from')
                return ['raise E(%s) from E(%s)' % (self.int_expr(d - 1, ints, seqs), self.operand(d - 1, ints, seqs, False))], ints, seqs, True
            return ['raise E(%s)' % self.int_expr(d - 1, ints, seqs)], ints, seqs, True
        if x < 0.90:
            self.feats.add('delete')
            if r.random() < 0.85:
                return ['del O[%s]' % self.int_expr(d - 1, ints, seqs)], ints, seqs, False
            self.feats.add('delete-multi')
            return ['del O[%s], O.o1[%s]' % (self.int_expr(d - 1, ints, seqs), self.int_expr(d - 1, ints, seqs))], ints, seqs, False
        if x < 0.93 and in_loop:
            self.feats.add('break/continue')
            return [r.choice(['break', 'continue'])], ints, seqs, True
        if x < 0.95 and ints:
            self.feats.add('assert-trivial')
            return ['assert %s, %s' % (r.choice(['True', '1', 'not 0']) if False else '1', self.atom(ints))], ints, seqs, False
        if x < 0.96 and self.lazy:
            self.feats.add('lazy-while/assert')
            if r.random() < 0.5:
                return ['assert %s' % self.call(1, ints, seqs)], ints, seqs, False
            return ['while %s:' % self.call(1, ints, seqs), '    break'], ints, seqs, False
        self.feats.add('assign')
        v = self.fresh(ints)
        return ['%s = %s' % (v, self.int_expr(d, ints, seqs))], ints | {v}, seqs - {v}, False

    def program(self):
        body, ints, _ = self.block(self.size, {'a', 'b'}, {'s0'}, 2)
        lines = ['def f(a, b):', '    s0 = (1, 2, 3)'] + ['    ' + l for l in body]
        return '\n'.join(lines) + '\n'


def mutable_program(rng):
    """Statements in which the same call-free expression (attribute load, item load, operator over a variable) occurs
    twice around a call that mutates what it reads, in tuples / call arguments / binary operators / subscripts.
    All operands are flat, so the transformer's hoisting keeps their order; naming the two occurrences by ONE
    temporary, or reading the second one early, changes the result."""
    reads = ['B.n', 'L[0]', 'L[1]', '(G + 1)', '(-G)', '(G < 4)', '(B.n * 2)', '(L[0] - a)']
    lines, k, t = [], 0, 0
    feats = set()
    for _ in range(rng.randint(2, 5)):
        R = rng.choice(reads)
        k += 1
        t += 1
        call = 'bump(%d)' % k
        shape = rng.choice(['tuple', 'args', 'binop', 'subscript', 'compare', 'list', 'nested-tuple', 'lazy'])
        feats.add('mutable-' + shape)
        if shape == 'tuple':
            lines.append('x%d = (%s, %s, %s)' % (t, R, call, R))
        elif shape == 'args':
            lines.append('x%d = tr(%d, %s, %s, %s)' % (t, 700 + t, R, call, R))
        elif shape == 'binop':
            lines.append('x%d = %s + %s + %s' % (t, R, call, R))
        elif shape == 'subscript':
            lines.append('x%d = O[%s, %s, %s]' % (t, R, call, R))
        elif shape == 'compare':
            lines.append('x%d = ((%s * %s) < %s) + b' % (t, R, call, R))
        elif shape == 'list':
            lines.append('x%d = [%s, %s, %s, %s]' % (t, R, call, R, rng.choice(reads)))
        elif shape == 'nested-tuple':
            lines.append('x%d = tr(%d, (%s, %s, %s))' % (t, 700 + t, R, call, R))
        else:
            # a lazy construct whose operand was already named earlier in the same statement: must still be rejected
            lines.append('x%d = tr(%d, tr(%d, %s), %s)' % (t, 700 + t, 800 + t, R,
                         rng.choice(['(%s if a else b)' % R, '(a and %s)' % R, '(b or %s)' % R])))
        if rng.random() < 0.4:
            lines.append('tr(%d, x%d)' % (900 + t, t))
    lines.append('return (%s)' % ', '.join(['x%d' % i for i in range(1, t + 1)] + ['B.n', 'G']))
    return 'def f(a, b):\n' + ''.join('    ' + l + '\n' for l in lines), feats


def lazy_nested_program(rng):
    """Lazy constructs whose lazily evaluated operand contains NESTED calls (only a configuration naming inner
    positions but not the direct operands can get something out of them); `a` is 0 on one input and non-zero on
    the others, so both branch outcomes are executed."""
    lines, t = [], 0
    feats = set()
    def deep():
        nonlocal t
        t += 3
        return rng.choice(['tr(%d, tr(%d, b))' % (t, t + 1), 'tr(%d, tr(%d), a)' % (t, t + 1),
                           'tr(%d, O.m1(tr(%d, a)))' % (t, t + 1), '(tr(%d, tr(%d)) + 1)' % (t, t + 1)])
    for _ in range(rng.randint(1, 3)):
        k = rng.choice(['and', 'or', 'ifexp-body', 'ifexp-orelse', 'lambda', 'assert-msg', 'arg-and', 'comp-cond', 'not-and'])
        feats.add('lazy-nested-' + k)
        t += 1
        if k == 'and':
            lines.append('x%d = a and %s' % (t, deep()))
        elif k == 'or':
            lines.append('x%d = a or %s' % (t, deep()))
        elif k == 'ifexp-body':
            lines.append('x%d = (%s if a else b)' % (t, deep()))
        elif k == 'ifexp-orelse':
            lines.append('x%d = (b if a else %s)' % (t, deep()))
        elif k == 'lambda':
            lines.append('x%d = lambda: %s' % (t, deep()))
            lines.append('x%d = 0' % t)
        elif k == 'assert-msg':
            lines.append('x%d = b' % t)
            lines.append('assert b, %s' % deep())
        elif k == 'arg-and':
            lines.append('x%d = tr(%d, a and %s)' % (t, 600 + t, deep()))
        elif k == 'not-and':
            lines.append('x%d = tr(%d, (not a) or %s, a)' % (t, 600 + t, deep()))
        else:
            lines.append('x%d = tr(%d, [q for q in (a, b) if %s])' % (t, 600 + t, deep()))
        if rng.random() < 0.5:
            lines.append('tr(%d, x%d)' % (900 + t, t))
    lines.append('return tr(999, a)')
    return 'def f(a, b):\n' + ''.join('    ' + l + '\n' for l in lines), feats


def annassign_program(rng):
    """Annotated locals (with and without value).  Python never evaluates the annotation of a local variable:
    annotations are undefined names, calls to the tracer with nested calls, multi-parameter subscripts of undefined
    names.  Placed in the middle and at the end of the function."""
    t = 0
    feats = set()
    def ann():
        nonlocal t
        t += 2
        k = rng.choice(['undefined', 'call', 'nested-call', 'multi-subscript', 'subscript-call'])
        feats.add('annotation-' + k)
        return {'undefined': 'Widget', 'call': 'tr(%d, a)' % (500 + t), 'nested-call': 'tr(%d, tr(%d))' % (500 + t, 501 + t),
                'multi-subscript': 'Dict[str, Widget]', 'subscript-call': 'Mapping[Widget, tr(%d, tr(%d, b))]' % (500 + t, 501 + t)}[k]
    def val():
        nonlocal t
        t += 2
        return rng.choice(['tr(%d, a)' % t, 'tr(%d, tr(%d, b))' % (t, t + 1), 'a + b', 'b'])
    lines = ['x0 = tr(1, a)']
    n = rng.randint(1, 3)
    for i in range(n):
        v = 'y%d' % i
        if rng.random() < 0.7:
            feats.add('annassign-value')
            lines.append('%s: %s = %s' % (v, ann(), val()))
            if rng.random() < 0.5:
                lines.append('tr(%d, %s)' % (900 + i, v))
        else:
            feats.add('annassign-bare')
            lines.append('%s: %s' % (v, ann()))
    tail = rng.random()
    if tail < 0.5:
        lines.append('return tr(99, x0)')
    elif tail < 0.75:
        feats.add('annassign-last')
        lines.append('z: %s = %s' % (ann(), rng.choice(['a', 'tr(98, b)'])))
    else:
        feats.add('annassign-last')
        lines.append('z: %s' % ann())
    return 'def f(a, b):\n' + ''.join('    ' + l + '\n' for l in lines), feats


def fstring_program(rng):
    """f-strings in statements of every kind.  An f-string formats each field right after evaluating it and before
    evaluating the next one: earlier fields format an object whose formatting is observable (F logs and shows the
    box counter; L and B.n are shown), later fields have side effects (bump mutates B, L, G; tr / Fm log)."""
    t = 0
    feats = set()
    nested = [False]
    def field(late):
        nonlocal t
        t += 1
        if late:
            v = rng.choice(['bump(%d)' % t, 'bump(%d)' % t, 'tr(%d, a)' % t, 'tr(%d, tr(%d, b))' % (t, 50 + t), 'Fm(%d)' % t,
                            'L.append(%d)' % t, 'bump(%d)' % t if nested[0] else '(a := a + %d)' % t, 'O.m1(%d)' % t, 'F'])
        else:
            v = rng.choice(['F', 'F', 'L', 'B.n', 'L[0]', 'G', 'a', 'Fm(%d)' % t, 'tr(%d, b)' % t, '(a, B.n)', 'F.k'])
        conv = rng.choice(['', '', '', '!r', '!s', '!a'])
        y = rng.random()
        if y < 0.55:
            spec = ''
        elif y < 0.75:
            spec = ':' + rng.choice(['>7', '^9', '<12'])
        else:
            feats.add('fstring-nested-spec')
            t += 1
            spec = ':>{%s}' % rng.choice(['a + 6', 'bump(%d)' % t, 'tr(%d)' % t, '7', 'B.n + 5'])
        if spec and not conv and not v.startswith('F'):
            conv = '!r'
        if conv:
            feats.add('fstring-conversion')
        return '{%s%s%s}' % (v, conv, spec)
    def fs():
        n = rng.choice([1, 2, 2, 2, 3])
        feats.add('fstring-%d-fields' % n)
        parts = []
        for k in range(n):
            if rng.random() < 0.6:
                parts.append(rng.choice(['|', '-', 'x=', '{{', '}} ']))
            parts.append(field(late=(k > 0 and rng.random() < 0.8) or (n == 1 and rng.random() < 0.5)))
        if rng.random() < 0.1:
            feats.add('fstring-nested-fstring')
            parts.insert(0, "{f'{F}' + 'x'}")
        return 'f"%s"' % ''.join(parts)
    lines = []
    outs = []
    def var():
        nonlocal t
        t += 1
        outs.append('x%d' % t)
        return 'x%d' % t
    for _ in range(rng.randint(1, 4)):
        k = rng.choice(['assign', 'assign', 'call-arg', 'keyword-arg', 'return-tuple', 'expr', 'if-test', 'for-iter', 'with-item',
                        'assert-test', 'assert-msg', 'raise', 'item-store', 'attr-store', 'delete', 'augassign', 'annassign',
                        'default-arg', 'lambda-body', 'try-body', 'handler-body', 'finally-body', 'dict-display', 'tuple-operands',
                        'binop', 'compare', 'while-body', 'subscript-load', 'boolop', 'starred', 'method-receiver'])
        feats.add('fstring-in-' + k)
        t += 1
        if k == 'assign':
            lines.append('%s = %s' % (var(), fs()))
        elif k == 'call-arg':
            lines.append('%s = tr(%d, B.n, %s, L[0])' % (var(), 600 + t, fs()))
        elif k == 'keyword-arg':
            lines.append('%s = tr(%d, k=%s, j=B.n)' % (var(), 600 + t, fs()))
        elif k == 'return-tuple':
            outs.append(fs())
        elif k == 'expr':
            lines.append('tr(%d, %s)' % (600 + t, fs()))
        elif k == 'if-test':
            v = var()
            lines += ['%s = 0' % v, 'if %s:' % fs(), '    %s = tr(%d, %s)' % (v, 600 + t, fs()), 'else:', '    pass']
        elif k == 'for-iter':
            v = var()
            lines += ['%s = ()' % v, 'for q in (%s, %s):' % (fs(), fs()), '    %s = %s + (q, %s)' % (v, v, fs())]
        elif k == 'with-item':
            v = var()
            lines += ['with cm(tr(%d, %s)) as %s:' % (600 + t, fs(), v), '    tr(%d, %s)' % (700 + t, fs())]
        elif k == 'assert-test':
            lines.append('assert %s' % fs())
        elif k == 'assert-msg':
            lines.append('assert b, %s' % fs())
        elif k == 'raise':
            v = var()
            lines += ['%s = 0' % v, 'try:', '    raise E(%s)' % fs(), 'except Err:', '    %s = %s' % (v, fs())]
        elif k == 'item-store':
            lines.append('O[%s] = %s' % (fs(), rng.choice(['a', 'bump(%d)' % t, fs()])))
        elif k == 'attr-store':
            lines.append('O.yy = %s' % fs())
        elif k == 'delete':
            lines.append('del O[%s], O[%s]' % (fs(), fs()))
        elif k == 'augassign':
            v = var()
            lines += ["%s = ''" % v, '%s += %s' % (v, fs())]
        elif k == 'annassign':
            lines.append('%s: str = %s' % (var(), fs()))
        elif k == 'default-arg':
            v, n0 = var(), t
            nested[0] = True
            lines += ['def g%d(p=%s):' % (n0, fs()), '    return (p, %s)' % fs(), '%s = g%d()' % (v, n0)]
            nested[0] = False
        elif k == 'lambda-body':
            v, n0 = var(), t
            nested[0] = True
            lines += ['h%d = lambda: %s' % (n0, fs()), '%s = h%d()' % (v, n0)]
            nested[0] = False
        elif k == 'try-body':
            v = var()
            lines += ['%s = 0' % v, 'try:', '    %s = %s' % (v, fs()), 'except Err:', '    pass']
        elif k == 'handler-body':
            v = var()
            lines += ['%s = 0' % v, 'try:', '    tr(%d99)' % t, 'except Err:', '    %s = %s' % (v, fs())]
        elif k == 'finally-body':
            v = var()
            lines += ['%s = 0' % v, 'try:', '    tr(%d, a)' % (600 + t), 'finally:', '    %s = %s' % (v, fs())]
        elif k == 'dict-display':
            lines.append('%s = {%s: B.n, B.n: %s}' % (var(), fs(), fs()))
        elif k == 'tuple-operands':
            lines.append('%s = (B.n, %s, L[0], %s)' % (var(), fs(), fs()))
        elif k == 'binop':
            lines.append('%s = %s + %s' % (var(), fs(), fs()))
        elif k == 'compare':
            lines.append('%s = (%s < %s)' % (var(), fs(), fs()))
        elif k == 'while-body':
            v = var()
            lines += ["%s = ''" % v, 'while B.n < 3:', '    %s = %s + %s' % (v, v, fs()), '    bump(%d)' % (800 + t)]
        elif k == 'subscript-load':
            lines.append('%s = O[%s, B.n]' % (var(), fs()))
        elif k == 'boolop':
            lines.append('%s = %s and %s' % (var(), fs(), fs()))
        elif k == 'starred':
            lines.append('%s = tr(%d, *%s, B.n)' % (var(), 600 + t, fs()))
        else:
            lines.append('%s = %s.join((%s, %s))' % (var(), fs(), fs(), fs()))
    lines.append('return (%s)' % ', '.join(outs + ['B.n', 'G']))
    return 'def f(a, b):\n' + ''.join('    ' + l + '\n' for l in lines), feats


# One program (at least) for every expression / operator / statement kind of the grammar the random generators never
# produce; nested calls in every operand position, so that any configuration has something to name.
GRAMMAR = [
    ('operators-arith', 'def f(a, b):\n    x = (tr(1, a) // (b * b + 1), tr(2, tr(3)) % 5, 2 ** (tr(4) % 4), tr(5, b) / 4)\n    return tr(6, x)\n'),
    ('operators-bits', 'def f(a, b):\n    x = (tr(1, a) & 6, tr(2) | a, tr(3, tr(4)) ^ b, tr(5) << 2, tr(6, b) >> 1)\n    return tr(7, x)\n'),
    ('operator-matmul', 'def f(a, b):\n    x = O @ tr(1, tr(2, a))\n    y = tr(3) + (O.o1 @ b)\n    return tr(4, x, y)\n'),
    ('augmented-operators', 'def f(a, b):\n    x = tr(1, a)\n    x //= tr(2) + 1\n    x %= 7\n    x **= 2\n    x |= tr(3, tr(4))\n'
                            '    x &= 255\n    x ^= b\n    x <<= 1\n    x >>= tr(5) % 2\n    y = O.o1\n    y @= tr(6, tr(7))\n    x /= 2\n    return (x, y)\n'),
    ('compare-identity', 'def f(a, b):\n    x = tr(1, a) is None\n    y = tr(2, tr(3)) is not a\n    return tr(4, x, y)\n'),
    ('compare-membership', 'def f(a, b):\n    x = tr(1, a) in (a, b, tr(2, tr(3)))\n    y = a not in mk(tr(4), b)\n    return tr(5, x, y)\n'),
    ('global-nonlocal', 'def f(a, b):\n    global G\n    G = tr(1, tr(2, G))\n    n = tr(3)\n    def g(p):\n        nonlocal n\n'
                        '        n = tr(4, tr(5, n), p)\n        return n\n    return (g(a), g(tr(6, b)), n, G)\n'),
    ('imports', 'def f(a, b):\n    import math as m, operator\n    from math import floor as fl, ceil\n'
                '    x = tr(1, fl(tr(2, a) + 0.5))\n    return tr(3, x, m.floor(tr(4)), operator.add(tr(5), ceil(b)))\n'),
    ('classdef', 'def f(a, b):\n    class C:\n        k = tr(1, tr(2, a))\n        def m(self, p):\n            return tr(3, tr(4, p), self.k)\n'
                 '    class D(C, metaclass=type):\n        j = tr(5, C.k)\n    return (C.k, D().m(tr(6, b)), D.j)\n'),
    ('classdef-decorated', 'def f(a, b):\n    def deco(k):\n        return lambda c: (tr(k, 1), c)[1]\n    @deco(tr(1, tr(2)))\n    class C:\n        k = tr(3, a)\n'
                           '    @deco(tr(4))\n    def g(p=tr(5, tr(6))):\n        return p\n    return (C.k, g())\n'),
    ('await', 'async def f(a, b):\n    x = await aw(tr(1, a), tr(2, tr(3)))\n    y = tr(4, await aw(x))\n    return (x, y, await aw(b))\n'),
    ('async-with', 'async def f(a, b):\n    async with acm(tr(1, tr(2, a))) as w, acm(tr(3)) as v:\n        y = await aw(w, tr(4, v))\n    return tr(5, y)\n'),
    ('async-for', 'async def f(a, b):\n    x = 0\n    async for q in ait(tr(1, tr(2, a)), 5, b):\n        x = x + tr(3, tr(4, q))\n    else:\n        x = tr(5, x)\n    return x\n'),
    ('async-nested', 'def f(a, b):\n    async def g(p):\n        return tr(1, await aw(tr(2, p)))\n    c = g(tr(3, a))\n    try:\n        c.send(None)\n'
                     '    except StopIteration as e:\n        return tr(4, e.value)\n'),
    ('yield', 'def f(a, b):\n    x = yield tr(1, tr(2, a))\n    y = yield (tr(3, x), tr(4))\n    yield\n    return tr(5, x, y)\n'),
    ('yield-from', 'def f(a, b):\n    def g(p):\n        q = yield p\n        return tr(1, q, (yield tr(2, tr(3, p))))\n'
                   '    x = yield from g(tr(4, tr(5, a)))\n    y = tr(6, (yield from g(b)))\n    return (x, y)\n'),
    ('yield-operands', 'def f(a, b):\n    x = tr(1, (yield tr(2)), tr(3), (yield tr(4, tr(5))))\n    return x\n'),
    ('match', 'def f(a, b):\n    x = 0\n    match mk(tr(1, tr(2, a)), b):\n        case [0, p]:\n            x = tr(3, tr(4, p))\n'
              '        case [2, *q] if tr(5, tr(6)):\n            x = tr(7, q)\n        case [_, 3 | 4 as z]:\n            x = tr(8, z)\n'
              '        case _:\n            x = tr(9)\n    return x\n'),
    ('match-patterns', 'def f(a, b):\n    x = ()\n    for v in (None, {"k": tr(1, a)}, cm(tr(2)), "s", 1.5):\n        match v:\n            case None:\n'
                       '                x = x + (tr(3),)\n            case {"k": w, **rest}:\n                x = x + (tr(4, tr(5, w)),)\n'
                       '            case CM(k=kk):\n                x = x + (tr(6, kk),)\n            case str():\n                x = x + (tr(7),)\n'
                       '            case other:\n                x = x + (tr(8),)\n    return x\n'),
    ('try-star', 'def f(a, b):\n    x = 0\n    try:\n        x = tr(1, tr(2, a))\n        tr(399)\n    except* Err as g:\n        x = tr(4, tr(5, x))\n'
                 '    else:\n        x = 7\n    finally:\n        x = tr(6, x)\n    return x\n'),
    ('type-alias-typevars', 'def f(a, b):\n    type T = tr(1, tr(2))\n    def g[S, *Ts, **P](p: S):\n        return tr(3, tr(4, p))\n    return g(tr(5, a))\n'),
    ('set-and-dict-displays', 'def f(a, b):\n    x = {tr(1, a), tr(2, tr(3))}\n    y = {tr(4): tr(5, tr(6)), **{"z": tr(7)}}\n    return tr(8, x, y)\n'),
    ('slices', 'def f(a, b):\n    x = mk(1, 2, 3, 4)[tr(1) % 2:tr(2, tr(3)) % 5:1]\n    y = O[tr(4):, ::tr(5), ...]\n    return tr(6, x, y)\n'),
    ('constants', 'def f(a, b):\n    return tr(1, (1.5, 2j, b"x", "s", None, True, ..., -1), tr(2, 0.25))\n'),
    ('starred-assignment', 'def f(a, b):\n    p, *q = mk(tr(1, a), tr(2), tr(3, tr(4)))\n    [r, (s, *t)] = (tr(5), (tr(6), 7, 8))\n    return tr(9, p, q, r, s, t)\n'),
    ('raise-from', 'def f(a, b):\n    try:\n        raise E(tr(1, tr(2))) from E(tr(3))\n    except Err as e:\n        return tr(4, a)\n'),
    ('lambda-args', 'def f(a, b):\n    h = lambda p, /, q=1, *r, s=2, **u: (p, q, r, s, u)\n    return tr(1, h(a, b, 3, s=4, z=5))\n'),
    ('posonly-kwonly', 'def f(a, b):\n    def g(p, /, q=tr(1, tr(2)), *r, s=tr(3), **u) -> None:\n        return tr(4, p, q, r, s)\n    return g(a, b, 9, s=tr(5, tr(6)))\n'),
]


# configurations under which the pieces of an f-string are not named themselves but what is inside them is
FSTRING_CFGS = [
    [['edge', None, None, ['Constant', 'Name'], False], ['edge', ['JoinedStr'], None, None, False],
     ['edge', ['FormattedValue'], 'format_spec', None, False], ['any', True]],
    [['edge', None, None, ['Constant', 'Name'], False], ['edge', None, None, ['JoinedStr', 'FormattedValue'], False], ['any', True]],
    [['edge', None, None, ['Constant'], False], ['edge', ['FormattedValue'], 'value', None, True]],
]


INPUTS = [(0, 1), (2, -1), (5, 3)]

# Hand-written programs: the DESIGN §8 witnesses and one per hazard class (always in the corpus).
FIXED = [
    ('walrus-read', 'def f(a, b):\n    x = a\n    return x + (x := 5)\n'),
    ('store-order', 'def f(a, b):\n    O[tr(1)] = tr(2)\n    return 0\n'),
    ('sibling-order', 'def f(a, b):\n    return tr(1, tr(2), tr(3, tr(4)))\n'),
    ('dict-order', 'def f(a, b):\n    return tr(1, {tr(2): tr(3), tr(4): tr(5)})\n'),
    ('with-target', 'def f(a, b):\n    with cm(1) as O.w:\n        tr(2)\n    return 0\n'),
    ('with-items', 'def f(a, b):\n    with cm(1) as x, cm(tr(2, a)) as y:\n        tr(3, x, y)\n    return 0\n'),
    ('multi-target', 'def f(a, b):\n    O[tr(1)] = O.o1[tr(2)] = a\n    return 0\n'),
    ('temp-name', 'def f(a, b):\n    tmp_1001 = a + 7\n    return tr(1, tr(2, b), tmp_1001)\n'),
    ('temp-name-two-temps', 'def f(a, b):\n    tmp_1001 = a\n    return tr(1, tr(2, b), tr(3, tmp_1001))\n'),
    ('second-pass', 'def f(a, b):\n    tmp_1001 = tr(1, a)\n    tmp_1002 = tr(2, b)\n    return tr(3, tr(4, tmp_1001), tr(5, tmp_1002))\n'),
    ('mutable-attr', 'def f(a, b):\n    return (B.n, bump(1), B.n)\n'),
    ('mutable-item', 'def f(a, b):\n    return tr(1, L[0], bump(1), L[0])\n'),
    ('mutable-global', 'def f(a, b):\n    return (G + 1) + bump(1) + (G + 1)\n'),
    ('lazy-nested-and', 'def f(a, b):\n    x = a and tr(1, tr(2, b))\n    return tr(3, x)\n'),
    ('lazy-nested-assert', 'def f(a, b):\n    assert b, tr(1, tr(2))\n    return tr(3, a)\n'),
    ('annotation-nested-call', 'def f(a, b):\n    y: tr(1, tr(2)) = tr(3, a)\n    return tr(4, y)\n'),
    ('annotation-typing-names', 'def f(a, b):\n    tr(1, a)\n    y: Dict[str, Widget] = b\n'),
    ('fstring-later-field-mutates', 'def f(a, b):\n    return f"{L}|{L.append(1)}"\n'),
    ('fstring-format-before-next-field', 'def f(a, b):\n    x = f"{F}-{tr(1, a)}"\n    return tr(2, x)\n'),
    ('fstring-nested-spec', 'def f(a, b):\n    x = f"{F!r:>{tr(1)}}|{bump(2)}"\n    return (x, B.n)\n'),
    ('fstring-trivial', 'def f(a, b):\n    x = f"a={a}, b={b!r:>4}"\n    return tr(1, x)\n'),
    ('dropped-pending', 'def f(a, b):\n    tr(1)\n    x: int = tr(2, tr(3))\n'),
    ('plain-1', 'def f(a, b):\n    x = tr(1, a + b, k=tr(2))\n    return tr(3, x * 2, O.yy)\n'),
    ('plain-2', 'def f(a, b):\n    for v in (tr(1), tr(2, a)):\n        if v < tr(3, v):\n            O[v] = b\n    return tr(4)\n'),
    ('plain-3', 'def f(a, b):\n    try:\n        x = tr(199, a)\n    except Err:\n        x = tr(2)\n    finally:\n        tr(3)\n    return x\n'),
]


def _comp_fixed():
    out = []
    k = 0
    for kind in ('list', 'set', 'dict', 'gen'):
        for pos in ('elt', 'key', 'value', 'cond', 'iter', 'flat'):
            if pos == 'key' and kind != 'dict':
                continue
            if pos == 'elt' and kind == 'dict':
                continue
            deep = 'tr(1, tr(2, q))'
            it, elt, key, val, cond = 's0', 'q', 'q', 'q', ''
            if pos in ('elt', 'value'):
                elt = val = deep
            elif pos == 'key':
                key = deep
            elif pos == 'cond':
                cond = ' if ' + deep
            elif pos == 'iter':
                it = 'mk(tr(1, tr(2, a)), b)'
            body = {'dict': '{%s: %s for q in %s%s}' % (key, val, it, cond), 'list': '[%s for q in %s%s]' % (elt, it, cond),
                    'set': '{%s for q in %s%s}' % (elt, it, cond), 'gen': '*(%s for q in %s%s)' % (elt, it, cond)}[kind]
            out.append(('comp-%s-%s' % (kind, pos), 'def f(a, b):\n    s0 = (1, 2, 3)\n    return tr(9, %s)\n' % body))
    return out


FIXED += _comp_fixed()


def parse_fn(src):
    return ast.parse(src).body[0]
