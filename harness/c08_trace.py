"""C08 — instrumented execution: which variables does each executed statement actually read / rebind / delete?

Independent of malt and of the Lean model: the program is run under `sys.settrace` with per-opcode events;
every executed LOAD_/STORE_/DELETE_ of a variable (fast local, cell, global, name) is attributed, through the
instruction's source position (`co_positions`), to the AST node it was compiled from, and from there to the
CFG-level node whose Scope the analysis annotated (simple statement, `if`/`while` test, `for` iterable,
`for` target -> ITERATE_SCOPE, `with` item, def/class statement, lambda body, …).
"""
import ast, dis, sys

READ_OPS = {'LOAD_NAME', 'LOAD_GLOBAL', 'LOAD_FAST', 'LOAD_FAST_CHECK', 'LOAD_DEREF', 'LOAD_CLASSDEREF',
            'LOAD_FROM_DICT_OR_DEREF', 'LOAD_FROM_DICT_OR_GLOBALS'}
WRITE_OPS = {'STORE_NAME', 'STORE_GLOBAL', 'STORE_FAST', 'STORE_DEREF'}
DEL_OPS = {'DELETE_NAME', 'DELETE_GLOBAL', 'DELETE_FAST', 'DELETE_DEREF'}
BLOCK_FIELDS = {'body': 'BODY_SCOPE', 'orelse': 'ORELSE_SCOPE'}


class Locator(object):
    """Maps source positions of `tree` (parsed from the traced file's text) to scope-annotated nodes."""

    def __init__(self, tree, has_scope):
        """has_scope(node, key) -> bool: does the implementation hold an annotation `key` on `node`?"""
        self.tree = tree
        self.has_scope = has_scope
        self.parent = {}
        self.depth = {id(tree): 0}
        self.pos_nodes = []
        stack = [tree]
        while stack:
            n = stack.pop()
            for field, value in ast.iter_fields(n):
                kids = value if isinstance(value, list) else [value]
                for c in kids:
                    if isinstance(c, ast.AST):
                        self.parent[id(c)] = (n, field)
                        self.depth[id(c)] = self.depth[id(n)] + 1
                        stack.append(c)
            if hasattr(n, 'lineno') and hasattr(n, 'end_lineno') and n.end_lineno is not None:
                self.pos_nodes.append(n)
        self.cache = {}

    def innermost(self, pos):
        """Deepest node whose span contains the instruction span."""
        if pos in self.cache:
            return self.cache[pos]
        l0, l1, c0, c1 = pos
        best = None
        for n in self.pos_nodes:
            if (n.lineno, n.col_offset) <= (l0, c0) and (l1, c1) <= (n.end_lineno, n.end_col_offset):
                if best is None or self.depth[id(n)] > self.depth[id(best)]:
                    best = n
        self.cache[pos] = best
        return best

    def attribute(self, node):
        """(annotated node, key) responsible for an access compiled from `node`, or None."""
        cur = node
        while cur is not None:
            par = self.parent.get(id(cur))
            if par is not None and isinstance(par[0], (ast.For, ast.AsyncFor)) and par[1] == 'target':
                return (par[0], 'ITERATE_SCOPE') if self.has_scope(par[0], 'ITERATE_SCOPE') else None
            if self.has_scope(cur, 'SCOPE') and not isinstance(cur, ast.arguments):
                # (the scope on an `arguments` node is the parameter binding at function entry, not the
                # evaluation of default values / annotations, which the def statement performs)
                return (cur, 'SCOPE')
            if par is None:
                return None
            p, field = par
            if isinstance(cur, (ast.stmt, ast.ExceptHandler)):
                if isinstance(p, (ast.FunctionDef, ast.AsyncFunctionDef, ast.Lambda)) and field == 'body':
                    return (p, 'BODY_SCOPE') if self.has_scope(p, 'BODY_SCOPE') else None
                if isinstance(p, ast.ClassDef):
                    return None              # the class-body scope is not recorded by the analysis
                if field in BLOCK_FIELDS and self.has_scope(p, BLOCK_FIELDS[field]):
                    return (p, BLOCK_FIELDS[field])
                if isinstance(p, (ast.With, ast.AsyncWith)) and field == 'body' and self.has_scope(p, 'BODY_SCOPE'):
                    return (p, 'BODY_SCOPE')
            cur = p
        return None


def unshadowed_name_nodes(tree):
    """ids of the ast.Name nodes that are NOT lexically under a comprehension having that name among its iteration
    targets (the first iterable of a comprehension belongs to the enclosing block).  Conservative: any target of
    any `for` clause of the comprehension hides the name in all the other parts of the comprehension."""
    out = set()
    comps = (ast.ListComp, ast.SetComp, ast.DictComp, ast.GeneratorExp)

    def targets(c):
        t = set()
        for g in c.generators:
            for n in ast.walk(g.target):
                if isinstance(n, ast.Name):
                    t.add(n.id)
        return t

    def visit(node, hidden):
        if isinstance(node, comps):
            inner = hidden | targets(node)
            for k, g in enumerate(node.generators):
                visit(g.iter, hidden if k == 0 else inner)
                visit(g.target, inner)
                for c in g.ifs:
                    visit(c, inner)
            for f in ('elt', 'key', 'value'):
                if hasattr(node, f):
                    visit(getattr(node, f), inner)
            return
        if isinstance(node, ast.Name) and node.id not in hidden:
            out.add(id(node))
        for c in ast.iter_child_nodes(node):
            visit(c, hidden)
    visit(tree, frozenset())
    return out


class Abort(BaseException):
    pass


class Tracer(object):
    def __init__(self, filename, locator, line_range=None, budget=60000):
        self.filename = filename
        self.loc = locator
        self.line_range = line_range
        self.budget = budget
        self.nops = 0
        self.instrs = {}
        self.events = set()       # (kind, name, id(node), key) with kind in 'read' | 'write' | 'del'
        self.unshadowed = set()   # the events made through a Name that no enclosing comprehension target hides
        self.free_names = unshadowed_name_nodes(locator.tree)
        self.nodes = {}
        self.unattributed = 0
        self.nevents = 0

    def table(self, code):
        t = self.instrs.get(code)
        if t is None:
            t = {}
            for ins in dis.get_instructions(code):
                if ins.opname in READ_OPS or ins.opname in WRITE_OPS or ins.opname in DEL_OPS:
                    p = ins.positions
                    if p is not None and p.lineno is not None and p.col_offset is not None:
                        kind = 'read' if ins.opname in READ_OPS else ('write' if ins.opname in WRITE_OPS else 'del')
                        t[ins.offset] = (kind, ins.argval, (p.lineno, p.end_lineno, p.col_offset, p.end_col_offset))
            self.instrs[code] = t
        return t

    def __call__(self, frame, event, arg):
        code = frame.f_code
        if code.co_filename != self.filename or code.co_name == '<module>':
            return None
        if self.line_range and not (self.line_range[0] <= code.co_firstlineno <= self.line_range[1]):
            return None
        frame.f_trace_opcodes = True
        frame.f_trace_lines = False
        return self.local

    def local(self, frame, event, arg):
        if event == 'opcode':
            self.nops += 1
            if self.nops > self.budget:
                raise Abort()
            e = self.table(frame.f_code).get(frame.f_lasti)
            if e is not None:
                kind, name, pos = e
                if isinstance(name, str) and not (name.startswith('__') and name.endswith('__')) and not name.startswith('.'):
                    self.nevents += 1
                    node = self.loc.innermost(pos)
                    if kind == 'write' and isinstance(node, (ast.ListComp, ast.SetComp, ast.DictComp)) and \
                            (node.lineno, node.end_lineno, node.col_offset, node.end_col_offset) == pos:
                        # the compiler restoring the variables it saved around an inlined comprehension
                        # (LOAD_FAST_AND_CLEAR … STORE_FAST, PEP 709): not an access made by the program
                        return self.local
                    at = self.loc.attribute(node) if node is not None else None
                    if at is None:
                        self.unattributed += 1
                    else:
                        self.nodes[id(at[0])] = at[0]
                        self.events.add((kind, name, id(at[0]), at[1]))
                        if isinstance(node, ast.Name) and node.id == name and id(node) in self.free_names:
                            self.unshadowed.add((kind, name, id(at[0]), at[1]))
        return self.local


_WARM = [False]


def _warm_up():
    """CPython 3.12 enables per-opcode events (sys.monitoring) lazily: the first frame that asks for them
    does not receive any.  Trace one throw-away call first."""
    if _WARM[0]:
        return
    _WARM[0] = True
    ns = {}
    exec(compile('def _w(a):\n    b = a\n    return b\n', '<c08-warm-up>', 'exec'), ns)

    def t(frame, event, arg):
        frame.f_trace_opcodes = True
        return t
    old = sys.gettrace()
    sys.settrace(t)
    try:
        ns['_w'](1)
        ns['_w'](2)
    finally:
        sys.settrace(old)


def run_traced(source, filename, tree, has_scope, entry, line_range=None):
    """Execute `source` (compiled as `filename`), then `entry(namespace)` under the tracer.
    tree = ast.parse(source) (the very tree whose nodes `has_scope` knows).
    -> (tracer, exception type name or None)."""
    loc = Locator(tree, has_scope)
    tr = Tracer(filename, loc, line_range)
    import warnings
    with warnings.catch_warnings():
        warnings.simplefilter('ignore')
        code = compile(source, filename, 'exec')
    ns = {'__name__': '__c08__'}
    exc = None
    old = sys.gettrace()
    _warm_up()
    sys.settrace(tr)
    try:
        try:
            exec(code, ns)
            entry(ns)
        except Abort:
            exc = 'budget'
        except RecursionError:
            exc = 'RecursionError'
        except BaseException as e:  # noqa
            exc = type(e).__name__
    finally:
        sys.settrace(old)
    return tr, exc
