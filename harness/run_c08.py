"""C08 — scope (activity) analysis matches Python's own binding rules.

Tie (DESIGN.md §4 C08):
  (1) correspondence  implementation's Scope annotations (every key, every node, every set, parent chain via
      `referenced`) and the per-function classification read off them  ==  Lean model `Analysis.Activity` /
      `Analysis.ActivityFn`, on all repo functions + generated function trees;
  (2) correspondence  Lean specification `Spec.Symtable`  ==  CPython's `symtable.symtable(source)` on the same
      programs (so the specification is tied to the real interpreter); and the opcode-level trace of real
      executions  ⊆  `Spec.Dynamic` (the syntactic "what does this statement read/rebind" used by C08_dynamic);
  (3) direct oracle (needs no Lean): implementation's per-function classification vs `symtable`; actual
      reads / rebinds / deletes of every executed statement (opcode trace) vs the implementation's
      read / modified / deleted sets of that statement.
Failing inputs are classified with the predicates of `Analysis.ActivityHyp` (evaluated by the Lean driver):
the hypotheses of the `_partial` theorems.
"""
import ast, hashlib, json, os, sys, tempfile, warnings

import common
from common import sexp, parse_sexp
import c08_gen, c08_real, c08_reanalysis, c08_sym, c08_trace, progen

MODEL_FILES = ['MaltModel/Analysis/QualNames.lean', 'MaltModel/Analysis/Activity.lean', 'MaltModel/Analysis/ActivityFn.lean',
               'MaltModel/Analysis/ActivityHyp.lean', 'MaltModel/Spec/Symtable.lean', 'MaltModel/Spec/Dynamic.lean',
               'MaltModel/Proofs/C08Activity.lean', 'MaltModel/Proofs/C08Dynamic.lean', 'MaltModel/Proofs/C08Classes.lean', 'MaltModel/Proofs/C08Nested.lean', 'MaltModel/Proofs/C08Comp.lean', 'MaltModel/Proofs/C08CompDynamic.lean',
               'MaltModel/Spec/Outer.lean', 'MaltModel/Proofs/C08Frees.lean', 'MaltModel/Proofs/C08FreesModel.lean',
               'MaltModel/Proofs/C08FreesStmt.lean', 'MaltModel/Proofs/C08FreesTop.lean',
               'MaltModel/Drv/C08.lean']
CLASSES = ['walrusInComp', 'harmfulLeaks', 'classShadow', 'argAnnotations', 'nonlocalBelow', 'globalBelow']
PRELUDE_LINES = c08_gen.PRELUDE.count('\n')
MAX_STORED_FAILS = 40
NL = 7   # driver requests per case
NFR = 7  # booleans answered by c08.frag
FREES_CLASSES = ['harmfulLeaks', 'classShadow', 'globalBelow']


class Case(object):
    def __init__(self, src, call='', runnable=False, kind='gen', desc=None):
        self.src, self.call, self.runnable, self.kind, self.desc = src, call, runnable, kind, desc
        self.key = kind[0] + hashlib.sha1((src + '|' + call).encode()).hexdigest()[:12]

    def data(self):
        return {'source': self.src, 'call': self.call, 'runnable': self.runnable, 'kind': self.kind, 'key': self.key}


def gen_cases(run):
    """Generated cases, in a fixed canonical order, stride-sampled when above the tier's cap."""
    out, info = [], {}
    space = c08_gen.chain_space()
    cap = 3500 if run.tier == 'quick' else len(space)
    if len(space) > cap:
        stride = len(space) // cap + 1
        off = run.rng.randrange(stride)
        picked = space[off::stride]
    else:
        picked = space
    info['chain_space'] = len(space)
    info['chain_picked'] = len(picked)
    info['chain_exhaustive'] = len(picked) == len(space)
    for d in picked:
        s = c08_gen.chain_source(*d)
        if s is not None:
            out.append(Case(s, 'f(V())', c08_gen.chain_runnable(d), 'chain', [d[0], d[1], [list(l) for l in d[2]]]))
    nrand = 1500 if run.tier == 'quick' else 10000
    for i in range(nrand):
        runnable = i % 2 == 0
        s, call = c08_gen.random_tree(run.rng, runnable=runnable, max_depth=2 + i % 2, handler_names=(i % 25 == 24))
        out.append(Case(s, 'f(%s)' % call, runnable, 'random'))
    # control-flow skeletons of the shared generator (if/while/for/try/finally/with/nested def + nonlocal), executed
    nsk = 250 if run.tier == 'quick' else 1500
    sk_info = {}
    for prog in progen.skeleton_programs(max_stmts=4 if run.tier == 'quick' else 5, max_depth=3, cap=nsk, rng=run.rng,
                                         rich=run.tier != 'quick', info=sk_info):
        out.append(Case(prog.function_source(), 'f(V(), V(), V())', True, 'skeleton'))
    info['skeletons'] = sk_info
    # nested comprehensions: an inner iteration variable that the outer comprehension reads as an ordinary variable
    nested = c08_gen.nested_comp_space()
    ncap = 260 if run.tier == 'quick' else len(nested)
    if len(nested) > ncap:
        nstride = len(nested) // ncap + 1
        noff = run.rng.randrange(nstride)
        # every stride class still covers all roles / kinds / shapes over the seeds (the list is role-major)
        nested_picked = nested[noff::nstride]
    else:
        nested_picked = nested
    info['nested_comprehension_space'] = len(nested)
    info['nested_comprehension_picked'] = len(nested_picked)
    for d, s in nested_picked:
        out.append(Case(s, 'f(V())', True, 'nested-comp', d))
    for s in c08_gen.SEEDS:
        out.append(Case(s, '', False, 'seed'))
    info['random'] = nrand
    return out, info


def load_corpus():
    d = os.path.join(common.VERIF, 'corpus', 'C08')
    out = []
    if os.path.isdir(d):
        for fn in sorted(os.listdir(d)):
            if fn.endswith('.json'):
                with open(os.path.join(d, fn)) as f:
                    j = json.load(f)
                c = Case(j['source'], j.get('call', ''), bool(j.get('runnable')), 'corpus')
                c.expect_class = j.get('class')
                c.name = fn
                out.append(c)
    return out


class Prepared(object):
    """Everything computed on the Python side for one case."""
    pass


def prepare(case, workdir, trace=True):
    """Parse, validate with CPython, run the real analysis, the symtable oracle and the traced execution."""
    p = Prepared()
    p.case = case
    p.valid = True
    p.error = None
    try:
        with warnings.catch_warnings():
            warnings.simplefilter('ignore')
            p.block = c08_sym.symtable_top(case.src)
            full = c08_gen.PRELUDE + case.src + (case.call + '\n' if case.call else '')
            tree = ast.parse(full)
            compile(full, '<c08>', 'exec')
    except (SyntaxError, ValueError, RecursionError) as e:
        p.valid = False
        p.error = type(e).__name__
        return p
    fn = [n for n in tree.body if isinstance(n, (ast.FunctionDef, ast.AsyncFunctionDef)) and n.name == 'f'][-1]
    p.fn, p.tree, p.full = fn, tree, full
    p.is_async = isinstance(fn, ast.AsyncFunctionDef)
    p.aliasing = c08_real.literal_aliasing(fn)
    p.impl = c08_real.Impl(fn)
    p.ser = p.impl.ser
    p.unknown = c08_real.has_unknown(p.ser.sexp)
    p.sym_flat = c08_sym.flatten_symtable(p.block, PRELUDE_LINES)
    p.trace = None
    if not p.impl.crash:
        p.iclasses = c08_sym.impl_classes(p.impl)
        p.sclasses = c08_sym.symtable_classes(p.block)
        for c in p.sclasses:
            c['lineno'] += PRELUDE_LINES
        if trace and case.runnable and case.call:
            fname = os.path.join(workdir, case.key + '.py')
            impl = p.impl
            tr, exc = c08_trace.run_traced(full, fname, tree, lambda n, k: impl.scope_obj(n, k) is not None,
                                           lambda ns: None, (min([fn.lineno] + [d.lineno for d in fn.decorator_list]), fn.end_lineno))
            p.trace, p.trace_exc = tr, exc
    return p


def parse_frag(text):
    try:
        fr = [x == 'True' for x in parse_sexp(text)]
    except Exception:
        fr = []
    return (fr + [False] * NFR)[:NFR]


def frees_hyp(fr, hyp):
    """The hypotheses of C08_frees_nested, evaluated by the Lean driver (same predicates as the classifier's)."""
    return fr[0] and fr[1] and fr[2] and fr[6] and not any(hyp.get(c) for c in FREES_CLASSES)


def frees_check(outer_text, iclasses, sclasses, ser, lineno_shift, holds, has_inlined_comp, stats, prefix, src, dis):
    """`c08.outer` against (a) the implementation's recorded scopes where the hypotheses of C08_frees_nested hold,
    (b) CPython's symtable (free variables = outerB ∩ visible; implicit globals ⊆ outerB − visible)."""
    try:
        rows = [(int(r[0]), set(r[1]), set(r[2])) for r in parse_sexp(outer_text)]
    except Exception:
        return
    by_id = {c['id']: c for c in iclasses if c['name'] != 'lambda'}
    sym = {}
    for c in (sclasses or []):
        sym.setdefault((c['name'], c['lineno']), []).append(c)
    for fid, outer, vis in rows:
        ic = by_id.get(fid)
        if ic is None:
            continue
        stats[prefix + 'defs_seen'] = stats.get(prefix + 'defs_seen', 0) + 1
        if holds:
            stats[prefix + 'defs_covered_by_C08_frees_nested'] = stats.get(prefix + 'defs_covered_by_C08_frees_nested', 0) + 1
            if vis:
                stats[prefix + 'nested_defs_covered_by_C08_frees_nested'] = stats.get(prefix + 'nested_defs_covered_by_C08_frees_nested', 0) + 1
            got = (ic['free_vars'] | ic['nonlocals']) - ic['globals']
            if got != outer:
                dis['thm-frees'].append({'source': src, 'def': fid, 'analysis': sorted(got), 'outerB': sorted(outer)})
            elif ic['frees'] != (outer & vis):
                dis['thm-frees'].append({'source': src, 'def': fid, 'analysis_frees': sorted(ic['frees']), 'outerB_visible': sorted(outer & vis)})
        if sclasses is not None and not has_inlined_comp:
            node = ser.nodes[fid]
            cands = sym.get((ic['name'], node.lineno + lineno_shift), [])
            if len(cands) == 1:
                sc = cands[0]
                stats[prefix + 'defs_outerB_vs_symtable'] = stats.get(prefix + 'defs_outerB_vs_symtable', 0) + 1
                if sc['frees'] != (outer & vis) or not (sc['implicit_globals'] <= (outer - vis)):
                    dis['outer-symtable'].append({'source': src, 'def': fid, 'cpython_free': sorted(sc['frees']),
                                                  'cpython_implicit_global': sorted(sc['implicit_globals']),
                                                  'outerB': sorted(outer), 'visible': sorted(vis)})


def class_of(name, hyp):
    """First deviation class (Lean predicate) implicating `name` in this tree, or None."""
    for c in CLASSES:
        if name in hyp.get(c, ()):
            return c
    return None


def static_oracle(p):
    """(3a) implementation's per-function classification vs symtable.  -> list of (category, fn key, name)."""
    obs = []
    groups = {}
    for c in p.sclasses:
        groups.setdefault((c['name'], c['lineno']), [[], []])[0].append(c)
    for c in p.iclasses:
        groups.setdefault((c['name'], c['lineno']), [[], []])[1].append(c)
    for k, (a, b) in sorted(groups.items()):
        if not a:
            continue            # lambdas in the decorators/defaults of the top-level function: module-level blocks
        if len(a) != len(b):
            obs.append(('function-count', k, '%d vs %d' % (len(a), len(b))))
            continue
        if len(a) > 1:
            # several functions with the same name on one line: compare as multisets of classifications
            aside = set().union(*[x['aside'] for x in b])
            def canon(x, keys):   # noqa: E306
                return tuple(tuple(sorted(x[f] - aside)) for f in keys)
            keys = ['params', 'locals', 'globals', 'nonlocals', 'frees']
            if sorted(canon(x, keys) for x in a) != sorted(canon(x, keys) for x in b):
                names = set()
                for x in a + b:
                    for f in keys:
                        names |= x[f] - aside
                for n in sorted(names):
                    if sorted(canon({f: x[f] & {n} for f in keys}, keys) for x in a) != \
                            sorted(canon({f: x[f] & {n} for f in keys}, keys) for x in b):
                        obs.append(('same-line-functions', k, n))
            continue
        a, b = a[0], b[0]
        aside = b['aside']
        # a comprehension target that the function's own block also reads outside every comprehension hiding it is
        # an ordinary variable there: its free / global status is compared
        aside_reads = aside - b.get('unshadowed', set())
        for f in ['params', 'locals', 'globals', 'nonlocals', 'frees']:
            asd = aside_reads if f == 'frees' else aside
            for n in sorted((a[f] - b[f]) - asd):
                obs.append((f + ':cpython-only', k, n))
            for n in sorted((b[f] - a[f]) - asd):
                obs.append((f + ':analysis-only', k, n))
        # every global name the function itself refers to must be among read - bound (free_vars) or declared global
        for n in sorted((a['implicit_globals'] - b['free_vars'] - b['globals']) - aside_reads):
            obs.append(('implicit-global:not-free-var', k, n))
    return obs


def in_revisited_iterable(p, nid, name):
    """Known deviation class `compIterRevisit` (decided on the tree): the annotated node is an expression inside the
    iterable of a `for` clause of a comprehension whose target is `name`.  visit_comprehension visits the iterable,
    then the target, then generic_visit visits the iterable AGAIN — now with the target hidden — and the second
    visit overwrites the annotations of the scope-carrying expressions (lambdas) inside the iterable."""
    node = p.ser.nodes.get(nid) if hasattr(p.ser.nodes, 'get') else p.ser.nodes[nid]
    if node is None or isinstance(node, ast.stmt):
        return False
    par = c08_sym.parents_map(p.fn)
    child, q = node, par.get(id(node))
    while q is not None:
        if isinstance(q, ast.comprehension) and child is q.iter and \
                name in {n.id for n in ast.walk(q.target) if isinstance(n, ast.Name)}:
            return True
        child, q = q, par.get(id(q))
    return False


def dynamic_oracle(p):
    """(3b) traced accesses vs the implementation's sets of the statement.  -> list of (kind, node id, key, name)."""
    obs = []
    aside = set()
    for n in ast.walk(p.fn):
        if isinstance(n, c08_sym.COMP_NODES):
            aside |= c08_sym.comp_target_names(n)
        elif isinstance(n, ast.ExceptHandler) and n.name:
            aside.add(n.name)
    checked = 0
    handler_names = {n.name for n in ast.walk(p.fn) if isinstance(n, ast.ExceptHandler) and n.name}
    free_reads = {e for e in getattr(p.trace, 'unshadowed', ()) if e[0] == 'read' and e[1] not in handler_names}
    for kind, name, nid, key in sorted(p.trace.events, key=lambda e: (p.ser.id_of(p.trace.nodes[e[2]]) or 0, e[3], e[0], e[1])):
        if name in aside and (kind, name, nid, key) not in free_reads:
            # (a read made through a Name that no comprehension target hides is a read of the ordinary variable)
            continue
        node = p.trace.nodes[nid]
        sc = p.impl.scope_obj(node, key)
        checked += 1
        if kind == 'read':
            ok = name in c08_sym.simple_names(sc.read)
        else:
            ok = name in c08_sym.simple_names(sc.modified) or name in c08_sym.simple_names(sc.deleted)
        if not ok:
            obs.append((kind, p.ser.id_of(node), key, name))
    return obs, checked, aside


def check_cases(run, cases, workdir, label, stats):
    """Runs every obligation on `cases`.  Returns per-case results for corpus handling."""
    preps = []
    for c in cases:
        p = prepare(c, workdir)
        if not p.valid:
            stats['rejected_by_cpython'] = stats.get('rejected_by_cpython', 0) + 1
            if c.kind == 'corpus':
                run.notes.append('corpus entry %s is not a valid program with a top-level function f (%s)' % (getattr(c, 'name', '?'), p.error))
            continue
        preps.append(p)
    # ---- one driver round trip for everything the Lean side computes
    answers = None
    if run.driver_ok:
        lines = []
        for p in preps:
            t = p.ser.text()
            lines += ['c08.activity ' + t, 'c08.classes ' + t, 'c08.spec ' + t, 'c08.units ' + t, 'c08.hyp ' + t, 'c08.frag ' + t,
                      'c08.outer ' + t]
        answers = run.drive(lines) if lines else []
    results = []
    dis = {'activity': [], 'classes': [], 'spec-symtable': [], 'trace-in-spec-dynamic': [], 'thm-classes': [], 'thm-dynamic': [],
           'thm-frees': [], 'outer-symtable': []}
    for idx, p in enumerate(preps):
        c = p.case
        res = {'case': c, 'failed': [], 'aside': None}
        results.append(res)
        nblocks = len(p.sym_flat)
        run.case(c.key, nontrivial=nblocks > 1 or len(p.ser.nodes) > 12)
        stats['blocks'] = stats.get('blocks', 0) + nblocks
        hyp, units, fr = {}, None, [False] * NFR
        a_outer = None
        if answers is not None:
            a_act, a_cls, a_spec, a_units, a_hyp, a_frag, a_outer = answers[NL * idx: NL * idx + NL]
            try:
                hyp = {k: set(v) for k, v in parse_sexp(a_hyp)}
            except Exception:
                hyp = {}
            for cl in CLASSES:
                if hyp.get(cl):
                    stats['class:' + cl] = stats.get('class:' + cl, 0) + 1
            if not any(hyp.get(cl) for cl in CLASSES):
                stats['free_of_all_deviation_classes'] = stats.get('free_of_all_deviation_classes', 0) + 1
            fr = parse_frag(a_frag)
            if frees_hyp(fr, hyp):
                stats['hypotheses_of_C08_frees_nested_hold'] = stats.get('hypotheses_of_C08_frees_nested_hold', 0) + 1
            if fr[0] and fr[2]:
                stats['hypotheses_of_C08_dynamic_lookup_hold'] = stats.get('hypotheses_of_C08_dynamic_lookup_hold', 0) + 1
            if fr[4]:
                stats['hypotheses_of_C08_compositional_comp_hold'] = stats.get('hypotheses_of_C08_compositional_comp_hold', 0) + 1
            if fr[5] and fr[2]:
                stats['hypotheses_of_C08_dynamic_comp_lookup_hold'] = stats.get('hypotheses_of_C08_dynamic_comp_lookup_hold', 0) + 1
            if all(fr[:4]) and not hyp.get('harmfulLeaks'):
                stats['hypotheses_of_C08_classes_partial_and_nested_hold'] = stats.get('hypotheses_of_C08_classes_partial_and_nested_hold', 0) + 1
        # ---- set aside exactly what the property sets aside
        if p.impl.crash == 'handlerName':
            stats['set_aside:except_name_crash'] = stats.get('set_aside:except_name_crash', 0) + 1
            res['aside'] = 'handlerName'
            if answers is not None and answers[NL * idx] != '(crash handlerName)':
                dis['activity'].append({'source': c.src, 'implementation': '(crash handlerName)', 'model': answers[NL * idx][:300]})
            continue
        if p.impl.crash:
            cls = 'subscriptLiteralAssert' if p.impl.crash == 'literalAssert' else None
            if p.is_async:
                stats['set_aside:async'] = stats.get('set_aside:async', 0) + 1
            else:
                run_fail(run, stats, 'the analysis raises %s: %s' % (type(p.impl.exc).__name__, str(p.impl.exc)[:120]),
                         dict(c.data(), observation=['crash', p.impl.crash]), cls)
                res['failed'].append(cls)
            if answers is not None and answers[NL * idx] != sexp(['crash', p.impl.crash]) and not p.is_async:
                dis['activity'].append({'source': c.src, 'implementation': sexp(['crash', p.impl.crash]), 'model': answers[NL * idx][:300]})
            continue
        # ---- (3a) direct oracle: classification vs symtable
        for cat, fk, name in static_oracle(p):
            cls = class_of(name, hyp)
            if all(fr[:4]) and not hyp.get('harmfulLeaks') and fk[0] != 'lambda' and \
                    cat.split(':')[0] in ('params', 'locals', 'globals', 'nonlocals'):
                # the hypotheses of C08_classes_nested hold for this tree, yet a def's classification differs
                dis['thm-classes'].append({'source': c.src, 'observation': [cat, fk[0], name]})
            run_fail(run, stats, 'function %s (line %d): %s %r' % (fk[0], fk[1] - PRELUDE_LINES, cat, name),
                     dict(c.data(), observation=['static', cat, fk[0], fk[1] - PRELUDE_LINES, name]), cls)
            res['failed'].append(cls)
        stats['functions_vs_symtable'] = stats.get('functions_vs_symtable', 0) + len(p.iclasses)
        # ---- C08_frees_nested on the real code, and Spec.outerB against CPython
        if a_outer is not None and not p.is_async and not p.aliasing and not p.unknown:
            inlined = any(isinstance(n, (ast.ListComp, ast.SetComp, ast.DictComp)) for n in ast.walk(p.fn))
            frees_check(a_outer, p.iclasses, p.sclasses, p.ser, 0, frees_hyp(fr, hyp), inlined, stats, '', c.src, dis)
        # ---- (3b) direct oracle: traced execution vs statement sets
        if p.trace is not None:
            obs, checked, aside = dynamic_oracle(p)
            stats['traced_programs'] = stats.get('traced_programs', 0) + 1
            stats['traced_accesses_checked'] = stats.get('traced_accesses_checked', 0) + checked
            stats['traced_unattributed'] = stats.get('traced_unattributed', 0) + p.trace.unattributed
            if p.trace_exc:
                stats['traced_ended_in:' + p.trace_exc] = stats.get('traced_ended_in:' + p.trace_exc, 0) + 1
            stmt_units = set()
            if answers is not None:
                try:
                    stmt_units = {(int(u[0]), u[1]) for u in parse_sexp(answers[NL * idx + 3]) if len(u) > 4 and u[4] == 'stmt'}
                except Exception:
                    stmt_units = set()
            for kind, nid, key, name in obs:
                cls = class_of(name, hyp)
                if cls is None and kind == 'read' and in_revisited_iterable(p, nid, name):
                    cls = 'compIterRevisit'
                if fr[5] and fr[2] and (nid, key) in stmt_units:
                    # the hypotheses of C08_dynamic_comp_lookup hold, yet a statement-level node misses an access
                    dis['thm-dynamic'].append({'source': c.src, 'observation': [kind, nid, key, name]})
                run_fail(run, stats, 'executed node %s/%s actually %ss %r, which is not in its %s set'
                         % (nid, key, kind, name, 'read' if kind == 'read' else 'modified/deleted'),
                         dict(c.data(), observation=['dynamic', kind, nid, key, name]), cls)
                res['failed'].append(cls)
        if answers is None:
            continue
        # ---- (1) correspondence model <-> implementation
        if p.aliasing or p.unknown:
            stats['set_aside:literal_aliasing_or_unknown_node'] = stats.get('set_aside:literal_aliasing_or_unknown_node', 0) + 1
        else:
            run.evaluations += 1
            if a_act != p.impl.text():
                dis['activity'].append(first_difference(c.src, p.impl.text(), a_act))
            want = sexp([[x['id'], sorted(x['params']), sorted(x['bound']), sorted(x['globals']), sorted(x['nonlocals']),
                          sorted(x['locals']), sorted(x['free_vars']), sorted(x['frees'])]
                         for x in sorted(p.iclasses, key=lambda x: x['id'])])
            got = sexp(sorted(parse_sexp(a_cls), key=lambda x: int(x[0]))) if a_cls.startswith('(') and a_cls != '(crash)' else a_cls
            if want != got:
                dis['classes'].append({'source': c.src, 'implementation': want[:600], 'model': got[:600]})
        # ---- (2) correspondence specification <-> CPython
        if not p.is_async:
            run.evaluations += 1
            ser = p.ser
            spec_flat = c08_sym.spec_blocks(parse_sexp(a_spec), lambda i: ser.nodes[i].lineno)
            d = c08_sym.compare_blocks(p.sym_flat, spec_flat)
            if d:
                dis['spec-symtable'].append({'source': c.src, 'differences': d[:3]})
            if p.trace is not None:
                units = {(int(u[0]), u[1]): (set(u[2]), set(u[3])) for u in parse_sexp(a_units)}
                for kind, name, nid, key in p.trace.events:
                    if name in aside:
                        continue
                    u = units.get((p.ser.id_of(p.trace.nodes[nid]), key))
                    if u is None:
                        continue
                    if name not in (u[0] if kind == 'read' else u[1]):
                        dis['trace-in-spec-dynamic'].append({'source': c.src, 'node': p.ser.id_of(p.trace.nodes[nid]), 'key': key,
                                                             'kind': kind, 'name': name})
        if len(run.samples) < 4 and c.kind in ('chain', 'random') and nblocks >= 3 and len(c.src) < 500:
            run.sample({'source': c.src, 'symtable': [list(map(str, b[:3])) + [dict(b[3])] for b in p.sym_flat],
                        'deviation_classes_present': sorted(k for k in CLASSES if hyp.get(k))})
    return results, dis


def run_fail(run, stats, what, case, cls):
    k = 'failing:' + (cls or 'UNCLASSIFIED')
    stats[k] = stats.get(k, 0) + 1
    if stats[k] <= MAX_STORED_FAILS or cls is None:
        run.fail(what, case, cls)


def first_difference(src, impl_text, model_text):
    d = {'source': src}
    try:
        pe, po = parse_sexp(impl_text), parse_sexp(model_text)
        if pe and po and pe[0] != 'crash' and po[0] != 'crash':
            de = {(x[0], x[1]): x[2] for x in pe}
            do = {(x[0], x[1]): x[2] for x in po}
            for k in sorted(set(de) | set(do), key=lambda k: (int(k[0]), k[1])):
                if de.get(k) != do.get(k):
                    d.update({'node': k[0], 'key': k[1], 'implementation': de.get(k), 'model': do.get(k)})
                    return d
    except Exception:
        pass
    d.update({'implementation': impl_text[:400], 'model': model_text[:400]})
    return d


def all_differences(text_a, text_b):
    """All (node, key) pairs on which two annotation dumps differ ([] if either is not a dump)."""
    try:
        pa, pb = parse_sexp(text_a), parse_sexp(text_b)
        if (pa and pa[0] == 'crash') or (pb and pb[0] == 'crash'):
            return []
        da = {(x[0], x[1]): x[2] for x in pa}
        db = {(x[0], x[1]): x[2] for x in pb}
        return [k for k in sorted(set(da) | set(db), key=lambda k: (int(k[0]), k[1])) if da.get(k) != db.get(k)]
    except Exception:
        return []


def repo_correspondence(run, stats):
    """(1) on every function of /repo (syntactic corpus; not executed, not compared with symtable)."""
    lines, exp, meta, impls = [], [], [], []
    for rf in progen.repo_functions():
        node = c08_real.fresh(rf.node)
        if c08_real.literal_aliasing(node):
            stats['repo_set_aside'] = stats.get('repo_set_aside', 0) + 1
            continue
        im = c08_real.Impl(node)
        if c08_real.has_unknown(im.ser.sexp):
            stats['repo_set_aside'] = stats.get('repo_set_aside', 0) + 1
            continue
        if im.crash == 'handlerName':
            stats['repo_except_name_crash'] = stats.get('repo_except_name_crash', 0) + 1
        elif im.crash:
            run_fail(run, stats, 'the analysis raises on a repo function: %s' % im.crash,
                     {'source': ast.unparse(node), 'call': '', 'runnable': False, 'kind': 'repo', 'observation': ['crash', im.crash]},
                     'subscriptLiteralAssert' if im.crash == 'literalAssert' else None)
        run.case('repo:%s:%s' % (rf.path, rf.qualname), nontrivial=len(im.ser.nodes) > 12)
        t = im.ser.text()
        lines += ['c08.activity ' + t, 'c08.hyp ' + t, 'c08.frag ' + t, 'c08.outer ' + t]
        exp.append(im.text()); meta.append(ast.unparse(node)); impls.append(im)
    stats['repo_functions'] = len(exp)
    if not run.driver_ok:
        return None, []
    got = run.drive(lines)
    dis, tdis = [], {'thm-frees': [], 'outer-symtable': []}
    for k, (m, e, im) in enumerate(zip(meta, exp, impls)):
        g, a_hyp, a_frag, a_outer = got[4 * k: 4 * k + 4]
        run.evaluations += 1
        if e != g:
            dis.append(first_difference(m, e, g))
        # which theorems cover this repo function (hypotheses evaluated by the Lean driver)
        try:
            hyp = {kk: set(v) for kk, v in parse_sexp(a_hyp)}
        except Exception:
            hyp = {}
        fr = parse_frag(a_frag)
        for cl in CLASSES:
            if hyp.get(cl):
                stats['repo_class:' + cl] = stats.get('repo_class:' + cl, 0) + 1
        if fr[0]:
            stats['repo_in_FragS'] = stats.get('repo_in_FragS', 0) + 1
        if fr[4]:
            stats['repo_hypotheses_of_C08_compositional_comp_hold'] = stats.get('repo_hypotheses_of_C08_compositional_comp_hold', 0) + 1
        if fr[5] and fr[2]:
            stats['repo_hypotheses_of_C08_dynamic_comp_lookup_hold'] = stats.get('repo_hypotheses_of_C08_dynamic_comp_lookup_hold', 0) + 1
        if all(fr[:4]) and not hyp.get('harmfulLeaks'):
            stats['repo_hypotheses_of_C08_classes_partial_and_nested_hold'] = stats.get('repo_hypotheses_of_C08_classes_partial_and_nested_hold', 0) + 1
        holds = frees_hyp(fr, hyp)
        if holds:
            stats['repo_hypotheses_of_C08_frees_nested_hold'] = stats.get('repo_hypotheses_of_C08_frees_nested_hold', 0) + 1
        if not im.crash:
            frees_check(a_outer, c08_sym.impl_classes(im), None, im.ser, 0, holds, True, stats, 'repo_', m, tdis)
    return dis, tdis['thm-frees']


def reanalysis_slice(run, stats, cases, only=None):
    """Freshness / idempotence of the analysis on trees that carry annotations of an earlier run (see c08_reanalysis).
    `only`: (source, edit kind, seed) of a replayed failing input."""
    todo = []
    if only is not None:
        todo.append(only)
    else:
        n_gen, n_repo = (450, 300) if run.tier == 'quick' else (3000, 10 ** 9)
        srcs = [c.src for c in cases if c.kind in ('chain', 'random')]
        step = max(1, len(srcs) // n_gen)
        picked = srcs[run.seed % step::step][:n_gen]
        repo = [ast.unparse(rf.node) for rf in progen.repo_functions()]
        rstep = max(1, len(repo) // n_repo)
        picked += repo[run.seed % rstep::rstep][:n_repo]
        for k, src in enumerate(picked):
            todo.append((src, c08_reanalysis.EDITS[k % len(c08_reanalysis.EDITS)], run.seed * 100003 + k))
    results, lines = [], []
    for src, kind, seed in todo:
        try:
            body = ast.parse(src).body
        except SyntaxError:
            continue
        fns = [n for n in body if isinstance(n, ast.FunctionDef)]
        if not fns:
            continue
        with warnings.catch_warnings():
            warnings.simplefilter('ignore')
            r = c08_reanalysis.reanalyse(fns[-1], kind, seed)
        r.seed = seed
        if r.aside:
            stats['reanalysis_set_aside:' + r.aside.split(':')[0]] = stats.get('reanalysis_set_aside:' + r.aside.split(':')[0], 0) + 1
            continue
        stats['reanalysis_trees:' + kind] = stats.get('reanalysis_trees:' + kind, 0) + 1
        run.case('re:%s:%s' % (kind, hashlib.sha1((src + str(seed)).encode()).hexdigest()[:12]), nontrivial=bool(r.mapping))
        results.append(r)
        if r.model_comparable and run.driver_ok:
            lines.append('c08.activity ' + r.ser_text)
    answers = run.drive(lines) if (lines and run.driver_ok) else []
    dis, ai = [], 0
    for r in results:
        case = {'source': r.source, 'call': '', 'runnable': False, 'kind': 'reanalysis', 'edit': r.kind, 'seed': r.seed,
                'mapping': r.mapping}
        run.evaluations += 1
        if not r.idempotent:
            d = first_difference(r.source, r.first_text, r.second_text)
            run_fail(run, stats, 'analysing the same tree twice gives different results', dict(case, observation=['idempotence', d.get('node'), d.get('key')]), None)
            dis.append(dict(d, what='idempotence'))
        if r.re_text != r.fresh_text:
            diffs = all_differences(r.re_text, r.fresh_text)
            # known deviation class: the only stale annotations are the SCOPEs of lambda bodies
            # (visit_Lambda attaches SCOPE to the body only `if not anno.hasanno(...)`)
            cls = 'lambdaBodyStaleScope' if diffs and all(k == 'SCOPE' and n in r.lambda_body_ids for n, k in diffs) else None
            d = first_difference(r.edited_source, r.re_text, r.fresh_text)
            run_fail(run, stats, 'after the annotation-preserving edit %r (%s) the re-run analysis differs from the analysis of the '
                     'same program parsed afresh: node %s/%s' % (r.kind, r.mapping, d.get('node'), d.get('key')),
                     dict(case, edited_source=r.edited_source, observation=['stale-annotations', d.get('node'), d.get('key')]), cls)
            if cls is None:
                dis.append(dict(d, what='re-analysis vs fresh parse', edit=r.kind, mapping=r.mapping))
        if r.model_comparable and run.driver_ok:
            a = answers[ai]; ai += 1
            run.evaluations += 1
            if a != r.fresh_text:
                dis.append(dict(first_difference(r.edited_source, r.fresh_text, a), what='fresh analysis of the edited program vs model'))
            elif a != r.re_text and r.re_text == r.fresh_text:
                dis.append(dict(first_difference(r.edited_source, r.re_text, a), what='re-analysis vs model'))
    return dis


def check(run, only_case=None):
    run.rule = ('function trees: (a) bounded-exhaustive chains f > block > block (blocks: def, class, lambda, list/set/dict '
                'comprehension, generator expression) with one binding/using event on a contested name per block, from a list of '
                '%d statement-level, %d lambda-level and %d comprehension-level events (assign, read, global, nonlocal, parameter kinds, '
                'del, augmented/annotated assignment, for/with/import/def/class/walrus binding, attribute/subscript targets, decorators, '
                'defaults, annotations, class bases, methods, constructors); (b) seeded-random trees mixing all of these with control flow; '
                '(c) every FunctionDef of /repo (correspondence (1) only); programs rejected by CPython\'s compiler are dropped; '
                'a case is distinct by source text, non-trivial when it has more than one block or more than 12 AST nodes'
                % (len(c08_gen.STMT_EVENTS), len(c08_gen.LAMBDA_EVENTS), len(c08_gen.COMP_EVENTS)))
    run.assumptions += [
        'CPython 3.12 `symtable` reports list/set/dict comprehensions inlined into the enclosing block (PEP 709); the harness '
        'applies the same merge to the specification\'s output and leaves the merged comprehension\'s iteration variables out of '
        'the comparison for that block (generator expressions are compared exactly)',
        'the traced accesses are attributed to statements through `co_positions`; accesses to names that are iteration variables of a '
        'comprehension of the same function, handler names and dunder names are set aside, as the property does',
        'subscript literals that are == but spelled differently (1 / True / 1.0) are identified by qual_names and not by the model: '
        'such functions are set aside in correspondence (1)',
        'exec/eval/locals() dynamic binding, async constructs, match statements and type parameters are outside the modelled language',
    ]
    run.build_and_audit('MaltModel.Props.C08', model_files=MODEL_FILES)
    stats = {}
    workdir = tempfile.mkdtemp(prefix='c08_')
    try:
        if only_case is not None:
            cases, info = [only_case], {}
            corpus = []
        else:
            corpus = load_corpus()
            cases, info = gen_cases(run)
        run.cov.update(info)
        # corpus first: every listed witness must still fail in its class
        if corpus:
            res, dis0 = check_cases(run, corpus, workdir, 'corpus', stats)
            for r in res:
                exp_cls = getattr(r['case'], 'expect_class', None)
                if exp_cls and exp_cls != 'handlerName' and exp_cls not in r['failed']:
                    run.notes.append('corpus witness %s no longer fails in class %s' % (r['case'].name, exp_cls))
                if exp_cls == 'handlerName' and r['aside'] != 'handlerName':
                    run.notes.append('corpus witness %s: `except … as e` no longer crashes the analysis' % r['case'].name)
        else:
            dis0 = {}
        res, dis = check_cases(run, cases, workdir, 'generated', stats)
        for k, v in dis0.items():
            dis[k] = v + dis.get(k, [])
        rdis, rfrees = repo_correspondence(run, stats) if only_case is None else ([], [])
        redis = reanalysis_slice(run, stats, cases) if only_case is None else []
    finally:
        import shutil
        shutil.rmtree(workdir, ignore_errors=True)
    if run.driver_ok:
        run.oblige('correspondence:activity-annotations(generated)', 'correspondence', not dis['activity'], json.dumps(dis['activity'][:2]))
        run.oblige('correspondence:activity-annotations(repo)', 'correspondence', not rdis, json.dumps((rdis or [])[:2]))
        run.oblige('correspondence:per-function-classification', 'correspondence', not dis['classes'], json.dumps(dis['classes'][:2]))
        run.oblige('correspondence:Spec.Symtable=cpython-symtable', 'correspondence', not dis['spec-symtable'], json.dumps(dis['spec-symtable'][:2]))
        run.oblige('correspondence:cpython-trace-within-Spec.Dynamic', 'correspondence', not dis['trace-in-spec-dynamic'],
                   json.dumps(dis['trace-in-spec-dynamic'][:2]))
        # the theorems' conclusions must be observed on the real code wherever their hypotheses hold
        run.oblige('consistency:C08_classes_nested-on-real-code', 'correspondence', not dis['thm-classes'], json.dumps(dis['thm-classes'][:2]))
        run.oblige('consistency:C08_dynamic_comp_lookup-on-real-code', 'correspondence', not dis['thm-dynamic'], json.dumps(dis['thm-dynamic'][:2]))
        tf = dis['thm-frees'] + (rfrees or [])
        run.oblige('consistency:C08_frees_nested-on-real-code', 'correspondence', not tf, json.dumps(tf[:2]))
        run.oblige('correspondence:re-analysis-after-annotation-preserving-edits', 'correspondence', not redis, json.dumps(redis[:2]))
        run.oblige('correspondence:Spec.outerB=cpython-free-variables', 'correspondence', not dis['outer-symtable'],
                   json.dumps(dis['outer-symtable'][:2]))
    else:
        run.oblige('correspondence:c08', 'correspondence', False, 'driver unavailable')
    run.cov['stats'] = dict(sorted(stats.items()))
    run.cov['exhaustive'] = bool(run.cov.get('chain_exhaustive'))
    run.cov['search'] = ('direct oracle on %d generated function trees (%d functions compared with symtable, %d traced programs, '
                         '%d traced variable accesses checked) + crash check on %d repo functions'
                         % (len(res), stats.get('functions_vs_symtable', 0), stats.get('traced_programs', 0),
                            stats.get('traced_accesses_checked', 0), stats.get('repo_functions', 0)))


def replay(run, path):
    with open(path) as f:
        rep = json.load(f)
    print(json.dumps(rep, indent=1))
    c = rep.get('case') or {}
    if 'source' not in c:
        check(run)
        return run.finish()
    if c.get('kind') == 'reanalysis':
        run.build_and_audit('MaltModel.Props.C08', model_files=MODEL_FILES)
        stats = {}
        redis = reanalysis_slice(run, stats, [], only=(c['source'], c.get('edit', 'rename'), int(c.get('seed', 0))))
        run.oblige('correspondence:re-analysis-after-annotation-preserving-edits', 'correspondence', not redis, json.dumps(redis[:2]))
        run.cov['stats'] = stats
        return run.finish()
    check(run, only_case=Case(c['source'], c.get('call', ''), bool(c.get('runnable')), 'replay'))
    return run.finish()
