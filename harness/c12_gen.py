"""C12 program generator: modules with ONE failing statement.

A case is a module text (one statement per source line) defining a call chain f1 -> f2 -> ... -> fd
(d <= 4).  f1 is the entry point handed to `malt.convert(recursive=True, optional_features=None)`.
Each f_i reaches f_{i+1} through a *link* (direct converted call, functools.partial, lambda,
comprehension, do_not_convert callee, builtin calling back: map / sorted / max(key=)), the *site*
statement (the call in a non-leaf function, the failing statement in the leaf) comes in several
statement *forms* (assignment, augmented assignment, expression statement, return, if/while/for header,
operand of and/or, arm of a conditional expression, call argument, comprehension element) and is placed
inside up to 3 nested *contexts* (if/else/elif bodies, while/for bodies with break/continue/early return
around it, try/except/finally bodies, with bodies, after loops, after an early-return guard, nested
function bodies) surrounded by filler statements.

Everything is derived from one `random.Random`; `build(spec)` is a pure function of the JSON-able spec,
so a case replays from its recorded spec (or from its recorded source text) alone.
"""
import random

# ------------------------------------------------------------------------------------------------
# exception kinds of the ONE failing statement
# ------------------------------------------------------------------------------------------------
# kind -> (mode, text, setup lines)   mode 'raise': text is a complete statement;
#                                     mode 'expr' : text is an expression that raises when evaluated
RAISE_KINDS = {
    'raise-ValueError':   "raise ValueError('bad value %d' % x)",
    'raise-KeyError':     "raise KeyError('key%d' % x)",
    'raise-IndexError':   "raise IndexError('idx out of range')",
    'raise-TypeError':    "raise TypeError('wrong type')",
    'raise-RuntimeError': "raise RuntimeError('two\\nlines')",
    'raise-NotImplementedError': "raise NotImplementedError('todo')",
    'raise-AssertionError': "assert x < -1000, 'assertion message'",
    'raise-ZeroDivisionError': "raise ZeroDivisionError('explicit zero')",
    'raise-OSError':      "raise OSError('os failure')",
    'raise-LookupError':  "raise LookupError('lookup')",
    'raise-Exception':    "raise Exception('plain exception')",
    'raise-bare-class':   "raise ValueError",
    'raise-U':            "raise U('user message %d' % x)",       # plain user class
    'raise-U-noargs':     "raise U",
    'raise-U-2args':      "raise U('two', x)",
    'raise-Usub':         "raise Usub('sub of plain')",            # subclass of a plain user class
    'raise-U2':           "raise U2('custom ctor', x)",            # custom constructor, extra ctor arg
    'raise-U3':           "raise U3('inherits custom', x)",        # inherits the custom constructor
    'raise-U4':           "raise U4('own init, one arg')",         # own __init__ taking a single message
    'raise-W':            "raise W('builtin-derived')",            # class W(ValueError): pass
    'raise-WK':           "raise WK('keyerror-derived')",          # class WK(KeyError): pass
    'raise-Udoc':         "raise Udoc('only a docstring')",        # class with docstring, no pass
    'raise-from':         "raise ValueError('outer cause') from KeyError('inner cause')",
    'raise-from-None':    "raise U('no context') from None",
    # builtins whose constructors take several arguments
    'raise-UnicodeDecodeError': "raise UnicodeDecodeError('utf-8', b'\\xff', 0, 1, 'invalid start byte %d' % x)",
    'raise-OSError-errno': "raise OSError(2, 'no such thing %d' % x)",
    'raise-FileNotFoundError': "raise FileNotFoundError(2, 'missing file', 'name%d' % x)",
    'raise-UnicodeEncodeError': "raise UnicodeEncodeError('ascii', 'x\\xe9', 1, 2, 'ordinal not in range')",
    'raise-SyntaxError': "raise SyntaxError('bad syntax', ('f.py', x, 1, 'text'))",
}
# user classes with constructors of their own, deriving from EACH listed builtin, KeyError and some non-listed builtins:
# Q<Base>0: __init__(self)   Q<Base>2: __init__(self, code, detail)   Q<Base>K: __init__(self, *, detail)
CTOR_BASES = ['AssertionError', 'AttributeError', 'NameError', 'NotImplementedError', 'RuntimeError', 'StopIteration', 'TypeError',
              'UnboundLocalError', 'ValueError', 'KeyError', 'ZeroDivisionError', 'OSError', 'LookupError', 'Exception', 'UnicodeDecodeError']
CTOR_CLASSES = []
_CTOR_SRC = []
for _b in CTOR_BASES:
    if _b == 'UnicodeDecodeError':
        CTOR_CLASSES.append('QUnicodeDecodeErrorS')
        _CTOR_SRC.append("class QUnicodeDecodeErrorS(UnicodeDecodeError):\n    pass\n")
        RAISE_KINDS['raise-QUnicodeDecodeErrorS'] = "raise QUnicodeDecodeErrorS('utf-8', b'\\xff', 0, 1, 'subclass %d' % x)"
        continue
    _CTOR_SRC.append("class Q%s0(%s):\n    def __init__(self):\n        super().__init__('fixed message of Q%s0')\n" % (_b, _b, _b))
    _CTOR_SRC.append("class Q%s2(%s):\n    def __init__(self, code, detail):\n        super().__init__('%%s: %%s' %% (code, detail))\n        self.code = code\n" % (_b, _b))
    _CTOR_SRC.append("class Q%sK(%s):\n    def __init__(self, *, detail):\n        super().__init__(detail)\n        self.detail = detail\n" % (_b, _b))
    CTOR_CLASSES += ['Q%s0' % _b, 'Q%s2' % _b, 'Q%sK' % _b]
    RAISE_KINDS['raise-Q%s0' % _b] = "raise Q%s0()" % _b
    RAISE_KINDS['raise-Q%s2' % _b] = "raise Q%s2(x, 'quota detail %%d' %% x)" % _b
    RAISE_KINDS['raise-Q%sK' % _b] = "raise Q%sK(detail='keyword detail %%d' %% x)" % _b
EXPR_KINDS_EXTRA = {
    'UnicodeDecodeError-decode': ("b'\\xff\\xfe'.decode('utf-8')", []),
    'UnicodeEncodeError-encode': ("'caf\\xe9'.encode('ascii')", []),
    'FileNotFoundError-open': ("open('/nonexistent-c12/file%d' % x)", []),
    'JSONDecodeError-like-ValueError': ("int('12x', 10)", []),
}
# failing statements that span several lines (compound statements whose one failing part is marked)
BLOCK_KINDS = {
    'reraise-bare':   ['try:', '    y = 1 // (x - x)', 'except ZeroDivisionError:', '    raise'],
    'raise-in-except': ['try:', '    y = 1 // (x - x)', 'except ZeroDivisionError:', "    raise U('while handling')"],
    'raise-in-finally': ['try:', '    y = x + 1', 'finally:', "    raise RuntimeError('in finally')"],
    'enter-raises':   ['with BadEnter():', '    y = 1'],
    'exit-raises':    ['with BadExit():', '    y = 1'],
    'getitem-raises': ['y = BoomIdx()[x]'],
    'iter-raises':    ['for e%(uid)s in BoomIter():', '    y += 1'],
    'getattr-raises': ['y = BoomAttr().anything'],
    'call-object-raises': ['y = BoomCall()(x)'],
    'str-format-raises': ["y = '%%d' %% 'not a number'"],
    'unpack-raises':  ['y, z = [x]'],
    'del-raises':     ['d%(uid)s = {}', 'del d%(uid)s[x]'],
    'setitem-raises': ['t%(uid)s = (x, x)', 't%(uid)s[0] = x'],
    'augassign-raises': ["y += 'text'"],
    'global-missing': ['y = missing_global_%(uid)s + x'],
}
EXPR_KINDS = {
    'ZeroDivisionError':  ("1 // (x - x)", []),
    'ZeroDivisionError-mod': ("x % 0", []),
    'KeyError':           ("{1: 2}[x + 50]", []),
    'KeyError-str':       ("{'a': 1}['missing']", []),
    'IndexError':         ("[1, 2][x + 7]", []),
    'IndexError-pop':     ("[].pop()", []),
    'TypeError':          ("x + 'a'", []),
    'TypeError-call':     ("x(1)", []),
    'TypeError-len':      ("len(x)", []),
    'AttributeError':     ("x.nope", []),
    'AttributeError-call': ("x.nope()", []),
    'ValueError-int':     ("int('zz')", []),
    'TypeError-argcount': ("divmod(x)", []),   # raised at the call itself: no frame below the call site
    'NameError':          ("undefined_name_q", []),
    'StopIteration':      ("next(iter([]))", []),
    'UnboundLocalError':  ("u_%(uid)s", ["if x > 1000:", "    u_%(uid)s = 1"]),
    'OverflowError':      ("2.0 ** 100000", []),
    'TypeError-abs':      ("abs('s')", []),
    'ZeroDivisionError-in-lambda': ("h_%(uid)s(x)", ["h_%(uid)s = lambda v: 1 // (v - v)"]),
}

# statement forms; %(E)s is the failing/calling expression.  'hdr-*' are compound statements whose
# header fails (their body is a filler).  Forms marked call_only need E to be a call-like expression.
FORMS = ['assign', 'augassign', 'expr', 'return', 'hdr-if', 'hdr-while', 'hdr-for', 'and', 'or', 'ifexp',
         'callarg', 'listcomp', 'binop', 'tuple-assign', 'subscript-store', 'hdr-elif', 'not', 'compare', 'with-item']

LINKS = ['direct', 'direct', 'direct', 'partial', 'lambda', 'listcomp-call', 'dnc', 'map', 'sorted', 'maxkey',
         'nested-call', 'method', 'kwargs', 'starargs', 'callable-object', 'staticmethod', 'partial-kw', 'filter', 'dictcomp-call',
         'wrapped', 'wrapped', 'wrapped', 'wrapped-nonrec']
# links kept out of the uniform pool (drawn with a small probability): they exercise the shapes on which
# the pinned code deviates (known findings): a lambda bound on its own line, a function calling itself
EXTRA_LINKS = ['lambda-var', 'self-rec', 'tograph', 'decorated']
# the callee is separately converted: wrapped with its own malt.convert (recursive / non-recursive), or a to_graph output
WRAP_LINKS = ('wrapped', 'wrapped-nonrec', 'tograph')
# links after which the callee (and everything below) runs unconverted
UNCONVERTED_LINKS = {'dnc', 'map', 'sorted', 'maxkey', 'filter'}

CONTEXTS = ['plain', 'if', 'else', 'elif', 'while', 'while-continue', 'while-break', 'for', 'for-continue',
            'for-break', 'for-list', 'try-finally', 'try-except', 'except', 'finally', 'with', 'with-as',
            'after-for', 'after-while', 'after-if', 'after-return-guard', 'def', 'if-return-after',
            'try-else', 'for-return', 'while-return']

PRELUDE = '''import functools
import malt


class U(Exception):
    pass


class Usub(U):
    pass


class Udoc(Exception):
    """A user exception with only a docstring."""


class U2(Exception):
    def __init__(self, a, b):
        super().__init__(a)
        self.b = b


class U3(U2):
    pass


class U4(Exception):
    def __init__(self, msg):
        super().__init__(msg)


class W(ValueError):
    pass


class WK(KeyError):
    pass


class Never(Exception):
    pass


def deco_@TAG@(fn):
    @functools.wraps(fn)
    def wrapinner_@TAG@(x):
        t = x + 0
        return fn(x)
    return wrapinner_@TAG@


@CTOR@

class CM:
    def __init__(self, v=0):
        self.v = v

    def __enter__(self):
        return self

    def __exit__(self, *exc):
        return False


class BadEnter:
    def __enter__(self):
        raise ValueError('enter failed')

    def __exit__(self, *exc):
        return False


class BadExit:
    def __enter__(self):
        return self

    def __exit__(self, *exc):
        raise RuntimeError('exit failed')


class BoomIdx:
    def __getitem__(self, k):
        raise IndexError('custom getitem %r' % (k,))


class BoomIter:
    def __iter__(self):
        return self

    def __next__(self):
        raise RuntimeError('iteration failed')


class BoomAttr:
    def __getattr__(self, name):
        raise AttributeError('no attribute %s here' % name)


class BoomCall:
    def __call__(self, v):
        tag_ = '@TAG@'
        raise TypeError('called with %r' % (v,))


class Obj:
    def __init__(self, fn):
        self.fn = fn

    def call(self, x):
        return self.fn(x)

    def __call__(self, x):
        tag_ = '@TAG@'
        return self.fn(x)

    @staticmethod
    def scall(fn, x):
        return fn(x)

'''


PRELUDE = PRELUDE.replace('@CTOR@\n', '\n\n'.join(_CTOR_SRC) + '\n')
EXPR_KINDS.update(EXPR_KINDS_EXTRA)


class _Ids:
    def __init__(self):
        self.n = 0

    def new(self):
        self.n += 1
        return self.n


def _filler(rng, ids, ind):
    """A few harmless statements (one per line)."""
    k = ids.new()
    choice = rng.randrange(9)
    p = ' ' * ind
    if choice == 0:
        return [p + 't%d = x + %d' % (k, k)]
    if choice == 1:
        return [p + 't%d = x * 2' % k, p + 't%d += %d' % (k, k)]
    if choice == 2:
        return [p + 't%d = [x, %d]' % (k, k), p + 't%d.append(x)' % k]
    if choice == 3:
        return [p + 'if x > %d:' % (100 + k), p + '    t%d = 0' % k]
    if choice == 4:
        return [p + 't%d = 0' % k, p + 'for q%d in range(2):' % k, p + '    t%d += q%d' % (k, k)]
    if choice == 5:
        return [p + 't%d = 0' % k, p + 'while t%d < 2:' % k, p + '    t%d += 1' % k]
    if choice == 6:
        return [p + 't%d = (x, %d)' % (k, k)]
    if choice == 7:
        return [p + 't%d = abs(x) + len([x])' % k]
    return [p + 'pass']


def _indent(lines, n=4):
    return [' ' * n + l for l in lines]


def _wrap(rng, ids, ctx, inner, with_fillers):
    """Embed `inner` (list of lines at indentation 0) in context `ctx`; result at indentation 0.
    Returns (lines, extra) where extra lists contexts that add a stack frame (nested defs)."""
    k = ids.new()
    pre = _filler(rng, ids, 0) if with_fillers and rng.random() < 0.6 else []
    post = _filler(rng, ids, 0) if with_fillers and rng.random() < 0.5 else []
    fill = lambda: _filler(rng, ids, 4)
    body = _indent(inner)
    if ctx == 'plain':
        out = inner
    elif ctx == 'if':
        out = ['if x > -%d:' % (5 + k)] + body + (['else:'] + fill() if rng.random() < 0.5 else [])
    elif ctx == 'else':
        out = ['if x < -%d:' % (5 + k)] + fill() + ['else:'] + body
    elif ctx == 'elif':
        out = ['if x < -%d:' % (5 + k)] + fill() + ['elif x > -%d:' % (7 + k)] + body + (['else:'] + fill() if rng.random() < 0.5 else [])
    elif ctx == 'while':
        out = ['i%d = 0' % k, 'while i%d < 3:' % k, '    i%d += 1' % k] + body
    elif ctx == 'while-continue':
        out = ['i%d = 0' % k, 'while i%d < 3:' % k, '    i%d += 1' % k, '    if i%d == 1:' % k, '        continue'] + body
    elif ctx == 'while-break':
        out = ['i%d = 0' % k, 'while i%d < 3:' % k, '    i%d += 1' % k, '    if i%d > 5:' % k, '        break'] + body
    elif ctx == 'while-return':
        out = ['i%d = 0' % k, 'while i%d < 3:' % k, '    i%d += 1' % k, '    if i%d > 5:' % k, '        return i%d' % k] + body
    elif ctx == 'for':
        out = ['for j%d in range(3):' % k] + body
    elif ctx == 'for-continue':
        out = ['for j%d in range(3):' % k, '    if j%d == 0:' % k, '        continue'] + body
    elif ctx == 'for-break':
        out = ['for j%d in range(3):' % k, '    if j%d > 5:' % k, '        break'] + body + fill()
    elif ctx == 'for-return':
        out = ['for j%d in range(3):' % k, '    if j%d > 5:' % k, '        return j%d' % k] + body
    elif ctx == 'for-list':
        out = ['for j%d, k%d in [(x, 1), (x, 2)]:' % (k, k)] + body
    elif ctx == 'try-finally':
        out = ['try:'] + body + ['finally:'] + fill()
    elif ctx == 'try-except':
        out = ['try:'] + body + ['except Never:'] + fill()
    elif ctx == 'try-else':
        out = ['try:'] + fill() + ['except Never:'] + fill() + ['else:'] + body
    elif ctx == 'except':
        out = ['try:', "    raise Never('handled')", 'except Never:'] + body
    elif ctx == 'finally':
        out = ['try:'] + fill() + ['finally:'] + body
    elif ctx == 'with':
        out = ['with CM():'] + body
    elif ctx == 'with-as':
        out = ['with CM(x) as c%d:' % k] + body
    elif ctx == 'after-for':
        out = ['for j%d in range(2):' % k] + fill() + inner
    elif ctx == 'after-while':
        out = ['i%d = 0' % k, 'while i%d < 2:' % k, '    i%d += 1' % k, '    if i%d > 7:' % k, '        break'] + inner
    elif ctx == 'after-if':
        out = ['if x > %d:' % (100 + k)] + fill() + ['else:'] + fill() + inner
    elif ctx == 'after-return-guard':
        out = ['if x < -%d:' % (100 + k), '    return -%d' % k] + inner
    elif ctx == 'if-return-after':
        out = ['if x > -%d:' % (5 + k)] + body + ['    return x'] + fill()[:0] + ['return -%d' % k]
    elif ctx == 'def':
        out = ['def inner%d(x):' % k] + body + ['    return x', 'r%d = inner%d(x)' % (k, k)]
    else:
        raise ValueError(ctx)
    return pre + out + post


def _site(rng, ids, form, E, call_like):
    """Lines (indentation 0) of the site statement evaluating expression E in the given form."""
    k = ids.new()
    fill = lambda: _filler(rng, ids, 4)
    if form == 'assign':
        return ['y = ' + E]
    if form == 'augassign':
        return ['y += ' + E]
    if form == 'expr':
        return [E]
    if form == 'return':
        return ['return ' + E]
    if form == 'hdr-if':
        return ['if %s:' % E] + fill()
    if form == 'hdr-elif':
        return ['if x < -%d:' % (50 + k)] + fill() + ['elif %s:' % E] + fill()
    if form == 'hdr-while':
        return ['while %s:' % E, '    break']
    if form == 'hdr-for':
        return ['for e%d in %s:' % (k, E)] + fill()
    if form == 'and':
        return ['y = x > -%d and %s' % (9 + k, E)]
    if form == 'or':
        return ['y = x < -%d or %s' % (9 + k, E)]
    if form == 'not':
        return ['y = not %s' % E]
    if form == 'compare':
        return ['y = %s == x' % E]
    if form == 'ifexp':
        return ['y = %s if x > -%d else 0' % (E, 9 + k)]
    if form == 'callarg':
        return ['y = abs(%s)' % E]
    if form == 'listcomp':
        return ['y = [%s for e%d in [x]]' % (E, k)]
    if form == 'binop':
        return ['y = x + %s' % E]
    if form == 'tuple-assign':
        return ['y, z = %s, x' % E]
    if form == 'subscript-store':
        return ['d%d = {}' % k, 'd%d[x] = %s' % (k, E)]
    if form == 'with-item':
        return ['with CM(%s):' % E] + fill()
    raise ValueError(form)


def _call_expr(link, callee):
    if link in WRAP_LINKS:
        return 'LNK%s(x)' % callee[1:]
    if link in ('direct', 'dnc', 'nested-call', 'self-rec', 'decorated'):
        return '%s(x)' % callee
    if link == 'partial':
        return 'functools.partial(%s, x)()' % callee
    if link == 'lambda':
        return '(lambda v: %s(v))(x)' % callee
    if link == 'listcomp-call':
        return '[%s(v) for v in [x]][0]' % callee
    if link == 'map':
        return 'list(map(%s, [x]))' % callee
    if link == 'sorted':
        return 'sorted([x, x + 1], key=%s)' % callee
    if link == 'maxkey':
        return 'max([x, x + 1], key=%s)' % callee
    if link == 'method':
        return 'Obj(%s).call(x)' % callee
    if link == 'kwargs':
        return '%s(x=x)' % callee
    if link == 'starargs':
        return '%s(*[x])' % callee
    if link == 'callable-object':
        return 'Obj(%s)(x)' % callee
    if link == 'staticmethod':
        return 'Obj.scall(%s, x)' % callee
    if link == 'partial-kw':
        return 'functools.partial(%s, x=x)()' % callee
    if link == 'filter':
        return 'list(filter(%s, [x]))' % callee
    if link == 'dictcomp-call':
        return '{v: %s(v) for v in [x]}[x]' % callee
    raise ValueError(link)


def random_spec(rng, tier='quick'):
    depth = rng.choice([1, 1, 2, 2, 3, 3, 4])
    fns = []
    for i in range(depth):
        leaf = i == depth - 1
        nctx = rng.choice([0, 1, 1, 2, 2, 3])
        fn = {'contexts': [rng.choice(CONTEXTS) for _ in range(nctx)],
              'fillers': rng.random() < 0.8,
              'sub': rng.randrange(1 << 30)}
        if leaf:
            r = rng.random()
            if r < 0.12:
                fn['kind'] = rng.choice(sorted(BLOCK_KINDS))
                fn['form'] = 'block'
            elif r < 0.5:
                fn['kind'] = rng.choice(sorted(RAISE_KINDS))
                fn['form'] = 'stmt'
            else:
                fn['kind'] = rng.choice(sorted(EXPR_KINDS))
                fn['form'] = rng.choice(FORMS)
        else:
            fn['link'] = rng.choice(EXTRA_LINKS) if rng.random() < 0.06 else rng.choice(LINKS)
            fn['form'] = rng.choice(FORMS)
            if rng.random() < 0.12:
                fn['translate'] = random_translate(rng)
        fns.append(fn)
    spec = {'fns': fns, 'x': rng.choice([1, 2, 3, 4]), 'recursive': rng.random() >= 0.1}
    if rng.random() < 0.3:
        spec['files'] = random_files(rng, depth)
    return spec


# file names for the user modules: malt's own module base names (in other directories, with other extensions), names that
# look like generated modules, names with spaces / non-ASCII characters
FILE_NAMES = ['api.py', 'conversion.py', 'converter.py', 'error_utils.py', 'origin_info.py', 'function_wrappers.py', 'py_builtins.py',
              'control_flow.py', 'impl/api.py', 'malt/impl/api.py', 'malt/pyct/error_utils.py', 'operators/control_flow.py',
              'api.pyw', 'api.txt', 'api', 'API.py', 'api.py.bak', 'error_utils.pyx', '__autograph_generated_file_user.py',
              '__autograph_generated_fileab12cd34.py', 'x__autograph_generated_file.py', 'my module.py', 'dir with space/mod one.py',
              'm\u00f6dule_\u00fc.py', '\u043c\u043e\u0434\u0443\u043b\u044c.py', 'transformer.py', 'loader.py', 'templates.py',
              'ag_logging.py', 'variables.py', '__init__.py', 'pkg/__init__.py']


# raise statements a translating link may use (plain `raise T(...)` statements only)
TRANSLATE_KINDS = sorted(k for k, v in RAISE_KINDS.items() if v.startswith('raise ') and ' from ' not in v and '(' in v)
TRANSLATE_MODES = ['plain', 'plain', 'from-none', 'from-other', 'finally']


def random_translate(rng, catch=None):
    return {'mode': rng.choice(TRANSLATE_MODES), 'kind': rng.choice(TRANSLATE_KINDS), 'catch': catch or 'Exception'}


def random_files(rng, depth):
    entry = rng.choice(FILE_NAMES)
    out = {'entry': entry}
    if depth >= 2 and rng.random() < 0.6:
        helper = rng.choice(FILE_NAMES)
        if helper == entry:
            helper = 'sub/' + helper          # same base name, another directory
        out['helper'] = helper
        out['split'] = rng.randrange(1, depth)
    return out


def build(spec, tag=''):
    """spec -> dict(src, entry, args, fn_conv) ; pure.  `tag` is appended to every function / method name
    of the module: malt's conversion cache is keyed by code-object *equality*, which ignores the file
    name, so textually identical functions of two different case modules would share one conversion
    (that confusion belongs to C10, not to this property)."""
    fns = spec['fns']
    T = ('_' + tag) if tag else ''
    d = len(fns)
    defs = []          # text blocks, callee first
    conv = True        # is f_i run converted?
    fn_conv = {}
    # unit[i] = index of the conversion unit function f_i belongs to; nested defs belong to their parent
    decorators = {}
    recursive = set()
    rec_opt = spec.get('recursive', True)
    cur_rec = rec_opt      # recursive flag of the wrapper in whose dynamic extent f_i runs
    disabled = False       # below a do_not_convert callee every converted_call runs its target as is
    deco_at = None
    wraps = []             # [global name, function name, how the harness rebinds it for the converted run]
    for i, fn in enumerate(fns):
        name = 'f%d%s' % (i + 1, T)
        fn_conv[name] = conv
        nxt = conv and cur_rec          # a converted caller converts its callees only in recursive mode
        if i + 1 < d:
            link = fn['link']
            if link == 'dnc':
                decorators['f%d%s' % (i + 2, T)] = '@malt.experimental.do_not_convert'
            if link == 'decorated' and not any(v.startswith('@deco_') for v in decorators.values()):
                # the callee is wrapped by a user decorator built with functools.wraps: the wrapper closure carries __wrapped__
                decorators['f%d%s' % (i + 2, T)] = '@deco_%s' % (tag or 'untagged')
                deco_at = i
            if link == 'self-rec':
                recursive.add('f%d%s' % (i + 2, T))
            if link in UNCONVERTED_LINKS or (fn['form'] == 'with-item' and link not in ('nested-call', 'lambda-var')):
                # call_trees leaves the expressions in `with` items alone: the callee runs unconverted — unless the item
                # calls a nested def / lambda defined OUTSIDE the item, whose body was converted in place
                nxt = False
            if link == 'dnc':
                disabled = True
            if link in WRAP_LINKS:
                # the callee is bound to a module global which the harness rebinds, for the converted run only, to a
                # separately converted version of it: its own malt.convert wrapper (recursive or not) or a to_graph output
                wraps.append(['LNK%d%s' % (i + 2, T), 'f%d%s' % (i + 2, T), link])
                if link == 'tograph':
                    nxt, cur_rec = True, not disabled        # already generated code; its callees go through converted_call
                elif not disabled:
                    nxt, cur_rec = True, link != 'wrapped-nonrec'
        if i + 1 < d and decorators.get('f%d%s' % (i + 2, T), '').startswith('@deco_') and fn['link'] == 'decorated' and deco_at == i:
            fn_conv['wrapinner_%s' % (tag or 'untagged')] = nxt
        conv = nxt
    # what the leaf's own callees (helper objects of the failing statement, e.g. BoomCall.__call__) run as
    fn_conv['*below-leaf*'] = conv
    for i in reversed(range(d)):
        fn = fns[i]
        name = 'f%d%s' % (i + 1, T)
        rng = random.Random(fn['sub'])
        ids = _Ids()
        ids.n = 10 * (i + 1)
        leaf = i == d - 1
        setup = []
        if leaf:
            if fn['form'] == 'stmt':
                site = [RAISE_KINDS[fn['kind']]]
            elif fn['form'] == 'block':
                uid = ids.new()
                site = [l % {'uid': uid} for l in BLOCK_KINDS[fn['kind']]]
            else:
                E, setup = EXPR_KINDS[fn['kind']]
                uid = ids.new()
                E = E % {'uid': uid} if '%(' in E else E
                setup = [s % {'uid': uid} for s in setup]
                site = _site(rng, ids, fn['form'], E, False)
        else:
            callee = 'f%d%s' % (i + 2, T)
            link = fn['link']
            if link == 'nested-call':
                # the callee is reached through a nested function defined in this one
                setup = ['def helper%d%s(x):' % (i + 1, T), '    return %s(x)' % callee]
                E = 'helper%d%s(x)' % (i + 1, T)
            elif link == 'lambda-var':
                setup = ['g%d%s = lambda v: %s(v)' % (i + 1, T, callee)]
                E = 'g%d%s(x)' % (i + 1, T)
            else:
                E = _call_expr(link, callee)
            site = _site(rng, ids, fn['form'], E, True)
            tr = fn.get('translate')
            if tr:
                # the exception-translation pattern: this link CATCHES the failure of the chain below it and raises a
                # different exception (no `as`: the pinned tree cannot convert `except X as e`)
                stmt = RAISE_KINDS[tr['kind']]
                if tr['mode'] == 'from-none':
                    stmt += ' from None'
                elif tr['mode'] == 'from-other':
                    stmt += " from LookupError('another cause %d' % x)"
                if tr['mode'] == 'finally':
                    site = ['try:'] + _indent(site) + ['finally:', '    ' + stmt]
                else:
                    site = ['try:'] + _indent(site) + ['except %s:' % tr.get('catch', 'Exception'), '    ' + stmt]
        lines = setup + site
        for ctx in reversed(fn['contexts']):
            lines = _wrap(rng, ids, ctx, lines, fn['fillers'])
        head = []
        if name in decorators:
            head.append(decorators[name])
        if name in recursive:
            head.append('def %s(x, n=1):' % name)
            body = ['if n > 0:', '    return %s(x, n - 1)' % name, 'y = 0', 'z = 0'] + lines + ['return y']
        else:
            head.append('def %s(x):' % name)
            body = ['y = 0', 'z = 0'] + lines + ['return y']
        defs.append('\n'.join(head + _indent(body)) + '\n')
    files = spec.get('files') or {}
    split = None
    if files.get('helper') and d >= 2:
        # the chain is split across two user modules: f_1..f_k stay in the entry module, f_{k+1}..f_d go to the helper -
        # only where everything from f_{k+1} down runs UNCONVERTED (no conversion, no source map involves the helper file)
        k = min(max(int(files.get('split', 1)), 1), d - 1)
        below = ['f%d%s' % (j + 1, T) for j in range(k, d)]
        ok = all(not fn_conv[n] for n in below) and not fn_conv['*below-leaf*'] and not any(f in below for _, f, _ in wraps) \
            and not any(fns[j].get('link') in ('nested-call', 'lambda-var', 'decorated', 'self-rec') for j in range(k - 1, d - 1))
        if ok:
            split = k
    pre = PRELUDE.replace('@TAG@', tag or 'untagged')
    helper_src = None
    if split is None:
        src = pre + '\n\n'.join(defs)
    else:
        # defs is callee-first: defs[0] = f_d ... defs[d-1] = f_1
        helper_src = pre + '\n\n'.join(defs[:d - split])
        src = pre + '\n\n'.join(defs[d - split:])
    if wraps:
        src += '\n\n' + '\n'.join('%s = %s' % (g, f) for g, f, _ in wraps) + '\n'
    if T:
        for m in ('call', 'scall'):
            if helper_src is not None:
                helper_src = helper_src.replace('def %s(' % m, 'def %s%s(' % (m, T)).replace('.%s(' % m, '.%s%s(' % (m, T))
            src = src.replace('def %s(' % m, 'def %s%s(' % (m, T)).replace('.%s(' % m, '.%s%s(' % (m, T))
    out = {'src': src, 'recursive': rec_opt, 'wraps': wraps, 'entry': 'f1' + T, 'args': [spec['x']], 'fn_conv': fn_conv,
           'entry_file': files.get('entry')}
    if helper_src is not None:
        out.update({'helper_src': helper_src, 'helper_file': files['helper'], 'helper_names': ['f%d%s' % (split + 1, T)]})
    return out


def describe(spec):
    parts = []
    for fn in spec['fns']:
        tr = fn.get('translate')
        parts.append('%s/%s/%s%s' % (fn.get('link', fn.get('kind')), fn['form'], '+'.join(fn['contexts']) or '-',
                                     (' {catches %s, %s %s}' % (tr.get('catch', 'Exception'), tr['mode'], tr['kind'])) if tr else ''))
    fl = spec.get('files')
    ftxt = '' if not fl else '[files %s%s] ' % (fl['entry'], (' | %s @%s' % (fl['helper'], fl.get('split'))) if fl.get('helper') else '')
    return ftxt + ('' if spec.get('recursive', True) else 'nonrecursive: ') + ' -> '.join(parts)
