"""C17 helper: capture of real `templates.replace` / `replace_as_expression` calls, serialisation of bindings and
results WITH node identity, and the generated template/binding stream covering every placeholder position kind.

Identity protocol (what "label" means on the wire):
  * the nodes of all bindings of one call are numbered 1..N in one preorder walk (harness/pyast.Ser) — the number IS the
    identity of the real object;
  * a node of the real result that is (by `id()`) one of those objects keeps that number; every other node of the
    result is numbered N+1, N+2, .. in preorder of first occurrence; a node object met twice keeps its first number;
  * the model's labels >= N+1 are renumbered the same way (`canon_labels`) before comparing.  So the comparison sees
    structure, every ctx, which nodes are shared with the input and which occur twice — and nothing else.
"""
import ast, contextlib, os, sys

import common
import pyast
from common import sexp

_CTXN = {ast.Load: 'Load', ast.Store: 'Store', ast.Del: 'Del'}
_NODE_HEADS_LOWER = ('keyword', 'comprehension', 'arguments', 'arg', 'withitem')


class BindSer(pyast.Ser):
    """Serialiser for bindings: a ctx that is unset (str / QN shorthand: `None` or qual_names.CallerMustSetThis) is
    sent as `Load` and counted."""

    def __init__(self):
        pyast.Ser.__init__(self, None)
        self.unset_ctx = 0

    def ctx(self, node):
        c = _CTXN.get(type(node.ctx))
        if c is None:
            self.unset_ctx += 1
            return 'Load'
        return c


class ResultSer(pyast.Ser):
    """Serialiser for results: labels by object identity (see module docstring)."""

    def __init__(self, bind_ids, start):
        pyast.Ser.__init__(self, None)
        self.bind_ids = bind_ids        # id(obj) -> label of a binding node
        self.next = start
        self.seen = {}
        self.repeats = 0
        self.shared = 0
        self.bad_ctx = 0

    def _id(self, node):
        k = id(node)
        self.n += 1
        kd = type(node).__name__
        self.kinds[kd] = self.kinds.get(kd, 0) + 1
        if k in self.bind_ids:
            self.shared += 1
            return self.bind_ids[k]
        if k in self.seen:
            self.repeats += 1
            return self.seen[k]
        lab = self.next
        self.next += 1
        self.seen[k] = lab
        return lab

    def ctx(self, node):
        c = _CTXN.get(type(node.ctx))
        if c is None:
            if id(node) in self.bind_ids:     # a binding object inserted as is: serialised as it was sent
                return 'Load'
            self.bad_ctx += 1
            return 'Unset'
        return c


def _is_stmt(v):
    return isinstance(v, (ast.stmt, ast.ExceptHandler))


def _is_exprside(v):
    return isinstance(v, (ast.expr, ast.keyword, ast.arg, ast.arguments, ast.withitem, ast.comprehension))


def ser_bindings(conv):
    """conv: dict name -> value after templates._convert_to_ast.  Returns (sexp list, id map, start label, info)."""
    ser = BindSer()
    out = []
    info = {'none': [], 'unsupported': []}
    for k, v in conv.items():
        if v is None:
            info['none'].append(k)
            continue
        if _is_stmt(v):
            out.append([k, ['stmt', ser.stmt(v)]])
        elif _is_exprside(v):
            out.append([k, ['node', ser.expr(v)]])
        elif isinstance(v, (list, tuple)):
            if all(_is_stmt(x) for x in v) and len(v) > 0:
                out.append([k, ['stmts'] + [ser.stmt(x) for x in v]])
            elif all(_is_exprside(x) for x in v):
                out.append([k, ['nodes'] + [ser.expr(x) for x in v]])
            else:
                info['unsupported'].append(k)
        else:
            info['unsupported'].append(k)
    info['unset_ctx'] = ser.unset_ctx
    return out, dict(ser.ids), ser.n + 1, info


def ser_result(res, bind_ids, start):
    """res: list returned by templates.replace (statements and/or bare expressions), or one expression.
    Returns (kind, sexp, ResultSer) with kind 'stmts' | 'expr' | 'mixed' | 'garbage'."""
    rs = ResultSer(bind_ids, start)
    try:
        if isinstance(res, ast.AST):
            if _is_stmt(res):
                kind, sx, items = 'stmts', [rs.stmt(res)], [res]
            else:
                kind, sx, items = 'expr', rs.expr(res), [res]
            if 'Unknown:' in sexp(sx) or rs.bad_ctx or not arities_ok(items):
                return 'garbage', sx, rs
            return kind, sx, rs
        items = list(res)
        if all(_is_stmt(x) for x in items):
            sx = [rs.stmt(x) for x in items]
            kind = 'stmts'
        elif len(items) == 1 and isinstance(items[0], ast.expr):
            sx = rs.expr(items[0])
            kind = 'expr'
        else:
            return 'mixed', None, rs
        text = sexp(sx)
        if 'Unknown:' in text or rs.bad_ctx or not arities_ok(items):
            return 'garbage', sx, rs
        return kind, sx, rs
    except Exception as e:       # a list in a node field, a statement in an expression field, ...
        return 'garbage', repr(e), rs


def arities_ok(nodes):
    """parallel-list invariants of `ast` nodes that splicing a list into the wrong field breaks"""
    for root in nodes:
        for n in ast.walk(root):
            if isinstance(n, ast.Dict) and len(n.keys) != len(n.values):
                return False
            if isinstance(n, ast.Compare) and len(n.ops) != len(n.comparators):
                return False
            if isinstance(n, ast.arguments) and (len(n.kw_defaults) != len(n.kwonlyargs)
                                                 or len(n.defaults) > len(n.posonlyargs) + len(n.args)):
                return False
    return True


def map_ids(x, f):
    """apply f to every node label of a parsed S-expression (same node recognition as pyast.strip_ids)"""
    if isinstance(x, list):
        if x and isinstance(x[0], str) and len(x) > 1 and isinstance(x[1], (int, str)) and str(x[1]).isdigit() \
                and (x[0][0].isupper() or x[0] in _NODE_HEADS_LOWER):
            return [x[0], str(f(int(x[1])))] + [map_ids(e, f) for e in x[2:]]
        return [map_ids(e, f) for e in x]
    return x


def canon_labels(x, start):
    """renumber the labels >= start by first occurrence in a preorder walk: start, start+1, ..."""
    m = {}

    def f(l):
        if l < start:
            return l
        if l not in m:
            m[l] = start + len(m)
        return m[l]
    return map_ids(x, f)


def tostr(x):
    """normalise ints to strings so that python-built and parsed S-expressions compare equal as text"""
    return sexp(map_ids(_strs(x), lambda l: l))


def _strs(x):
    if isinstance(x, list):
        return [_strs(e) for e in x]
    if isinstance(x, bool):
        return 'True' if x else 'False'
    return str(x)


def template_sexp(text):
    import textwrap
    tree = ast.parse(textwrap.dedent(text))
    ser = pyast.Ser(None)
    return [ser.stmt(s) for s in tree.body]


class Captured(object):
    __slots__ = ('fn', 'template', 'bindings', 'start', 'info', 'kind', 'result', 'error', 'site', 'repeats', 'shared',
                 'unset_ctx', 'nres')

    def to_json(self):
        return {k: getattr(self, k, None) for k in self.__slots__}


@contextlib.contextmanager
def capture(log, sites_of=None):
    """Record every outermost templates.replace / replace_as_expression call made while active."""
    from malt.pyct import templates
    orig_replace = templates.replace
    orig_rae = templates.replace_as_expression
    depth = [0]

    def record(fn_name, orig, template, replacements, frame):
        c = Captured()
        c.fn = fn_name
        c.template = template
        c.site = (os.path.relpath(frame.f_code.co_filename, common.REPO) if frame.f_code.co_filename.startswith(common.REPO)
                  else os.path.basename(frame.f_code.co_filename), frame.f_lineno, frame.f_code.co_name)
        c.error = None
        c.result = None
        c.kind = None
        c.repeats = c.shared = c.nres = 0
        if not isinstance(template, str):
            return orig(template, **replacements)
        conv = {k: templates._convert_to_ast(v) for k, v in replacements.items()}
        try:
            c.bindings, ids, c.start, c.info = ser_bindings(conv)
            c.unset_ctx = c.info['unset_ctx']
        except Exception as e:      # never let the observer change the conversion
            c.bindings, ids, c.start, c.info = None, {}, 1, {'ser_error': repr(e)}
            c.unset_ctx = 0
        depth[0] += 1
        try:
            res = orig(template, **conv)
        except Exception as e:
            c.error = type(e).__name__
            log.append(c)
            raise
        finally:
            depth[0] -= 1
        try:
            c.kind, c.result, rs = ser_result(res, ids, c.start)
            c.repeats, c.shared, c.nres = rs.repeats, rs.shared, rs.n
        except Exception as e:
            c.kind, c.result = 'garbage', repr(e)
        log.append(c)
        return res

    def replace(template, **replacements):
        if depth[0]:
            return orig_replace(template, **replacements)
        return record('replace', orig_replace, template, replacements, sys._getframe(1))

    def replace_as_expression(template, **replacements):
        if depth[0]:
            return orig_rae(template, **replacements)
        return record('replace_as_expression', orig_rae, template, replacements, sys._getframe(1))

    templates.replace = replace
    templates.replace_as_expression = replace_as_expression
    try:
        yield
    finally:
        templates.replace = orig_replace
        templates.replace_as_expression = orig_rae


def request_line(c):
    """driver request for a captured call (None if the bindings could not be serialised)"""
    if c.bindings is None or c.info.get('unsupported'):
        return None
    op = 'c17.instexpr' if c.fn == 'replace_as_expression' else ('c17.instbare' if c.kind == 'expr' else 'c17.inst')
    try:
        t = template_sexp(c.template)
    except SyntaxError:
        return None
    if c.info.get('none'):
        # a placeholder bound to None is deleted by the real code; the model has no such binding kind
        import textwrap
        used = set()
        for n in ast.walk(ast.parse(textwrap.dedent(c.template))):
            used.update(str(v) for v in (getattr(n, 'id', None), getattr(n, 'arg', None), getattr(n, 'attr', None), getattr(n, 'name', None)) if v)
        if used & set(c.info['none']):
            return None
    btxt = sexp(_strs(c.bindings))
    if 'Unknown:' in btxt:
        return None          # a binding that is already ill-typed (e.g. a statement inside an expression): outside the domain
    return '%s %s %s' % (op, sexp(_strs(t)), btxt)


def compare(c, answer):
    """-> (agree: bool, detail, flags dict) for one captured call and the model's answer line."""
    try:
        a = common.parse_sexp(answer)
    except Exception:
        return False, 'unparsable model answer: ' + answer[:200], {}
    if not isinstance(a, list) or not a:
        return False, 'model answered ' + answer[:200], {}
    names = ('tmplOk', 'bindingsWf', 'usesOk', 'argsOk')
    if a[0] == 'err':
        flags = dict(zip(names, [x == 'True' for x in a[2:6]]))
        flags['err'] = a[1]
        real_bad = (c.error is not None) or c.kind in ('garbage', 'mixed')
        raises = a[1] in ('keywordRepl', 'functionNameRepl', 'attributeRepl', 'notExpression')
        if not real_bad:
            return False, 'model: error %s, implementation returned a well-typed result' % a[1], flags
        # (the real code means ValueError; formatting a tuple into its message makes that a TypeError)
        if raises and c.error not in ('ValueError', 'TypeError'):
            return False, 'model: %s (ValueError expected), implementation: %s / %s' % (a[1], c.error, c.kind), flags
        return True, '', flags
    flags = dict(zip(names + ('resultCtxOk',), [x == 'True' for x in a[2:7]]))
    flags['dups'] = a[7][0] if len(a) > 7 else []
    flags['shared'] = a[7][1] if len(a) > 7 else []
    if c.error is not None or c.kind in ('garbage', 'mixed'):
        return False, 'model: ok, implementation: %s / %s' % (c.error, c.kind), flags
    model = sexp(canon_labels(a[1], c.start))
    real = sexp(canon_labels(_strs(c.result), c.start))
    if model != real:
        return False, 'model %s\nimpl  %s' % (model[:1500], real[:1500]), flags
    return True, '', flags


# =================================================================================================
# (b) generated templates / bindings: every placeholder position kind x binding kind
# =================================================================================================
# position kinds: template text with placeholders P (and Q, R where a second one is useful)
POSITIONS = [
    ('load-expr-stmt', 'f(P)'),
    ('bare-expr', 'P'),
    ('load-call-func', 'P(1, 2)'),
    ('load-call-args-splat', 'g(0, P, 9)'),
    ('load-kwvalue', 'g(k=P)'),
    ('kwname', 'g(1, P=0)'),
    ('kwname-only', 'g(P=0)'),
    ('load-return', 'def h():\n    return P'),
    ('load-return-tuple-splat', 'def h():\n    return P,'),
    ('load-tuple-splat', 'x = (P,)'),
    ('load-tuple-mid', 'x = (0, P, 9)'),
    ('load-list', 'x = [P, 1]'),
    ('load-set', 'x = {P, 1}'),
    ('load-dict-value', 'x = {1: P}'),
    ('load-dict-key', 'x = {P: 1}'),
    ('load-binop', 'x = P + 1'),
    ('load-boolop', 'x = not P and y'),
    ('load-compare', 'x = a < P <= b'),
    ('load-ifexp', 'x = a if P else b'),
    ('load-lambda-body', 'x = lambda: P'),
    ('load-lambda-default', 'x = lambda q=P: q'),
    ('load-subscript-value', 'x = P[0]'),
    ('load-subscript-slice', 'x = a[P]'),
    ('load-subscript-slice-tuple', 'x = a[P, 1]'),
    ('load-slice-part', 'x = a[P:2]'),
    ('load-attr-value', 'x = P.b'),
    ('attr-name', 'x = a.P'),
    ('attr-name-store', 'a.P = 1'),
    ('load-starred-arg', 'g(*P)'),
    ('load-dstar-arg', 'g(**P)'),
    ('load-fstring', 'x = f"{P}"'),
    ('load-fstring-spec', 'x = f"{a:{P}}"'),
    ('load-walrus-value', 'g((y := P))'),
    ('store-walrus-target', 'g((P := 1))'),
    ('load-comp-elt', 'x = [P for i in r]'),
    ('load-comp-iter', 'x = [i for i in P]'),
    ('load-comp-if', 'x = [i for i in r if P]'),
    ('store-comp-target', 'x = [1 for P in r]'),
    ('store-assign', 'P = 1'),
    ('store-assign-multi', 'P = Q = 1'),
    ('store-tuple-splat', 'P, = v'),
    ('store-tuple-mid', 'a, P, b = v'),
    ('store-list', '[P, a] = v'),
    ('store-starred', 'a, *P = v'),
    ('store-subscript-value', 'P[0] = 1'),
    ('store-attr-value', 'P.b = 1'),
    ('store-augassign', 'P += 1'),
    ('store-annassign', 'P: int = 1'),
    ('load-annotation', 'a: P = 1'),
    ('store-for-target', 'for P in r:\n    pass'),
    ('load-for-iter', 'for i in P:\n    pass'),
    ('store-with-as', 'with cm() as P:\n    pass'),
    ('load-with-item', 'with P:\n    pass'),
    ('load-while-test', 'while P:\n    pass'),
    ('load-if-test', 'if P:\n    pass'),
    ('load-assert', 'assert P, Q'),
    ('load-raise', 'raise P'),
    ('del-name', 'del P'),
    ('del-multi', 'del a, P'),
    ('del-subscript', 'del P[0]'),
    ('stmt-top', 'P'),
    ('stmt-top-between', 'a = 1\nP\nb = 2'),
    ('stmt-def-body', 'def h():\n    P'),
    ('stmt-def-body-after', 'def h():\n    a = 1\n    P\n    return a'),
    ('stmt-if-body', 'if c:\n    P\nelse:\n    Q'),
    ('stmt-for-body', 'for i in r:\n    P'),
    ('stmt-while-body', 'while c:\n    P'),
    ('stmt-with-body', 'with cm():\n    P'),
    ('stmt-try', 'try:\n    P\nexcept E:\n    Q\nfinally:\n    R'),
    ('stmt-class-body', 'class K:\n    P'),
    ('fn-name', 'def P():\n    pass'),
    ('fn-name-async', 'async def P():\n    pass'),
    ('class-name', 'class P:\n    pass'),
    ('arg-name', 'def h(P):\n    pass'),
    ('arg-name-mid', 'def h(a, P, b):\n    pass'),
    ('arg-vararg', 'def h(*P):\n    pass'),
    ('arg-kwonly', 'def h(*, P=1):\n    pass'),
    ('arg-kwarg', 'def h(**P):\n    pass'),
    ('arg-lambda', 'x = lambda P: 0'),
    ('arg-annotation', 'def h(a: P):\n    pass'),
    ('arg-default', 'def h(a=P):\n    pass'),
    ('decorator', '@P\ndef h():\n    pass'),
    ('returns-annotation', 'def h() -> P:\n    pass'),
    ('class-base', 'class K(P):\n    pass'),
    ('nonlocal-list', 'def h():\n    nonlocal P\n    P = 1'),
    ('global-list', 'def h():\n    global P\n    P = 1'),
    ('handler-name', 'try:\n    pass\nexcept E as P:\n    pass'),
    ('import-alias', 'import m as P'),
    ('two-occurrences', 'P = P + 1'),
    ('three-occurrences', 'P = g(P, k=P)'),
    ('two-arg-occurrences', 'def h(P):\n    pass\ndef k(P):\n    pass'),
    ('nested-call-attr', 'ag__.f(P, lambda: Q, opts=ag__.O(d=R))'),
]

# binding kinds: (name, constructor returning a fresh python value)
def _pe(src):
    from malt.pyct import parser
    return parser.parse_expression(src)


def _ps(src):
    return ast.parse(src).body


def _store(src):
    """target expression in Store form (as a converter would pass node.target)"""
    return ast.parse(src + ' = 0').body[0].targets[0]


def _qn(src):
    from malt.pyct import qual_names
    e = _pe(src)
    qual_names.resolve(e)
    from malt.pyct import anno
    return anno.getanno(e, anno.Basic.QN)


BINDINGS = [
    ('str', lambda: 'nm'),
    ('qn-name', lambda: _qn('v')),
    ('qn-attr', lambda: _qn('o.a.b')),
    ('qn-subscript', lambda: _qn('d[k]')),
    ('qn-subscript-lit', lambda: _qn("d['k']")),
    ('name', lambda: _pe('v')),
    ('attr', lambda: _pe('o.a')),
    ('subscript', lambda: _pe('d[i + 1]')),
    ('const', lambda: ast.Constant(7)),
    ('call', lambda: _pe('f(a, b=c)')),
    ('binop', lambda: _pe('a + b * 2')),
    ('tuple-load', lambda: _pe('(a, b.c, d[0])')),
    ('list-load', lambda: _pe('[a, b]')),
    ('tuple-starred-load', lambda: _pe('(a, *b)')),
    ('starred-load', lambda: _pe('[*b]').elts[0]),
    ('tuple-store', lambda: _store('(a, b.c, d[0])')),
    ('tuple-starred-store', lambda: _store('(a, *b)')),
    ('nested-tuple-store', lambda: _store('(a, (b, [c, *d]))')),
    ('attr-store', lambda: _store('o.a')),
    ('subscript-store', lambda: _store('d[i]')),
    ('walrus', lambda: _pe('(y := a)')),
    ('walrus-in-tuple', lambda: _pe('((y := a), y)')),
    ('walrus-in-binop', lambda: _pe('(y := a) + 1')),
    ('walrus-in-call', lambda: _pe('f((y := a))')),
    ('walrus-in-subscript', lambda: _pe('d[(y := a)]')),
    ('walrus-in-lambda', lambda: _pe('lambda: (y := a)')),
    ('walrus-in-list-of-calls', lambda: _pe('[f((y := a)), y]')),
    ('listcomp', lambda: _pe('[i for i in r if i]')),
    ('tuple-with-comp', lambda: _pe('([i for i in r], a)')),
    ('dict', lambda: _pe('{a: b, **c}')),
    ('lambda', lambda: _pe('lambda q, *r, s=1: q')),
    ('fstring', lambda: _pe('f"{a!r:>{w}}"')),
    ('ifexp', lambda: _pe('a if b else c')),
    ('compare', lambda: _pe('a < b <= c')),
    ('slice-sub', lambda: _pe('d[1:n, ::2]')),
    ('set', lambda: _pe('{a, b}')),
    ('exprs-0', lambda: []),
    ('exprs-1', lambda: [_pe('a')]),
    ('exprs-2', lambda: [_pe('a'), _pe('b.c')]),
    ('exprs-tuple-2', lambda: (_pe('a'), _pe('f(b)'))),
    ('exprs-tuple-0', lambda: ()),
    ('qns-tuple-2', lambda: (_qn('a'), _qn('o.b'))),
    ('strs-2', lambda: ['s1', 's2']),
    ('consts-tuple-2', lambda: (ast.Constant('a'), ast.Constant('b'))),
    ('stmts-0', lambda: []),
    ('stmt-1', lambda: _ps('a = 1')[0]),
    ('stmts-1', lambda: _ps('a = 1')),
    ('stmts-3', lambda: _ps('a = 1\nfor i in r:\n    a += i\nreturn a')),
    ('stmts-def', lambda: _ps('def inner(p, *q):\n    nonlocal z\n    z = (p, q)\n    return lambda: z')),
    ('stmts-nonlocal', lambda: [ast.Nonlocal(['a', 'b'])]),
    ('stmts-walrus', lambda: _ps('if (y := a) > 0:\n    x = y')),
    ('keywords-1', lambda: [ast.keyword(arg='kw', value=_pe('a'))]),
    ('keywords-2', lambda: [ast.keyword(arg='k1', value=_pe('a')), ast.keyword(arg=None, value=_pe('d'))]),
    ('keyword-node', lambda: ast.keyword(arg='kw', value=_pe('a'))),
    ('args-2', lambda: [ast.arg(arg='p1', annotation=None), ast.arg(arg='p2', annotation=_pe('int'))]),
    ('arg-node', lambda: ast.arg(arg='p1', annotation=None)),
    ('names-2', lambda: [_pe('n1'), _pe('n2')]),
    ('importfrom', lambda: ast.ImportFrom(module='__future__', names=[ast.alias(name='annotations', asname=None)], level=0)),
]


def outside_domain(pk, bk):
    """(position, binding) pairs on which the real code builds a malformed tree in a way `Py.Ast` cannot express:
    `visit_arg` hands back a tuple binding unchanged (its `Name`s are not turned into `arg`s), stores a *list* in the
    single-node fields `vararg`/`kwarg`, and lets `kwonlyargs` get out of step with `kw_defaults`."""
    if not (pk.startswith('arg-') or pk == 'two-arg-occurrences') or pk in ('arg-annotation', 'arg-default'):
        return False
    tup = 'tuple' in bk and (bk.startswith('exprs') or bk.startswith('qns') or bk.startswith('consts'))
    lst = bk.startswith(('exprs', 'qns', 'strs', 'consts', 'stmts', 'keywords-', 'args-', 'names-'))
    if tup:
        return True
    if pk in ('arg-vararg', 'arg-kwarg') and lst:
        return True
    if pk == 'arg-kwonly' and lst and not bk.endswith('-1'):
        return True
    return False


def generated_cases(rng, n_random):
    """(key, template text, bindings dict factory) — the full positions x bindings product for the placeholder P
    (Q, R bound to fixed simple values), then random multi-placeholder combinations."""
    fixed = {'Q': lambda: _ps('q = 0'), 'R': lambda: _ps('r = 0')}
    fixed_expr = {'Q': lambda: _pe('qq'), 'R': lambda: _pe('rr')}
    for pk, text in POSITIONS:
        stmt_pos = pk.startswith('stmt-')
        for bk, mk in BINDINGS:
            if outside_domain(pk, bk):
                continue

            def make(mk=mk, text=text, stmt_pos=stmt_pos):
                d = {'P': mk()}
                src = fixed if stmt_pos else fixed_expr
                for k, f in src.items():
                    if k in text:
                        d[k] = f()
                return d
            yield ('%s|%s' % (pk, bk), text, make)
    for i in range(n_random):
        k = rng.randrange(2, 4)
        # (a bare top-level placeholder is only modelled as a template of its own: covered by the product above)
        picks = [rng.choice([p for p in POSITIONS if p[0] not in ('bare-expr', 'stmt-top')]) for _ in range(k)]
        names = ['P', 'Q', 'R'][:k]
        parts, binds = [], []
        for nm, (pk, text) in zip(names, picks):
            t = text.replace('Q', 'q0').replace('R', 'r0')
            parts.append(t.replace('P', nm) if nm != 'P' else t)
            bd = rng.choice(BINDINGS)
            while outside_domain(pk, bd[0]):
                bd = rng.choice(BINDINGS)
            binds.append(bd)
        text = '\n'.join(parts)

        def make(names=names, binds=binds):
            return {nm: b[1]() for nm, b in zip(names, binds)}
        yield ('rand%d|%s|%s' % (i, '+'.join(p[0] for p in picks), '+'.join(b[0] for b in binds)), text, make)
