"""C11 — generated names never capture, shadow or clash with user names.

Tie:    translator (tools/extract_naming.py: every new_symbol call site and the kind of reserved set it passes, identifiers
        hard-coded in templates, shape of Namer.new_symbol)  +  correspondence: every recorded `new_symbol(root, reserved)`
        sequence of every conversion (progen programs and the adversarial-name stream) replayed through the Lean model
        `Malt.Naming.runCalls`, plus random call sequences against the real `Namer` directly.
Oracle: on the real code, per conversion: (i) names handed out by the namer vs identifiers of the source / namespace;
        (ii) original vs converted behaviour (outcome, tracer log, module counter) under adversarial renamings, each judged
        against a control with a neutral name in the same position; (iii) probes `tr('probe', W)` of the adversarially named
        variable after top-level compound statements and before the final return.
Classes of failing cases are evaluated by the Lean driver (`c11.classify`) from name facts computed from the program text.
"""
import json, multiprocessing, os, random, shutil, sys, tempfile, time

import common
from common import sexp, parse_sexp
import c11_names as N

MODEL_FILES = ['MaltModel/Rt/Naming.lean', 'MaltModel/Rt/NamingConv.lean', 'MaltModel/Generated/Naming.lean',
               'MaltModel/Drv/C11.lean']
CLS_BOUND_ONLY = 'bound_only_user_name_equals_generated_root'
CLS_NESTED = 'nested_scope_bound_name_equals_generated_root'
CLS_LATE = 'free_name_outside_namespace_equals_transpiler_name'
CLS_FIXED = 'user_name_equals_hard_coded_template_identifier'
CLS_COLLAPSE = 'transformed_function_name_collapses_to_hard_coded_identifier'
CLS_BUILTIN = 'user_binding_shadows_builtin_referenced_by_generated_code'
CORPUS = os.path.join(common.VERIF, 'corpus', 'C11')


# ------------------------------------------------------------------------------------------------- workers
_WS = None


def _workspace(parent):
    global _WS
    import progen
    if _WS is None or not os.path.isdir(_WS.dir):
        ws = progen.Workspace.__new__(progen.Workspace)
        ws.dir = os.path.join(parent, 'w%d' % os.getpid())
        os.makedirs(ws.dir, exist_ok=True)
        ws.n = 0
        _WS = ws
    return _WS


def _eval_group(arg):
    parent, group = arg
    sys.path.insert(0, common.REPO) if common.REPO not in sys.path else None
    ws = _workspace(parent)
    out = []
    for case in group['cases']:
        t0 = time.process_time()
        try:
            r = N.eval_case(ws, case)
            facts = N.user_fn_facts(case['source'], case['fname'])
        except RecursionError as e:
            r, facts = {'infra': 'RecursionError'}, None
        except Exception as e:  # harness trouble on this case: reported as infra, never as a violation
            import traceback
            r, facts = {'infra': traceback.format_exc()[-1500:]}, None
        r['cpu_s'] = time.process_time() - t0
        out.append((case, r, facts))
    return group['id'], out


# ------------------------------------------------------------------------------------------------- judging
def level_of(sym):
    return 'transpiler' if sym[3] == 'transpiler.py' else 'converter'


def fn_sexp(r, facts):
    return [facts['name'], facts['bound'], facts['read'], facts['readLocal'], facts['free'], facts.get('ns', r.get('namespace', [])),
            facts.get('blockVarRoots', r.get('block_var_roots') or []), bool(facts.get('starCalls')), bool(facts.get('kwCalls')),
            facts.get('nestedDefOnly', [])]


def classify_line(case, r, facts):
    reqs = [[level_of(s), s[0], s[1]] for s in r['symbols']]
    return 'c11.classify %s %s' % (sexp(fn_sexp(r, facts)), sexp(reqs))


def why_line(r, facts):
    reqs = [[level_of(s), s[0], s[1]] for s in r.get('symbols', [])]
    return 'c11.why %s %s' % (sexp(fn_sexp(r, facts)), sexp(reqs))


def conversion_of(r):
    """The recorded requests as (pre, passes, post): transpiler-level requests before / after the converter passes; the
    converter-level ones grouped by the pipeline step (= module of the call site) that issued them, in order."""
    syms = r['symbols']
    i = 0
    pre = []
    while i < len(syms) and level_of(syms[i]) == 'transpiler':
        pre.append([syms[i][0], syms[i][1]])
        i += 1
    j = len(syms)
    post = []
    while j > i and level_of(syms[j - 1]) == 'transpiler':
        post.insert(0, [syms[j - 1][0], syms[j - 1][1]])
        j -= 1
    passes = []
    for s in syms[i:j]:
        step = s[3][:-3] if s[3].endswith('.py') else s[3]
        if level_of(s) == 'transpiler':
            step = 'TRANSPILER-IN-THE-MIDDLE'
        if passes and passes[-1][0] == step:
            passes[-1][1].append([s[0], s[1]])
        else:
            passes.append([step, [[s[0], s[1]]]])
    return pre, passes, post, (i, j)


def e2e_line(r, facts):
    pre, passes, post, _ = conversion_of(r)
    return 'c11.e2e %s %s' % (sexp(fn_sexp(r, facts)), sexp([pre, passes, post]))


def replay_line(r):
    return 'c11.replay %s %s' % (sexp(r['namespace']), sexp([[s[0], s[1]] for s in r['symbols']]))


def parse_classify(ans):
    v = parse_sexp(ans)
    out = {}
    for e in v:
        out[e[0]] = e[1:]
    flags = {k: out[k][0] == 'True' for k in ('convof', 'bound_names_reserved', 'free_names_resolved', 'fixed_names_unused',
                                               'fixed_names_not_variants', 'converter_roots_listed')}
    return flags, out['converter'], out['transpiler'], [tuple(p) for p in out['classes']]


def judge(case, r, facts, fixed_names, pairs):
    """Failures of one evaluated case on the real code -> list of (what, class or None, detail)."""
    fails = []
    ns = set(r['namespace'])
    idents = set(facts['idents'])
    free = set(facts['free'])
    results = [s[2] for s in r['symbols']]
    relevant = []           # class pairs that concern a name actually handed out / used
    for x, cls in pairs:
        if cls in (CLS_BOUND_ONLY, CLS_NESTED):
            if any(s[2] == x and level_of(s) == 'converter' for s in r['symbols']):
                relevant.append((x, cls))
        elif cls == CLS_LATE:
            if any(s[2] == x and level_of(s) == 'transpiler' for s in r['symbols']):
                relevant.append((x, cls))
        elif cls == CLS_COLLAPSE:
            if x in results:
                relevant.append((x, cls))
        else:
            relevant.append((x, cls))
    shared = {x for x, cls in pairs if cls == CLS_NESTED + ':shared_or_captured'}
    relevant = [(x, cls) for x, cls in relevant if not cls.endswith(':shared_or_captured')]
    by_name = {}
    for x, cls in relevant:
        by_name.setdefault(x, []).append(cls)
    # (i) syntactic: names handed out vs names the user's code can see
    for s in r['symbols']:
        x = s[2]
        if level_of(s) == 'converter':
            if x in idents or x in ns:
                cl = [c for c in by_name.get(x, []) if c in (CLS_BOUND_ONLY, CLS_NESTED)]
                fails.append(('(i) name %r returned by new_symbol(%r) at %s:%s is an identifier of the source / a namespace key'
                              % (x, s[0], s[3], s[4]), cl[0] if cl else None, {'name': x}))
        else:
            if x in free or x in ns:
                cl = [c for c in by_name.get(x, []) if c == CLS_LATE]
                fails.append(('(i) transpiler-level name %r (root %r) is a free name of the function / a namespace key'
                              % (x, s[0]), cl[0] if cl else None, {'name': x}))
        if x in fixed_names:
            cl = [c for c in by_name.get(x, []) if c == CLS_COLLAPSE]
            fails.append(('(i) new_symbol(%r) handed out the hard-coded identifier %r' % (s[0], x), cl[0] if cl else None, {'name': x}))
    if len(set(results)) != len(results):
        fails.append(('(i) new_symbol returned the same name twice in one conversion', None, {'names': results}))
    # (iv) scope-aware, per use site (positions known to be generated from the isomorphic control conversion)
    for sc in r.get('scope_clashes') or []:
        fails.append(('(iv) generated code uses the name %r inside %s, where the user identifier %r is visible'
                      % (sc[1], sc[0], sc[1]), sc[3] if len(sc) > 3 else None, {'name': sc[1], 'scope': sc[0]}))
    # (ii)/(iii) behaviour
    # behaviour: a nested-scope coincidence explains a behavioural difference only when the variable is shared / captured
    behav = [(x, cls) for x, cls in relevant if cls != CLS_NESTED or x in shared]
    anycls = behav[0][1] if behav else None
    if r.get('convert_error'):
        fails.append(('(ii) conversion fails: ' + r['convert_error'][:200], anycls, {}))
    for m in r.get('mismatches', [])[:1]:
        fails.append(('(%s) converted function differs from the original (%s%s)' % ('iii' if m.get('probe') else 'ii', m['what'],
                                                                                   ', at a probe of the user name' if m.get('probe') else ''),
                      anycls, m))
    fails.sort(key=lambda f: f[1] is not None)      # an unclassified failure is never hidden behind a classified one
    return fails


# ------------------------------------------------------------------------------------------------- namer unit stream
def namer_unit_stream(run, count):
    """Random call sequences against the real Namer (roots with digits, empty pieces, leading zeros, QN reserved entries)."""
    from malt.pyct import naming, qual_names
    rng = run.rng
    atoms = ['a', 'b', 'a_1', 'a_2', 'a_3', 'a_01', 'a_007', 'a__1', 'a_', '_5', '_6', '', '_', '9', '10', 'x_y_2', 'x_y', 'x_y_3',
             'get_state', 'get_state_1', 'get_state_2', 'break_', 'break__1', 'break__2', 'ag__f', 'ag__f_1', 'ag___5', 'ag__',
             'a1', 'a_1b', 'a_1_', 'a_1_2', 'fscope_0', 'fscope', 'fscope_1', 'q_99', 'q_100', 'q']
    lines, expect = [], []
    for _ in range(count):
        pool = rng.sample(atoms, rng.randrange(2, 12))
        ns = rng.sample(pool, rng.randrange(0, min(5, len(pool)) + 1))
        nm = naming.Namer({k: None for k in ns})
        calls, names = [], []
        for _ in range(rng.randrange(1, 9)):
            root = rng.choice(pool)
            reserved = rng.sample(pool, rng.randrange(0, min(4, len(pool)) + 1))
            real_reserved, flat = set(), set()
            for x in reserved:
                c = rng.random()
                if x.isidentifier() and c < 0.2:
                    # composite name x.other: Namer flattens `s.qn` = (QN(x), 'other') - only the attribute NAME is a string
                    other = rng.choice([p for p in pool if p.isidentifier()] or ['zz'])
                    real_reserved.add(qual_names.QN(qual_names.QN(x), attr=other))
                    flat.add(other)
                elif x.isidentifier() and c < 0.4:
                    real_reserved.add(qual_names.QN(x))
                    flat.add(x)
                else:
                    real_reserved.add(x)
                    flat.add(x)
            names.append(nm.new_symbol(root, real_reserved))
            calls.append([root, sorted(flat)])
        lines.append('c11.replay %s %s' % (sexp(sorted(ns)), sexp(calls)))
        expect.append(sexp([names, names]) if sorted(nm.generated_names) == sorted(names) and len(set(names)) == len(names)
                      else 'GENERATED-SET-MISMATCH %r' % (sorted(nm.generated_names),))
        run.case(('namer', lines[-1]), nontrivial=any('_' in c[0] for c in calls))
        # direct oracle on the real namer: fresh, distinct
        for (root, flat), x in zip(calls, names):
            if x in ns or x in flat:
                run.fail('Namer.new_symbol returned a reserved / namespace name', {'ns': ns, 'calls': calls, 'names': names}, None)
        if len(set(names)) != len(names):
            run.fail('Namer.new_symbol returned the same name twice', {'ns': ns, 'calls': calls, 'names': names}, None)
    return lines, expect


# ------------------------------------------------------------------------------------------------- streams
def base_programs(run, n_skel, n_rand, size):
    import progen
    info = {}
    out = []
    for p in progen.skeleton_programs(max_stmts=4, max_depth=3, cap=n_skel, rng=random.Random(run.rng.getrandbits(32)), info=info):
        out.append(p)
    out = out[:n_skel]
    for p in progen.random_programs(random.Random(run.rng.getrandbits(32)), n_rand, size=size):
        out.append(p)
    return out, info


def build_groups(run, bases, voc, sweeps):
    """One group = control (neutral word) + up to 3 vocabulary words in the same role at the same position of one base.
    Every (role, word) pair is used at least once per sweep."""
    groups = []
    words = sorted(voc)
    nb = len(bases)
    bi = run.rng.randrange(nb)
    gid = 0
    for sweep in range(sweeps):
        for role in N.ROLES:
            ws = list(words)
            run.rng.shuffle(ws)
            if role == 'function_name':
                ws += ['_5', 'f_7', '_12']
            for k in range(0, len(ws), 3):
                chunk = ws[k:k + 3]
                # find a base the role applies to
                for attempt in range(6):
                    base = bases[bi % nb]
                    bi += 1
                    seed = run.rng.getrandbits(32)
                    bj = base.to_json()
                    ctrl = N.make_variant(bj, role, N.NEUTRAL, random.Random(seed))
                    if ctrl is None:
                        continue
                    cases = [ctrl]
                    for w in chunk:
                        c = N.make_variant(bj, role, w, random.Random(seed))
                        if c is not None:
                            cases.append(c)
                    if len(cases) > 1:
                        for c in cases:
                            c['recursive'] = (gid % 4 != 3)
                            c['group'] = gid
                        groups.append({'id': gid, 'cases': cases, 'role': role})
                        gid += 1
                        break
    return groups


def run_groups(groups, parent, procs):
    args = [(parent, g) for g in groups]
    if procs <= 1 or len(groups) < 4:
        return [_eval_group(a) for a in args]
    ctx = multiprocessing.get_context('fork')
    with ctx.Pool(processes=procs) as pool:
        return pool.map(_eval_group, args, chunksize=1)


def load_corpus():
    out = []
    if os.path.isdir(CORPUS):
        for fn in sorted(os.listdir(CORPUS)):
            if fn.endswith('.json'):
                with open(os.path.join(CORPUS, fn)) as f:
                    c = json.load(f)
                c['file'] = fn
                out.append(c)
    return out


# ------------------------------------------------------------------------------------------------- /repo functions
def repo_why(run):
    """(1) over every function of /repo/malt and /repo/tests (not converted: name facts from the text alone, namespace =
    the module's top-level names, block variables = simple names stored inside if/while/for): which PROGRAM hypotheses of
    C11_disjoint_partial fail, and for which names."""
    import ast as _ast
    import progen
    mod_names = {}
    lines, meta = [], []
    for rf in progen.repo_functions():
        if rf.path not in mod_names:
            names = set()
            try:
                for n in _ast.parse(rf.source_module).body:
                    if isinstance(n, (_ast.FunctionDef, _ast.ClassDef, _ast.AsyncFunctionDef)):
                        names.add(n.name)
                    elif isinstance(n, (_ast.Import, _ast.ImportFrom)):
                        names.update((a.asname or a.name).split('.')[0] for a in n.names)
                    else:
                        names.update(m.id for m in _ast.walk(n) if isinstance(m, _ast.Name) and isinstance(m.ctx, _ast.Store))
            except SyntaxError:
                pass
            mod_names[rf.path] = names
        try:
            facts = N.node_facts(rf.node, mod_names[rf.path])
        except Exception:
            continue
        lines.append(why_line({}, facts))
        meta.append((rf.path, rf.qualname))
    if not lines:
        return
    got = run.drive(lines)
    dist, examples, n_ok = {}, {}, 0
    for (path, q), ans in zip(meta, got):
        try:
            reasons = [tuple(e) for e in parse_sexp(ans)]
        except Exception:
            reasons = [('unparsed', ans[:40])]
        if not reasons:
            n_ok += 1
        for a in sorted({a for a, _ in reasons}):
            dist[a] = dist.get(a, 0) + 1
            if len(examples.setdefault(a, [])) < 4:
                examples[a].append('%s:%s (%s)' % (path, q, ','.join(sorted({b for aa, b in reasons if aa == a}))))
    run.evaluations += len(lines)
    run.cov['why_outside_hypotheses(/repo functions)'] = {
        'functions': len(lines), 'all_program_hypotheses_hold': n_ok, 'by_reason': dict(sorted(dist.items(), key=lambda kv: -kv[1])),
        'examples': examples,
        'note': 'not converted: no request sequence, so only the program-side hypotheses are evaluated; block variables and namespace are syntactic approximations'}


# ------------------------------------------------------------------------------------------------- the check
def check(run, only_case=None):
    run.rule = ('base programs: bounded-exhaustive control-flow skeletons (stride-sampled) + typed random programs; adversarial '
                'stream: every word of the converter vocabulary (new_symbol roots scanned from malt/converters and transpiler.py, '
                'ag__<f>, hard-coded template identifiers, lam, numbered/digit-suffixed variants) x every role (%s), each next to '
                'a control with a neutral word at the same position; a case is (base, role, word, recursive); non-trivial = the '
                'conversion issued converter-level new_symbol requests and the word occurs in the converted function' % ', '.join(N.ROLES))
    run.assumptions += [
        'identifiers are ASCII (str.isdigit/int also accept non-ASCII decimal digits; the model knows only 0-9)',
        'the abstraction "a conversion is a sequence of new_symbol requests whose reserved sets contain the reads of the body scope" '
        'is checked per recorded conversion (obligation correspondence:reserved-covers-body-reads), not proved of the converters',
        'name facts (bound / read / readLocal / free) of a program are computed by harness/c11_names.py (own scope analysis + '
        'CPython symtable) and cross-checked against the real BODY_SCOPE.referenced on every conversion',
        'the clash conditions of the hard-coded identifiers (hardClash: ag__ mentioned; vars_ a block variable; tuple/dict bound + a */keyword '
        'call) are DEFINITIONS whose adequacy is tested, not proved: a failing case outside them is reported as a violation; the block '
        'variables are read off the generated code (symbol_names of if_stmt/for_stmt/while_stmt)',
        'the site table Gen.Naming.introSites is what tools/extract_naming.py recognises as name-introducing (templates.replace*, '
        'parse_expression/parse_str, ast.Name/arg/Global/Nonlocal/alias/FunctionDef/ClassDef constructions, exec/eval/compile) in '
        'malt/converters, pyct/transpiler.py, pyct/templates.py, core/converter.py, anf.py, pyct/transformer.py, malt/operators',
        'Python scoping of the generated module (factory wrappers enclose the function; nested defs see enclosing locals) is CPython\'s',
    ]
    run.translate(['Naming'])
    run.build_and_audit('MaltModel.Props.C11', model_files=MODEL_FILES)
    facts0 = N.naming_facts()
    voc = N.vocabulary(facts0)
    fixed_names = set(facts0['fixed']) | set(facts0['extra_locals']) | {r[2] for r in facts0['intro_sites'] if r[4] == 'hard'}
    run.cov['vocabulary'] = sorted(voc)
    run.cov['new_symbol_call_sites'] = len(facts0['conv_sites']) + len(facts0['tr_sites'])

    import logging
    logging.disable(logging.WARNING)        # malt's "could not transform ... will run it as-is" chatter
    quick = run.tier == 'quick'
    procs = max(1, min(16, (os.cpu_count() or 2)))
    parent = tempfile.mkdtemp(prefix='maltverif_c11_')
    try:
        _check(run, only_case, facts0, voc, fixed_names, quick, procs, parent)
    finally:
        shutil.rmtree(parent, ignore_errors=True)


def _check(run, only_case, facts0, voc, fixed_names, quick, procs, parent):
    import progen
    t0 = time.time()
    # ---------------------------------------------------------------- cases: corpus first, then streams
    corpus = load_corpus()
    listed = [k for k in common.load_known_findings() if k.get('property') == 'C11' and k.get('status', 'open') == 'open']
    groups = []
    gid = 10 ** 6
    for k in listed:        # witnesses of the listed findings run in every mode: they decide which classes are honoured
        groups.append({'id': gid, 'cases': [dict(k['witness'], role='witness', word=k['id'])], 'role': 'witness', 'kind': 'witness', 'finding': k})
        gid += 1
    if only_case is not None:
        groups.append({'id': gid, 'cases': [only_case], 'role': 'replay', 'kind': 'replay'})
    else:
        for c in corpus:
            groups.append({'id': gid, 'cases': [dict(c['case'], role='corpus', word=c['file'])], 'role': 'corpus', 'kind': 'corpus', 'corpus': c})
            gid += 1
        bases, info = base_programs(run, 40 if quick else 160, 40 if quick else 160, 8 if quick else 12)
        run.cov['skeleton_space'] = info
        base_cases = []
        for b in bases:
            j = b.to_json()
            base_cases.append({'source': j['source'], 'fname': 'f', 'inputs': j['inputs'], 'decisions': j['decisions'], 'recursive': True,
                               'late_globals': {}, 'gvar': 'G', 'role': 'base', 'word': '', 'base': j['key']})
        for k in range(0, len(base_cases), 4):
            groups.append({'id': gid, 'cases': base_cases[k:k + 4], 'role': 'base', 'kind': 'base'})
            gid += 1
        adv = build_groups(run, bases, voc, 1 if quick else 3)
        # lambda entities (visit_Lambda / lscope / ag__lam): fixed templates, every vocabulary word
        lam_words = sorted(set(voc) | {'ag__lam', 'ag__lam_1', 'lscope_1'})
        for kind in sorted(N.LAMBDA_TEMPLATES):
            for k in range(0, len(lam_words), 3):
                cases = [N.make_lambda_case(progen.PRELUDE, kind, w) for w in [N.NEUTRAL] + lam_words[k:k + 3]]
                for c in cases:
                    c['group'] = len(adv)
                adv.append({'id': 500000 + len(adv), 'cases': cases, 'role': kind})
        # Feature.LISTS: the only call site whose root is not a literal (`<list variable>` / 'list_')
        lists_words = sorted(set(voc) | {'list_', 'list__1', 'kq_l_1', 'x_1', 'y_1', 'x_2'})
        for kind in sorted(N.LISTS_TEMPLATES):
            for k in range(0, len(lists_words), 3):
                cases = [N.make_lists_case(progen.PRELUDE, kind, w) for w in [N.NEUTRAL] + lists_words[k:k + 3]]
                for c in cases:
                    c['group'] = len(adv)
                adv.append({'id': 500000 + len(adv), 'cases': cases, 'role': kind})
        for g in adv:
            g['kind'] = 'adversarial'
        groups += adv
    by_id = {g['id']: g for g in groups}
    results = run_groups(groups, parent, procs)
    run.cov['conversion_wall_s'] = round(time.time() - t0, 1)
    run.cov['conversion_cpu_s'] = round(sum(r.get('cpu_s', 0) for _, out in results for _, r, _ in out), 1)

    # ---------------------------------------------------------------- Lean: replay + classify every conversion
    flat = []          # (group, case, r, facts)
    infra = 0
    for g_id, out in results:
        for case, r, facts in out:
            if 'infra' in r:
                infra += 1
                run.notes.append('harness error on a case (not judged): ' + r['infra'][-300:])
                continue
            flat.append((by_id[g_id], case, r, facts))
    if infra > max(3, len(flat) // 50):
        raise common.InfraError('too many harness errors (%d)' % infra)
    lines, xlines = [], []
    for g, case, r, facts in flat:
        lines.append(replay_line(r))
        lines.append(classify_line(case, r, facts))
        xlines.append(why_line(r, facts))
        xlines.append(e2e_line(r, facts))
    answers = run.drive(lines) if run.driver_ok and lines else None
    xanswers = run.drive(xlines) if run.driver_ok and xlines else None
    # oracle (iv): class of a nested-scope clash = the class predicates evaluated on the facts of THAT scope
    slines, sref = [], []
    by_group = {}
    for g, case, r, facts in flat:
        by_group.setdefault(g['id'], []).append((case, r))
    n_iv = {'compared': 0, 'not_comparable': 0}
    for gid_, ent in by_group.items():
        if by_id[gid_].get('kind') != 'adversarial' or not ent or ent[0][0].get('word') != N.NEUTRAL:
            continue
        cc, cr = ent[0]
        if cr.get('load_error') or cr.get('convert_error'):
            continue
        for case, r in ent[1:]:
            if r.get('load_error'):
                continue
            try:
                sc = N.use_site_clashes(cc, cr, case, r)
            except RecursionError:
                sc = None
            if sc is None:
                n_iv['not_comparable'] += 1
                continue
            n_iv['compared'] += 1
            # hard-coded identifiers have their own clash condition (hardClash); (iv) is about namer-generated names
            r['scope_clashes'] = [x for x in sc if x[1] not in fixed_names]
    run.cov['use_site_oracle(iv)'] = n_iv
    for g, case, r, facts in flat:
        for sc in r.get('scope_clashes') or []:
            fu = dict(sc[2], ns=r.get('namespace', []))
            slines.append(classify_line(case, dict(r, block_var_roots=[]), fu))
            sref.append(sc)
    n_scope_clashes = len(sref)
    if run.driver_ok and slines:
        for sc, ans in zip(sref, run.drive(slines)):
            try:
                _, _, _, sp = parse_classify(ans)
            except Exception:
                sp = []
            cl = [c for x, c in sp if x == sc[1] and c in (CLS_BOUND_ONLY, CLS_NESTED)]
            sc.append(cl[0] if cl else None)
    run.cov['nested_scope_clashes(oracle iv)'] = n_scope_clashes
    dis_replay, dis_conv, dis_reads, dis_facts, dis_thm, dis_e2e, dis_why = [], [], [], [], [], [], []
    n_hyp_hold = 0
    why_dist, why_sets, e2e_stats = {}, {}, {'well_formed': 0, 'no_clash_class': 0, 'both': 0, 'not_well_formed_steps': {}}
    judged = []
    for k, (g, case, r, facts) in enumerate(flat):
        pairs = None
        if xanswers is not None and not r.get('load_error') and g.get('kind') in ('base', 'adversarial'):
            # (1) WHY is this conversion outside the hypotheses of C11_disjoint_partial?
            try:
                reasons = [tuple(e) for e in parse_sexp(xanswers[2 * k])]
                ev = {e[0]: e[1:] for e in parse_sexp(xanswers[2 * k + 1])}
            except Exception:
                reasons, ev = None, None
                dis_why.append({'case': case, 'answer': xanswers[2 * k][:200]})
            if reasons is not None:
                kinds = sorted({a for a, _ in reasons})
                for a in kinds or ['all_hypotheses_hold']:
                    why_dist[a] = why_dist.get(a, 0) + 1
                key = ' + '.join(kinds) or 'all_hypotheses_hold'
                why_sets[key] = why_sets.get(key, 0) + 1
                wf, nc = ev['well_formed'][0] == 'True', ev['no_clash_class'][0] == 'True'
                e2e_stats['well_formed'] += wf
                e2e_stats['no_clash_class'] += nc
                pre, passes, post, (i0, j0) = conversion_of(r)
                if not wf:
                    kk = ','.join(p[0] for p in passes)
                    e2e_stats['not_well_formed_steps'][kk] = e2e_stats['not_well_formed_steps'].get(kk, 0) + 1
                # the fold over the passes gives, pass by pass, the names the real passes were given
                real = [s[2] for s in r['symbols']]
                model_passes = [list(p) for p in ev['passes']]
                real_passes, pos = [], i0
                for step, calls in passes:
                    real_passes.append([step] + real[pos:pos + len(calls)])
                    pos += len(calls)
                if ev['pre'] != real[:i0] or model_passes != real_passes or ev['post'] != real[j0:]:
                    dis_e2e.append({'case': case, 'what': 'per-pass names differ', 'model': [ev['pre'], model_passes, ev['post']],
                                    'implementation': [real[:i0], real_passes, real[j0:]]})
                if wf and nc:
                    # instance of C11_conversion_end_to_end_partial on the REAL output
                    e2e_stats['both'] += 1
                    clash = [f for f in judge(case, dict(r, mismatches=[], convert_error=None), facts, fixed_names, []) if f[0].startswith('(i)')]
                    hard = sorted(fixed_names & set(real))
                    if clash or hard or len(set(real)) != len(real):
                        dis_e2e.append({'case': case, 'what': 'well-formed, no clash class, but: %s' % (clash[0][0] if clash else 'names repeat / hard-coded handed out')})
                    elif (r.get('mismatches') or r.get('convert_error')) and g.get('kind') == 'adversarial' and case.get('word') != N.NEUTRAL:
                        # behaviour is judged against the control further down; recorded here only as a statistic
                        e2e_stats['behaviour_differs_though_no_clash_class'] = e2e_stats.get('behaviour_differs_though_no_clash_class', 0) + 1
        if answers is not None:
            real_names = [s[2] for s in r['symbols']]
            try:
                m_names, m_final = parse_sexp(answers[2 * k])
            except Exception:
                m_names, m_final = None, None
            # names in call order, and the final generated_names set of the (single) namer of the conversion
            if m_names != real_names or (r.get('generated_final') is not None and sorted(m_final) != r['generated_final']) \
                    or (r['symbols'] and r.get('namers') != 1):
                dis_replay.append({'case': case, 'implementation': [real_names, r.get('generated_final'), r.get('namers')],
                                   'model': answers[2 * k][:600]})
            try:
                flags, conv_names, tr_names, pairs = parse_classify(answers[2 * k + 1])
            except Exception:
                dis_conv.append({'case': case, 'answer': answers[2 * k + 1][:300]})
                flags, pairs = None, None
            if flags is not None:
                # the abstraction the theorems are about holds of this recorded conversion
                if not flags['convof'] and not r.get('load_error'):
                    lacking = [[s[0], sorted(set(facts['read']) - set(s[1]))] for s in r['symbols']
                               if level_of(s) == 'converter' and not set(facts['read']) <= set(s[1])]
                    dis_reads.append({'case': case, 'requests_not_reserving_all_body_reads': lacking[:4]})
                # instance of C11_disjoint_partial on the REAL output: when all its hypotheses hold of this program and this
                # recorded request sequence, no name the real namer returned may be a user name
                if all(flags.values()) and not r.get('load_error'):
                    n_hyp_hold += 1
                    clash = [f for f in judge(case, dict(r, mismatches=[], convert_error=None), facts, set(), []) if f[0].startswith('(i)')]
                    if clash:
                        dis_thm.append({'case': case, 'clash': clash[0][0]})
        if r.get('body_referenced') is not None and sorted(r['body_referenced']) != sorted(facts['read']):
            dis_facts.append({'case': case, 'activity': sorted(r['body_referenced']), 'harness': facts['read']})
        judged.append((g, case, r, facts, pairs))

    # classes fall back to a Python evaluation of the same predicates only for attribution when the driver is unavailable
    def pairs_or_empty(p):
        return p if p is not None else []

    # ---------------------------------------------------------------- decide
    active = set()
    per_group = {}
    for g, case, r, facts, pairs in judged:
        per_group.setdefault(g['id'], []).append((case, r, facts, pairs))
    stats = {'roles': {}, 'classes': {}, 'control_failed_groups': 0, 'variants_not_loadable': 0, 'base_differential_mismatch': 0,
             'site_hits': {}, 'probe_cases': 0, 'converted': 0, 'convert_errors': 0}
    # witnesses of listed findings decide which classes are honoured in this run
    for g in groups:
        if g.get('kind') != 'witness':
            continue
        k = g['finding']
        ent = per_group.get(g['id'])
        if not ent:
            continue
        case, r, facts, pairs = ent[0]
        fails = judge(case, r, facts, fixed_names, pairs_or_empty(pairs))
        run.case(('witness', k['id']), True)
        if fails and any(f[1] == k['class'] for f in fails):
            active.add(k['class'])
        else:
            run.notes.append('listed finding %s: witness no longer fails in its class (%r) - class not honoured in this run'
                             % (k['id'], [(f[0][:60], f[1]) for f in fails]))

    brief = []

    def fail(what, case, cls):
        run.fail(what, case, cls if cls in active else None)
        if len(brief) < 600:
            brief.append([case.get('role'), case.get('word'), cls, what[:70]])
        stats['classes'][cls or 'UNCLASSIFIED'] = stats['classes'].get(cls or 'UNCLASSIFIED', 0) + 1

    for g in groups:
        ent = per_group.get(g['id'], [])
        kind = g.get('kind')
        if kind == 'witness':
            case, r, facts, pairs = ent[0]
            for f in judge(case, r, facts, fixed_names, pairs_or_empty(pairs))[:1]:
                fail(f[0], dict(case, detail=f[2]), f[1])
            continue
        if kind == 'corpus':
            case, r, facts, pairs = ent[0]
            c = g['corpus']
            fails = judge(case, r, facts, fixed_names, pairs_or_empty(pairs))
            run.case(('corpus', c['file']), True)
            if c.get('expect') == 'passes':
                for f in fails[:1]:
                    fail('corpus case expected to pass: ' + f[0], dict(case, detail=f[2], corpus=c['file']), f[1])
            else:
                for f in fails[:1]:
                    fail(f[0], dict(case, detail=f[2], corpus=c['file']), f[1])
                if not fails:
                    run.notes.append('corpus case %s no longer fails' % c['file'])
            continue
        if kind == 'replay':
            case, r, facts, pairs = ent[0]
            fails = judge(case, r, facts, fixed_names, pairs_or_empty(pairs))
            print(json.dumps({'symbols': [[s[0], s[2], s[3]] for s in r['symbols']], 'convert_error': r.get('convert_error'),
                              'mismatches': r.get('mismatches'), 'classes': pairs, 'failures': [[f[0], f[1]] for f in fails]}, indent=1, default=str)[:6000])
            run.case(('replay',), True)
            for f in fails[:1]:
                fail(f[0], dict(case, detail=f[2]), f[1])
            continue
        if kind == 'base':
            for case, r, facts, pairs in ent:
                if r.get('load_error'):
                    continue
                for s in r['symbols']:
                    stats['site_hits'][s[3] + ':' + s[4]] = stats['site_hits'].get(s[3] + ':' + s[4], 0) + 1
                run.case(('base', case['base']), any(level_of(s) == 'converter' for s in r['symbols']))
                if r.get('mismatches') or r.get('convert_error'):
                    stats['base_differential_mismatch'] += 1       # C01's concern: progen names are not vocabulary words
                # oracle (i) only
                for f in judge(case, dict(r, mismatches=[], convert_error=None), facts, fixed_names, pairs_or_empty(pairs))[:1]:
                    fail(f[0], dict(case, detail=f[2]), f[1])
            continue
        # adversarial group: first entry is the control
        if not ent:
            continue
        ctrl = ent[0]
        if ctrl[0].get('word') != N.NEUTRAL:
            continue
        cr = ctrl[1]
        if cr.get('load_error'):
            stats['variants_not_loadable'] += 1
            continue
        ctrl_fails = judge(ctrl[0], cr, ctrl[2], fixed_names, pairs_or_empty(ctrl[3]))
        ctrl_behaviour = [f for f in ctrl_fails if not f[0].startswith('(i)')]
        ctrl_syntactic = [f for f in ctrl_fails if f[0].startswith('(i)')]
        for f in ctrl_syntactic[:1]:          # a clash without any vocabulary word in the program: never expected
            fail(f[0], dict(ctrl[0], detail=f[2]), f[1])
        if ctrl_behaviour:
            stats['control_failed_groups'] += 1
        for case, r, facts, pairs in ent[1:]:
            if r.get('load_error'):
                stats['variants_not_loadable'] += 1
                continue
            role = case['role']
            if case.get('variant'):
                stats.setdefault('variants', {}).setdefault(role.split(':')[0], {})
                vv = stats['variants'][role.split(':')[0]]
                vv[case['variant']] = vv.get(case['variant'], 0) + 1
            rs = stats['roles'].setdefault(role, {'cases': 0, 'failing': 0, 'words': set()})
            rs['cases'] += 1
            rs['words'].add(case['word'])
            for s in r['symbols']:
                stats['site_hits'][s[3] + ':' + s[4]] = stats['site_hits'].get(s[3] + ':' + s[4], 0) + 1
            if r.get('convert_error'):
                stats['convert_errors'] += 1
            else:
                stats['converted'] += 1
            if case.get('probed'):
                stats['probe_cases'] += 1
            nontriv = any(level_of(s) == 'converter' for s in r['symbols'])
            run.case(('adv', case['base'], role, case['word'], case['recursive']), nontriv)
            fails = judge(case, r, facts, fixed_names, pairs_or_empty(pairs))
            if ctrl_behaviour:
                fails = [f for f in fails if f[0].startswith('(i)')]     # behaviour is not attributable to the name here
            if fails:
                rs['failing'] += 1
            for f in fails[:1]:
                fail(f[0], dict(case, detail=f[2], all_failures=[x[0] for x in fails]), f[1])
            if len(run.samples) < 5 and (fails or nontriv) and len(run.samples) < (2 if not fails else 5):
                run.sample({'role': role, 'word': case['word'], 'function': case['source'][case['source'].find('def ' + case['fname']):][:700],
                            'new_symbol': [[s[0], s[2]] for s in r['symbols']][:12], 'failure': fails[0][0] if fails else None,
                            'class': fails[0][1] if fails else None})
    pairs_total = sum(len(rs['words']) for rs in stats['roles'].values())
    for rs in stats['roles'].values():
        rs['words'] = len(rs['words'])
    run.cov['role_word_pairs_covered'] = pairs_total
    run.cov['role_variants_covered'] = {k: {'distinct': len(v), 'cases': sum(v.values())} for k, v in stats.get('variants', {}).items()}
    run.cov['failing_cases_brief'] = sorted(brief, key=lambda b: (str(b[0]), str(b[1])))
    run.cov['exhaustive'] = False       # every (role, word) pair is used at least once per sweep; programs and positions are sampled
    run.cov.update({'roles': stats['roles'], 'failing_by_class': stats['classes'], 'control_failed_groups': stats['control_failed_groups'],
                    'variants_not_loadable': stats['variants_not_loadable'], 'base_differential_mismatch_C01': stats['base_differential_mismatch'],
                    'call_sites_hit': stats['site_hits'], 'probe_cases': stats['probe_cases'], 'converted': stats['converted'],
                    'convert_errors': stats['convert_errors'], 'active_classes': sorted(active), 'procs': procs})

    # ---------------------------------------------------------------- correspondence obligations
    if run.driver_ok and answers is not None:
        run.oblige('correspondence:c11.replay(conversions)', 'correspondence', not dis_replay, json.dumps(dis_replay[:2], default=str)[:1800])
        run.oblige('correspondence:c11.classify(parse)', 'correspondence', not dis_conv, json.dumps(dis_conv[:2], default=str)[:1800])
        run.oblige('correspondence:reserved-covers-body-reads', 'correspondence', not dis_reads, json.dumps(dis_reads[:2], default=str)[:1800])
        run.oblige('correspondence:c11.e2e(per-pass names, pipeline order)', 'correspondence', not [d for d in dis_e2e if d['what'] == 'per-pass names differ'] and not dis_why,
                   json.dumps(([d for d in dis_e2e if d['what'] == 'per-pass names differ'] + dis_why)[:2], default=str)[:1800])
        run.oblige('checker:C11_conversion_end_to_end_partial-instances-on-real-output', 'checker', not [d for d in dis_e2e if d['what'] != 'per-pass names differ'],
                   json.dumps([d for d in dis_e2e if d['what'] != 'per-pass names differ'][:2], default=str)[:1800])
        for d in [d for d in dis_e2e if d['what'] != 'per-pass names differ'][:3]:
            run.fail('hypotheses of C11_conversion_end_to_end_partial hold but ' + d['what'], d['case'], None)
        run.cov['why_outside_hypotheses(generated corpus)'] = {'conversions': sum(why_sets.values()), 'by_reason': dict(sorted(why_dist.items(), key=lambda kv: -kv[1])),
                                                                'by_reason_set': dict(sorted(why_sets.items(), key=lambda kv: -kv[1])[:25])}
        run.cov['end_to_end'] = e2e_stats
        run.oblige('checker:C11_disjoint_partial-instances-on-real-output', 'checker', not dis_thm, json.dumps(dis_thm[:2], default=str)[:1800])
        run.cov['conversions_satisfying_all_hypotheses'] = n_hyp_hold
        for d in dis_thm[:3]:
            run.fail('hypotheses of C11_disjoint_partial hold but ' + d['clash'], d['case'], None)
        run.cov['conversions_replayed'] = len(flat)
        # tables the driver was built with = what the translator reads now
        tb = {e[0]: e[1:] for e in parse_sexp(run.drive(['c11.tables'])[0])}
        roots = []
        for s in facts0['conv_sites']:
            if s[2] in ('lit', 'default') and s[3] not in roots:
                roots.append(s[3])
        ok = (tb['converterRoots'] == roots and set(tb['fixed']) == fixed_names and tb['introSites'] == [str(len(facts0['intro_sites']))] and tb['prefix'] == [facts0['prefix']]
              and tb['lam'] == [facts0['lam']])
        run.oblige('correspondence:c11.tables', 'correspondence', ok, json.dumps(tb)[:600])
        if only_case is None:
            repo_why(run)
            ulines, uexpect = namer_unit_stream(run, 1500 if quick else 12000)
            got = run.drive(ulines)
            bad = [{'request': l, 'implementation': e, 'model': g} for l, e, g in zip(ulines, uexpect, got) if e != g]
            run.oblige('correspondence:c11.replay(namer-unit)', 'correspondence', not bad, json.dumps(bad[:3])[:1800])
            run.cov['namer_unit_sequences'] = len(ulines)
            run.sample({'request': ulines[0], 'implementation': uexpect[0], 'model': got[0]})
    else:
        run.oblige('correspondence:c11', 'correspondence', False, 'driver unavailable')
    run.oblige('correspondence:body-reads(harness analysis = activity.py)', 'correspondence', not dis_facts, json.dumps(dis_facts[:2], default=str)[:1800])
    # every call site the translator lists was exercised
    if only_case is None:
        want_sites = {s[0] + ':' + s[1].split('.')[-1] for s in facts0['conv_sites'] + facts0['tr_sites']}
        missing = sorted(want_sites - set(stats['site_hits']))
        run.cov['call_sites_not_exercised'] = missing
        run.oblige('coverage:every-new_symbol-call-site-exercised', 'correspondence', not missing, 'not exercised: %s' % missing)
    run.cov['search'] = ('direct oracles (name-set intersection, differential run with control, probes) on %d conversions of the real '
                         'code: %d adversarial cases over %d roles, corpus and finding witnesses' % (len(flat), sum(v['cases'] for v in stats['roles'].values()), len(stats['roles'])))


def replay(run, path):
    with open(path) as f:
        rep = json.load(f)
    case = rep.get('case', rep)
    case = {k: v for k, v in case.items() if k not in ('detail', 'corpus', 'all_failures')}
    check(run, only_case=case)
    return run.finish()
