"""C16 — conversion-status context is restored on every exit and isolated per thread.

1. Direct oracle (no Lean needed): random call trees built from the REAL wrappers (malt.convert, api.do_not_convert,
   call_with_unspecified_conversion_status, internal_convert, ControlStatusCtx blocks, FunctionScope /
   with_function_scope, to_graph'd functions and lambdas, recursive conversion of callees) are run alone and in 1..16
   threads; `ag_ctx.control_status_ctx()` is observed before/inside/after every node, exceptions are raised at
   arbitrary nodes and caught at arbitrary ancestors.  Checked: every body sees one and the same context object at all
   its observation points (so every call restored it, however it ended); the statuses the property names; nothing but
   the user's exception escapes; the thread's list ends as it began; each thread's log under concurrency equals the
   log of the same tree run alone.
   Each observation also records whether the observing body is malt's conversion of the function or the function as
   written (frame inspection) — not part of the property's text, but it is where the status is *consulted*.
2. Translator: `tools/extract_ctx.py` regenerates `Generated/Ctx.lean` (Status enum, the status each wrapper enters,
   internal_convert's table, the status under which converted_call converts nothing, statement shapes of the code).
3. Correspondence: the same logs (identities, statuses, converted-or-not, outcome, final list) against the Lean model
   (`MaltModel/Rt/Ctx.lean`) through the line protocol; the verified log checker `checkThread` on the real logs; the
   model's small-step machine and interleavings against its big-step semantics.
"""
import collections, glob, json, os, subprocess, sys, time

import common
from common import sexp, parse_sexp
import c16_exec as X

MODEL_FILES = ['MaltModel/Rt/Ctx.lean', 'MaltModel/Generated/Ctx.lean', 'MaltModel/Proofs/C16.lean', 'MaltModel/Drv/C16.lean']
KINDS = ['plain', 'dnc', 'unspec', 'ctx', 'fs', 'conv', 'iconv']
REFUSED_FEATURES = ['NAME_SCOPES', 'AUTO_CONTROL_DEPS', 'ALL', 'LISTS+NAME_SCOPES']


# ---------------------------------------------------------------------- generation
def gen_node(rng, budget, depth, maxdepth):
    """A random node using at most `budget` nodes; returns (node, used)."""
    k = rng.choices(KINDS, weights=[22, 14, 8, 10, 16, 18, 12])[0]
    nd = {'k': k, 'v': rng.choices(['for', 'while', 'meth', 'partial', 'callable', 'localdef', 'locallambda', 'twolevel', 'localclass'],
                                   weights=[5, 3, 2, 1, 1, 2, 1, 1, 1])[0]}
    if k == 'dnc':
        nd['via'] = rng.choice(['api', 'experimental'])
    elif k == 'ctx':
        nd['st'] = rng.choice('UED')
        nd['via'] = rng.choice(['helper', 'src'])
    elif k == 'fs':
        nd['ur'] = rng.random() < 0.65
        nd['via'] = rng.choice(['scope', 'wfs', 'tograph', 'tograph_lam'] if nd['ur'] else ['scope', 'wfs'])
        nd['rec'] = rng.random() < 0.8
        if nd['via'] == 'tograph' and nd['v'] not in X.PLAIN_FUNCTION_VARIANTS:
            nd['v'] = 'for'
        if rng.random() < 0.15:
            nd['feat'] = rng.choice(REFUSED_FEATURES)
    elif k == 'conv':
        nd['ur'] = rng.random() < 0.6
        nd['c'] = rng.choice(['null', 'null', 'current', 'default', ['obj', rng.randrange(X.N_SHARED)], ['obj', rng.randrange(X.N_SHARED)]])
        nd['rec'] = rng.random() < 0.8
        nd['via'] = rng.choice(['api', 'malt'])
        if rng.random() < 0.15:
            nd['feat'] = rng.choice(REFUSED_FEATURES)
    elif k == 'iconv':
        nd['ur'] = rng.random() < 0.5
        nd['c'] = rng.choice(['current', 'default', 'default', ['obj', rng.randrange(X.N_SHARED)], ['obj', rng.randrange(X.N_SHARED)]])
        nd['cbd'] = rng.random() < 0.5
        nd['via'] = rng.choice(['api', 'malt'])
    if _COMPOSE[0] and rng.random() < 0.25 and not nd.get('feat'):
        nd['over'] = [rng.choice(['dnc', 'dnc', 'unspec', ['conv', True], ['conv', False]]) for _ in range(rng.choice([1, 1, 2]))]
    if depth > 0 and rng.random() < 0.14 and gen_allowed(nd) and not nd.get('over'):
        nd['v'] = rng.choice(['gen', 'gen', 'genmeth'])
        if rng.random() < 0.2:
            nd['take'] = rng.randrange(0, 3)
    used = 1
    ch = []
    if depth < maxdepth:
        room = budget - used
        nkids = rng.choices([0, 1, 2, 3, 4], weights=[3, 4, 4, 2, 1] if room < 4 else [1, 4, 5, 3, 2])[0]
        for _ in range(nkids):
            if used >= budget:
                break
            c, u = gen_node(rng, budget - used, depth + 1, maxdepth)
            ch.append(c)
            used += u
    nd['ch'] = ch
    nd['ra'] = rng.randrange(len(ch) + 1) if rng.random() < 0.3 else None
    if nd['ra'] is not None and rng.random() < 0.35:
        nd['exc'] = rng.choice(['frozen', 'setattr', 'base', 'basesetattr'])
    nd['ca'] = rng.random() < 0.35
    return nd, used


def gen_allowed(nd):
    """Wrappers under which a *generator function* callee is handed over as it is (malt does not convert generator
    functions; kinds that would try to, or whose source-level block does not return the generator, are left out)."""
    k = nd['k']
    if nd.get('feat'):
        return False
    if k in ('plain', 'dnc', 'unspec'):
        return True
    if k == 'ctx':
        return nd.get('via') == 'helper'
    if k == 'fs':
        return nd.get('via') in ('scope', 'wfs')
    if k in ('conv', 'iconv'):
        return not nd['ur']
    return False


def tied(t):
    """Is the whole tree within what the model describes?  (Not: generators the consumer leaves suspended.)"""
    return all(nd.get('take') is None and not nd.get('over') for nd, _ in nodes_of(t))


def capture_matrix():
    """Exhaustive: a context captured elsewhere (the thread's default, a shared object of each status, or the current one)
    handed to internal_convert / convert inside every kind of enclosing region, x convert_by_default x user_requested,
    the wrapped function returning or raising (caught by the region's body)."""
    def N(k, ch=(), ra=None, ca=False, **kw):
        d = dict(k=k, v=kw.pop('v', 'for'), ch=list(ch), ra=ra, ca=ca)
        d.update(kw)
        return d
    regions = [lambda x: N('plain', [x], None, True), lambda x: N('dnc', [x], None, True, via='api'),
               lambda x: N('ctx', [x], None, True, st='E', via='helper'), lambda x: N('unspec', [x], None, True),
               lambda x: N('ctx', [x], None, True, st='D', via='src'), lambda x: N('fs', [x], None, True, ur=True, via='scope'),
               lambda x: N('fs', [x], None, True, ur=True, via='tograph', rec=True),
               lambda x: N('conv', [x], None, True, ur=True, c='null', rec=True, via='malt')]
    out = []
    for ri, region in enumerate(regions):
        for c in ('default', ['obj', 0], ['obj', 1], ['obj', 2], 'current'):
            for cbd in (True, False):
                for ur in (True, False):
                    ra = 1 if (ri + cbd + ur) % 2 else None
                    out.append(N('plain', [region(N('iconv', [N('plain')], ra, False, c=c, cbd=cbd, ur=ur, via='malt' if ur else 'api',
                                                    v=('while', 'for', 'meth')[ri % 3]))]))
            for ur in (True, False):
                out.append(N('plain', [region(N('conv', [N('plain')], None, False, c=c, ur=ur, rec=True, via='api'))]))
    return out


_COMPOSE = [False]     # does the tree being generated use wrapper composition (such trees are not sent to the model)


def gen_tree(rng, maxsize, maxdepth):
    _COMPOSE[0] = rng.random() < 0.25
    return gen_node(rng, max(rng.randint(1, maxsize), rng.randint(1, maxsize)), 0, maxdepth)[0]


def nodes_of(t, depth=0):
    yield t, depth
    for c in t['ch']:
        yield from nodes_of(c, depth + 1)


def tree_stats(t, cov):
    n = 0
    for nd, d in nodes_of(t):
        n += 1
        cov['kinds'][nd['k'] + (':' + nd.get('via', '') if nd.get('via') else '') + ('+refused-feature' if nd.get('feat') else '')] += 1
        cov['variants'][nd.get('v', 'for')] += 1
        if nd.get('over'):
            cov['composed_wrappers']['+'.join(w if isinstance(w, str) else 'conv' for w in nd['over']) + ' over ' + nd['k']] += 1
        if nd.get('exc') and nd['ra'] is not None:
            cov['exception_kinds'][nd['exc']] += 1
        if X.is_gen(nd):
            cov['generator_callees'][nd['k'] + (':' + nd.get('via', '') if nd.get('via') else '')] += 1
        if nd['ra'] is not None:
            cov['raise_depth'][d] += 1
        if nd['ca']:
            cov['catch_depth'][d] += 1
    cov['tree_size'][min(n, 40) // 5 * 5] += 1
    return n


def exception_travel(clog):
    """For each `caught` observation: how many levels below the catcher the exception was raised (from the log)."""
    out = []
    last_in = None
    for path, pt, conv, cid, st in clog:
        if pt == 'in':
            last_in = path
        elif pt == 'caught' and last_in is not None:
            out.append(max(0, len(last_in) - len(path)))
    return out


# ---------------------------------------------------------------------- shrinking
def shrink_variants(t):
    """Smaller / simpler variants of a tree."""
    for c in t['ch']:
        yield c                                            # promote a child
    for i in range(len(t['ch'])):
        ch = t['ch'][:i] + t['ch'][i + 1:]
        ra = t['ra']
        if ra is not None and ra > i:
            ra -= 1
        yield dict(t, ch=ch, ra=ra)
    if t['ra'] is not None:
        yield dict(t, ra=None)
    if t['ca']:
        yield dict(t, ca=False)
    if t.get('feat'):
        yield {k: v for k, v in t.items() if k != 'feat'}
    if X.is_gen(t) and t.get('v') != 'gen':
        yield dict(t, v='gen')
    if t.get('take') is not None:
        yield {k: v for k, v in t.items() if k != 'take'}
    if t.get('over'):
        yield dict(t, over=t['over'][1:])
        yield dict(t, over=t['over'][:-1])
    if t.get('exc'):
        yield {k: v for k, v in t.items() if k != 'exc'}
    if t['k'] != 'plain':
        yield {'k': 'plain', 'v': t.get('v', 'for'), 'ch': t['ch'], 'ra': t['ra'], 'ca': t['ca']}
    if t.get('v', 'for') != 'for' and not (t['k'] == 'fs' and t.get('via') == 'tograph_lam') and not X.is_gen(t):
        yield dict(t, v='for')
    for i, c in enumerate(t['ch']):
        for c2 in shrink_variants(c):
            yield dict(t, ch=t['ch'][:i] + [c2] + t['ch'][i + 1:])


def size(t):
    return sum(1 for _ in nodes_of(t))


def complexity(t):
    return sum(3 + (nd['k'] != 'plain') + (nd['ra'] is not None) + nd['ca'] + (nd.get('v', 'for') != 'for') + bool(nd.get('feat')) + len(nd.get('over') or []) + bool(nd.get('exc')) for nd, _ in nodes_of(t))


def shrink(t, fails, budget=300):
    """Greedy: keep any simpler variant on which `fails` still holds."""
    improved = True
    while improved and budget > 0:
        improved = False
        for v in shrink_variants(t):
            if complexity(v) >= complexity(t):
                continue
            budget -= 1
            if budget <= 0:
                break
            try:
                bad = fails(v)
            except Exception:
                bad = False
            if bad:
                t, improved = v, True
                break
    return t


# ---------------------------------------------------------------------- one case on the real code
def seq_problems(tree):
    env = X.run_alone(tree)
    cl = X.canon_log(env)
    return X.oracle(env, cl), env, cl


def together_problems(trees, mode, schedule, jitter_seed, refs=None):
    """Run all trees concurrently; per-thread problems (own oracle + difference from the single-thread log)."""
    if refs is None:
        refs = []
        for t in trees:
            e = X.run_alone(t)
            refs.append((X.canon_log(e), e.outcome))
    envs, used = X.run_together(trees, mode, schedule, jitter_seed)
    out = []
    for i, (env, (rl, ro)) in enumerate(zip(envs, refs)):
        cl = X.canon_log(env)
        probs = ['thread %d: %s' % (i, p) for p in X.oracle(env, cl)]
        if cl != rl or env.outcome != ro:
            k = next((j for j, (a, b) in enumerate(zip(cl, rl)) if a != b), min(len(cl), len(rl)))
            probs.append('thread %d of %d: log under concurrency differs from the log of the same tree run alone at '
                         'observation %d: %s vs alone %s (outcome %s vs %s)' % (
                             i, len(trees), k, cl[k] if k < len(cl) else None, rl[k] if k < len(rl) else None, env.outcome, ro))
        out.append((probs, env, cl))
    return out, used


def evaluate_case(case):
    """Problems the direct oracle finds on one recorded case, in this process."""
    mode = case.get('mode', 'seq')
    if mode == 'seq':
        probs = []
        for t in case['trees']:
            probs += seq_problems(t)[0]
        return probs
    res, _ = together_problems(case['trees'], mode, case.get('schedule'), case.get('jitter_seed', 0))
    return [p for pr, _, _ in res for p in pr]


def fresh_eval(case, attempts=1):
    """The same in a fresh interpreter (nothing left behind by earlier cases can matter); concurrent cases are tried
    `attempts` times.  Returns the problems of the first failing attempt, [] if none failed, None on infrastructure trouble."""
    req = json.dumps({'case': {k: case.get(k) for k in ('mode', 'trees', 'schedule', 'jitter_seed')}, 'attempts': attempts})
    try:
        p = subprocess.run([sys.executable, os.path.abspath(__file__), '--case-worker'], input=req, text=True,
                           stdout=subprocess.PIPE, stderr=subprocess.PIPE, timeout=600,
                           env=dict(os.environ, MALT_REPO=common.REPO))
        return json.loads(p.stdout.strip().split('\n')[-1])['problems']
    except Exception:
        return None


def case_worker():
    sys.path.insert(0, common.REPO)
    req = json.loads(sys.stdin.read())
    probs = []
    for a in range(int(req.get('attempts', 1))):
        case = dict(req['case'])
        case['jitter_seed'] = (case.get('jitter_seed') or 0) + a
        probs = evaluate_case(case)
        if probs:
            break
    print(json.dumps({'problems': probs[:8]}))


def minimise(case, budget_s=90):
    """Shrink a failing case; every candidate is judged in a fresh interpreter.  Returns (case, confirmed)."""
    attempts = 1 if case.get('mode', 'seq') == 'seq' else 4
    t_end = time.time() + budget_s
    probs = fresh_eval(case, attempts)
    if not probs:
        return dict(case, note='observed in the long-running harness process only; not reproduced in a fresh interpreter'), False
    trees = list(case['trees'])

    def fails(ts):
        if time.time() > t_end:
            return None
        return fresh_eval(dict(case, trees=ts), attempts) or None
    minthreads = 1 if case.get('mode', 'seq') == 'seq' else 2
    changed = True
    while changed and len(trees) > minthreads:
        changed = False
        for i in range(len(trees)):
            cand = trees[:i] + trees[i + 1:]
            if len(cand) >= minthreads and fails(cand):
                trees, changed = cand, True
                break
    for i in range(len(trees)):
        trees[i] = shrink(trees[i], lambda v, i=i: bool(fails(trees[:i] + [v] + trees[i + 1:])), budget=60)
    final = fresh_eval(dict(case, trees=trees), attempts)
    if final:
        out = dict(case, trees=trees, problems=final[:5])
        if trees != case['trees']:
            out['unshrunk'] = {'threads': len(case['trees']), 'trees': case['trees']}
        return out, True
    return dict(case, problems=probs[:5]), True


class Checker(object):
    def __init__(self, run):
        self.run = run
        self.cov = {'kinds': collections.Counter(), 'variants': collections.Counter(), 'raise_depth': collections.Counter(),
                    'catch_depth': collections.Counter(), 'tree_size': collections.Counter(), 'generator_callees': collections.Counter(), 'composed_wrappers': collections.Counter(), 'exception_kinds': collections.Counter(),
                    'threads': collections.Counter(), 'outcomes': collections.Counter(),
                    'exception_travel_levels': collections.Counter(), 'status_inside': collections.Counter(),
                    'log_length': collections.Counter(), 'max_stack_depth_model': collections.Counter()}
        self.model_jobs = []          # (line, expected (outcome, log, stack), what, case)
        self.n_seq = self.n_conc = 0
        self.n_failed = 0
        self.stop = False

    # ---- sequential case
    def seq_case(self, tree, origin='generated', shrink_it=True):
        run = self.run
        probs, env, cl = seq_problems(tree)
        n = tree_stats(tree, self.cov)
        self.n_seq += 1
        if not tied(tree):
            self.cov['trees_judged_by_direct_oracle_only'] = self.cov.get('trees_judged_by_direct_oracle_only', 0) + 1
        self.cov['outcomes'][env.outcome[0]] += 1
        self.cov['log_length'][min(len(cl), 200) // 20 * 20] += 1
        for lv in exception_travel(cl):
            self.cov['exception_travel_levels'][min(lv, 6)] += 1
        for path, pt, conv, cid, st in cl:
            if pt == 'in':
                self.cov['status_inside'][env.nodes[tuple(path)]['k'] + '=' + st + ('/converted' if conv else '/native')] += 1
        key = json.dumps(X.tree_sexp(tree))
        run.case(('seq', key), nontrivial=(n >= 2 and any(nd['k'] != 'plain' for nd, _ in nodes_of(tree))))
        if len(run.samples) < 2 and n >= 4 and env.outcome[0] == 'boom':
            run.sample({'tree': tree, 'real_log': cl, 'outcome': env.outcome})
        if probs:
            self.report({'mode': 'seq', 'trees': [tree], 'problems': probs[:5], 'origin': origin}, shrink_it)
        if tied(tree):
          self.model_jobs.append(('c16.run ' + sexp(X.tree_sexp(tree)), (env.outcome, X.model_view(cl), X.canon_stack(env)), 'run',
                                {'mode': 'seq', 'trees': [tree]}))
        return probs, cl, env.outcome

    # ---- concurrent case
    def conc_case(self, trees, mode, schedule, jitter_seed, origin='generated', shrink_it=True):
        run = self.run
        refs = []
        for t in trees:
            probs, cl, outc = self.seq_case(t, origin, shrink_it)
            refs.append((cl, outc))
        res, used = together_problems(trees, mode, schedule, jitter_seed, refs)
        self.n_conc += 1
        self.cov['threads'][len(trees)] += 1
        run.case(('conc', mode, len(trees), json.dumps([X.tree_sexp(t) for t in trees]), json.dumps(schedule)), nontrivial=len(trees) >= 2)
        allp = [p for probs, _, _ in res for p in probs]
        if allp:
            self.report({'mode': mode, 'trees': trees, 'schedule': schedule, 'jitter_seed': jitter_seed, 'problems': allp[:5],
                         'origin': origin}, shrink_it)
        for (probs, env, cl), t in zip(res, trees):
            if tied(t):
              self.model_jobs.append(('c16.run ' + sexp(X.tree_sexp(t)), (env.outcome, X.model_view(cl), X.canon_stack(env)), 'run-threaded',
                                    {'mode': mode, 'trees': trees, 'schedule': schedule, 'jitter_seed': jitter_seed}))
        return allp

    def report(self, case, shrink_it):
        """A failing case: minimise it (first few only — minimisation costs fresh interpreters) and record it."""
        self.n_failed += 1
        if self.stop:
            return          # an earlier case already failed: the interpreter may be in a state that case left behind
        if shrink_it:
            case, confirmed = minimise(case)
            case['confirmed_in_fresh_interpreter'] = confirmed
            self.stop = True
        self.run.fail(case['problems'][0], case)

    # ---- correspondence with the Lean model
    def correspond(self):
        run = self.run
        if not run.driver_ok:
            run.oblige('correspondence:c16.run', 'correspondence', False, 'driver unavailable')
            return
        lines = [j[0] for j in self.model_jobs]
        uniq = sorted(set(lines))
        ans = dict(zip(uniq, run.drive(uniq)))
        dis = collections.defaultdict(list)
        for line, (outc, cl, stk), what, case in self.model_jobs:
            a = ans[line]
            run.evaluations += 1
            try:
                mo, ml, ms = X.model_answer(parse_sexp(a))
            except Exception:
                dis[what].append({'request': line, 'model': a[:300]})
                continue
            depth_ok = stk is None or stk == ms
            if (mo, ml) != (outc, cl) or not depth_ok:
                k = next((j for j, (x, y) in enumerate(zip(cl, ml)) if x != y), min(len(cl), len(ml)))
                dis[what].append({'case': case, 'first_difference_at': k,
                                  'implementation': cl[k] if k < len(cl) else None, 'model': ml[k] if k < len(ml) else None,
                                  'outcome_impl': outc, 'outcome_model': mo, 'stack_impl': stk, 'stack_model': ms})
        for what in ('run', 'run-threaded'):
            d = dis.get(what, [])
            run.oblige('correspondence:c16.%s' % what, 'correspondence', not d, json.dumps(d[:2], default=str) if d else '')
        # the verified checker (`checkThread`, Props: C16_model_logs_pass_checker / C16_checker_meaning) on the REAL logs
        jobs = [(j, 'c16.check %s %s' % (j[0].split(' ', 1)[1], sexp(X.log_sexp(j[1][1])))) for j in self.model_jobs]
        verdicts = run.drive([l for _, l in jobs])
        rejected = [(j, v) for (j, _), v in zip(jobs, verdicts) if v != 'True']
        run.evaluations += len(jobs)
        run.oblige('checker:c16.checkThread-accepts-real-logs', 'checker', not rejected,
                   json.dumps([{'case': j[3], 'verdict': v, 'log': j[1][1]} for j, v in rejected[:2]], default=str) if rejected else '')
        # (a rejection is a broken obligation; whether it is a violation of the property's text is for the direct oracle,
        #  which has judged the same logs: the checker also demands that converted code never runs under DISABLED)
        self.cov['checker_logs'] = len(jobs)
        # the model's own machine and interleavings, on the same trees (executable counterpart of the theorems)
        sample = uniq[:: max(1, len(uniq) // (400 if run.tier == 'quick' else 3000))]
        mach = run.drive([l.replace('c16.run', 'c16.machine', 1) for l in sample])
        bad = []
        for l, m in zip(sample, mach):
            a, b = parse_sexp(ans[l]), parse_sexp(m)
            run.evaluations += 1
            if a[:3] != b[:3] or b[3] != 'True':
                bad.append({'request': l, 'run': ans[l][:200], 'machine': m[:200]})
        run.oblige('model:machine-equals-bigstep', 'correspondence', not bad, json.dumps(bad[:2]))
        bad = []
        trees = [l.split(' ', 1)[1] for l in sample]
        reqs, groups = [], []
        for g in range(0, len(trees), 5):
            grp = trees[g:g + 5]
            sched = [run.rng.randrange(len(grp)) for _ in range(run.rng.randrange(0, 400))]
            reqs.append('c16.sched (%s) %s' % (' '.join(grp), sexp(sched)))
            groups.append(grp)
        for req, grp, a in zip(reqs, groups, run.drive(reqs)):
            got = parse_sexp(a)
            for tsx, th in zip(grp, got):
                run.evaluations += 1
                want = parse_sexp(ans['c16.run ' + tsx])
                if th[:3] != want[:3] or th[3] != 'True':
                    bad.append({'request': req[:300], 'thread': th[:2], 'sequential': want[:2]})
        run.oblige('model:interleaving-equals-sequential', 'correspondence', not bad, json.dumps(bad[:2], default=str))
        self.cov['correspondence_lines'] = len(lines)
        self.cov['correspondence_distinct_trees'] = len(uniq)
        if len(run.samples) < 4 and uniq:
            run.sample({'request': uniq[len(uniq) // 2][:600], 'model': ans[uniq[len(uniq) // 2]][:600]})


def run_case_dict(chk, case, origin):
    """A recorded case (corpus / replay): run it through the same oracles.  Returns the problems found."""
    mode = case.get('mode', 'seq')
    trees = case['trees']
    if mode == 'seq':
        probs = []
        for t in trees:
            probs += chk.seq_case(t, origin, shrink_it=False)[0]
        return probs
    probs = []
    for rep in range(int(case.get('repeat', 3))):
        probs = chk.conc_case(trees, mode, case.get('schedule'), case.get('jitter_seed', 0) + rep, origin, shrink_it=False)
        if probs:
            break
    return probs


def check(run, only_case=None):
    run.rule = ('a case is a call tree (node kinds plain / do_not_convert / unspecified / ControlStatusCtx block / FunctionScope, '
                'with_function_scope, to_graph / convert(user_requested, conversion_ctx) / internal_convert(ctx, convert_by_default, '
                'user_requested), each realised by the real API, bodies converted or not, a raise point and a catch flag per node) '
                'run alone, or a list of 1..16 such trees run concurrently (free-running with a 1 us switch interval, or with a '
                'prescribed interleaving of observation points); trees from run.rng; distinct = distinct tree (and thread '
                'assignment / schedule); non-trivial = at least two nodes and one wrapper, or at least two threads')
    run.assumptions += [
        'threading.local gives every thread its own `stacks.control_status` (CPython runtime); the model has one context list per thread',
        'the harness observes through ag_ctx.control_status_ctx() only; its helper methods are marked autograph artifacts so that converted code calls them directly',
        'object identity is compared while every observed context object is kept alive (no address reuse)',
        'model kinds abstract how a wrapper is reached (e.g. FunctionScope entered by hand and with_function_scope are the same kind); the realisations are listed in coverage.kinds',
        'whether a body is converted code is observed by frame inspection (nearest frame named ag__<body> or <body>)',
        'generator-function callees: the model sees their body as run natively at the consumer\'s level; that the wrapper call creating the generator and every resumption leave the consumer\'s context alone is judged by the direct oracle only (observations made / res)',
    ]
    run.translate(['Ctx'])
    run.build_and_audit('MaltModel.Props.C16', model_files=MODEL_FILES)
    chk = Checker(run)
    rng = run.rng
    X.M()   # import malt, build shared objects

    if only_case is not None:
        probs = run_case_dict(chk, only_case, 'replay')
        chk.correspond()
        run.cov.update({k: dict(v) if isinstance(v, collections.Counter) else v for k, v in chk.cov.items()})
        run.cov['search'] = 'replay of one recorded case'
        return probs

    # ---- corpus first
    ncorpus = 0
    for path in sorted(glob.glob(os.path.join(common.VERIF, 'corpus', 'C16', '*.json'))):
        with open(path) as f:
            case = json.load(f)
        run_case_dict(chk, case.get('case', case), 'corpus:' + os.path.basename(path))
        ncorpus += 1
    run.cov['corpus_cases'] = ncorpus
    chk.stop = False

    # ---- exhaustive matrix: captured contexts x enclosing regions
    mtx = capture_matrix()
    for t in mtx:
        chk.seq_case(t, 'capture-matrix')
    run.cov['capture_matrix_trees'] = len(mtx)

    quick = run.tier == 'quick'
    n_seq = 1200 if quick else 12000
    n_conc = 160 if quick else 1600
    maxsize, maxdepth = (16, 6) if quick else (40, 8)
    budget = 80 if quick else 640      # seconds; a cap for loaded machines, normally not reached
    t_seq_end = time.time() + budget * 0.4
    cut = []

    # ---- 1a. single-thread trees
    for _ in range(n_seq):
        if time.time() > t_seq_end:
            cut.append('single-thread phase')
            break
        chk.seq_case(gen_tree(rng, maxsize, maxdepth))
        if chk.stop:
            break
    # ---- 1b. concurrent runs
    t_end = time.time() + budget * 0.6
    for j in range(n_conc):
        if chk.stop:
            break
        if time.time() > t_end:
            cut.append('concurrent phase')
            break
        nthreads = rng.choice([1, 2, 2, 3, 4, 4, 6, 8, 8, 12, 16, 16])
        if rng.random() < 0.25:
            base = gen_tree(rng, maxsize, maxdepth)      # all threads run the same tree (same wrappers, same shared objects)
            trees = [base] * nthreads
        else:
            trees = [gen_tree(rng, maxsize, maxdepth) for _ in range(nthreads)]
        mode = 'sched' if rng.random() < 0.5 else 'free'
        schedule = [rng.randrange(nthreads) for _ in range(rng.randrange(20, 600))] if mode == 'sched' else None
        chk.conc_case(trees, mode, schedule, jitter_seed=rng.randrange(1 << 30))
    # ---- 2. correspondence
    chk.correspond()
    run.cov.update({k: dict(sorted(v.items(), key=lambda kv: str(kv[0]))) if isinstance(v, collections.Counter) else v for k, v in chk.cov.items()})
    run.cov['sequential_runs'] = chk.n_seq
    run.cov['concurrent_runs'] = chk.n_conc
    run.cov['exhaustive'] = False
    run.cov['phases_cut_short_by_time_cap'] = cut
    run.cov['failing_cases_seen_before_stopping'] = chk.n_failed
    run.cov['search'] = ('direct oracle on %d single-thread runs and %d concurrent runs (1..16 threads) of random call trees on the real '
                         'wrappers; failing trees are shrunk' % (chk.n_seq, chk.n_conc))


def replay(run, path):
    with open(path) as f:
        rep = json.load(f)
    case = rep.get('case', rep)
    print(json.dumps({k: v for k, v in rep.items() if k != 'case'}, indent=1))
    if not isinstance(case, dict) or 'trees' not in case:
        check(run)
        return run.finish()
    probs = check(run, only_case=case)
    print('replayed case: %d thread(s), mode %s -> %s' % (len(case['trees']), case.get('mode', 'seq'),
                                                          ('STILL FAILING: ' + probs[0]) if probs else 'no problem found'))
    return run.finish()


if __name__ == '__main__' and '--case-worker' in sys.argv:
    case_worker()
