"""C07 — liveness is sound: anything read later is reported live.

Tie: VERIFIED CHECKERS (Lean, `isFix`/`isPostFix`/… with soundness theorems) run on the implementation's own graph, Scope
sets, liveness and reaching-fndefs `Analyzer.in_/out`, `DEFINED_FNS_IN`, `LIVE_VARS_IN/OUT` for every function graph of the corpus; correspondence of the Lean
model of the worklist + transfer function with the real solution; direct oracle = instrumented executions with a
use-before-overwrite log, incl. reads by closures (dataflow_instr / dataflow_oracle)."""
import json

import common
import dataflow_check as chk

MODEL_FILES = ['MaltModel/Analysis/Dataflow.lean', 'MaltModel/Analysis/Worklist.lean', 'MaltModel/Proofs/C06Worklist.lean', 'MaltModel/Analysis/CfgData.lean',
               'MaltModel/Analysis/ReachDef.lean', 'MaltModel/Analysis/FnDefs.lean', 'MaltModel/Analysis/Liveness.lean', 'MaltModel/Drv/Dataflow.lean', 'MaltModel/Drv/C07.lean']


def check(run, only_program=None):
    run.rule = ('static: one case per function graph (every FunctionDef of /repo/malt and /repo/tests analysed by the real '
                'qual_names/activity/cfg/reaching_fndefs/liveness + every generated program), non-trivial = more than 3 CFG nodes; '
                'dynamic: one case per (program, arguments, decision vector) execution of an instrumented program '
                '(corpus, deliberate scenarios, bounded skeletons, typed random programs), non-trivial = more than 3 checked reads')
    run.assumptions += [
        'serialisation of the real cfg.Graph / Scope sets / Analyzer.in_/out (harness/dataflow_common.py) is faithful',
        'actual reads ⊆ scope.read and kill ⊆ actual writes are hypotheses of live_sound (hgen for direct reads is property C08; hkill and the closure part of hgen are evaluated per trace)',
        'the instrumentation (harness/dataflow_instr.py) reports reads/writes in the order CPython performs them; executions with implicit exceptions are dropped as the property says',
        'reads made after the activation has returned (escaped closures, the enclosing function reading a nonlocal later) are not obligations of this activation\'s graph',
    ]
    run.build_and_audit('MaltModel.Props.C07', model_files=MODEL_FILES)
    info = {}
    # a replay runs the known-finding witnesses (corpus) too: classes are attributed only while their witness still fails
    progs = (list(chk.corpus_programs(run)) + [only_program]) if only_program is not None else chk.executable_programs(run, info)
    sources = chk.dynamic_phase(run, 'C07', progs)
    run.cov.update(info)
    if only_program is None:
        chk.static_phase(run, 'C07', sources)
    else:
        chk.static_phase(run, 'C07', sources)
    run.cov['search'] = ('direct oracle (use-before-overwrite ranges vs Analyzer.in_/out, LIVE_VARS_OUT of the statement left, LIVE_VARS_IN of the statement entered) on %d executions of %s programs; '
                         'verified fixpoint checker on %d real graphs' % (run.cov['dynamic']['stats'].get('executions', 0),
                                                                          sum(run.cov['dynamic']['programs'].values()),
                                                                          run.cov['static']['graphs']))


def replay(run, path):
    import progen
    with open(path) as f:
        rep = json.load(f)
    case = rep.get('case') or {}
    if 'program' not in case:
        print(json.dumps(rep, indent=1)[:3000])
        check(run)
        return run.finish()
    p = progen.Program.from_json(case['program'])
    p.inputs = [tuple(case['args'])]
    p.decisions = [case['decisions']]
    print('replaying', case.get('observation'))
    print(p.function_source())
    check(run, only_program=p)
    return run.finish()
