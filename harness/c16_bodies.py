"""Function bodies that the C16 harness hands to the REAL malt wrappers (and that malt converts).

This module is ordinary user code from malt's point of view: its name does not match any
`CONVERSION_RULES` entry, the functions have source (`inspect.getsource` works), they are not
autograph artifacts.  All bodies do the same thing, written with different control flow so that
the generated code differs (`for_stmt`, `while_stmt`, a bound method, a callable object; the harness
also wraps `functools.partial(body_for)`):

    obs(in); try: for each child i: [raise?]; obs(pre i); drive(child()); obs(post i)   ; [raise?]
             except CATCHABLE: obs(caught) if this node catches, else re-raise
             except AssertionError: the same, but only for a function scope's refusal of unsupported conversion
                                    options ("... are not supported"); any other AssertionError is re-raised
    obs(out)

`env` is a `c16_exec.Env`; its methods are marked as autograph artifacts, so converted code calls them
directly (no context is entered for them).  `nid` is the node's path in the call tree.
`env.drive(c, r)` does nothing unless the call returned a generator (child `c` is a generator function, possibly
wrapped); then it observes (`made`), and resumes it until exhausted, observing after every resumption (`res`).

`Boom` must keep `Exception.__init__`: `convert().wrapper` re-creates exceptions that crossed converted
code via `ErrorMetadataBase.create_exception`, which keeps the type only for such classes.
"""


import dataclasses


class Boom(Exception):
    pass


# Exceptions that reject attribute assignment (and therefore ask malt, via `ag_pass_through`, not to attach error
# metadata to them), and BaseException subclasses (which malt's `except Exception` clauses never see).  Bodies catch
# all of them like Boom.
@dataclasses.dataclass(frozen=True)
class FrozenBoom(Boom):
    msg: str = ''
    ag_pass_through = True

    def __str__(self):
        return self.msg


class SetattrBoom(Boom):
    ag_pass_through = True

    def __setattr__(self, name, value):
        raise AttributeError('read-only exception')


class BaseBoom(BaseException):
    pass


class BaseSetattrBoom(BaseException):
    ag_pass_through = True

    def __setattr__(self, name, value):
        raise AttributeError('read-only exception')


CATCHABLE = (Boom, BaseBoom, BaseSetattrBoom)
EXC = {'boom': Boom, 'frozen': FrozenBoom, 'setattr': SetattrBoom, 'base': BaseBoom, 'basesetattr': BaseSetattrBoom}


def body_for(env, nid):
    env.obs(nid, 'in')
    try:
        for i, f, c in env.kids(nid):
            env.step(nid, i)
            env.obs(nid, 'pre', i)
            env.drive(c, f(env, c))
            env.obs(nid, 'post', i)
        env.last(nid)
    except CATCHABLE:
        env.handle(nid)
    except AssertionError:
        env.handle_refusal(nid)
    env.obs(nid, 'out')


def body_while(env, nid):
    env.obs(nid, 'in')
    try:
        i = 0
        n = env.nkids(nid)
        while i < n:
            env.step(nid, i)
            env.obs(nid, 'pre', i)
            env.drive(env.kid_id(nid, i), env.kid(nid, i)(env, env.kid_id(nid, i)))
            env.obs(nid, 'post', i)
            i += 1
        env.last(nid)
    except CATCHABLE:
        env.handle(nid)
    except AssertionError:
        env.handle_refusal(nid)
    env.obs(nid, 'out')


class Holder(object):

    def body_meth(self, env, nid):
        env.obs(nid, 'in')
        try:
            for i, f, c in env.kids(nid):
                env.step(nid, i)
                env.obs(nid, 'pre', i)
                env.drive(c, f(env, c))
                env.obs(nid, 'post', i)
            env.last(nid)
        except CATCHABLE:
            env.handle(nid)
        except AssertionError:
            env.handle_refusal(nid)
        env.obs(nid, 'out')


    def gbody_meth(self, env, nid):
        env.obs(nid, 'in')
        try:
            for i, f, c in env.kids(nid):
                env.step(nid, i)
                env.obs(nid, 'pre', i)
                env.drive(c, f(env, c))
                env.obs(nid, 'post', i)
                yield i
            env.last(nid)
        except CATCHABLE:
            env.handle(nid)
        except AssertionError:
            env.handle_refusal(nid)
        env.obs(nid, 'out')


HOLDER = Holder()


def gbody_for(env, nid):
    """A *generator function* with the same body: calling it (through whatever wrapper) only creates the generator;
    the body runs while the consumer (`env.drive`, called from the parent's body) resumes it, one child per
    resumption, and the consumer observes the context after creation and after every resumption."""
    env.obs(nid, 'in')
    try:
        for i, f, c in env.kids(nid):
            env.step(nid, i)
            env.obs(nid, 'pre', i)
            env.drive(c, f(env, c))
            env.obs(nid, 'post', i)
            yield i
        env.last(nid)
    except CATCHABLE:
        env.handle(nid)
    except AssertionError:
        env.handle_refusal(nid)
    env.obs(nid, 'out')


class CallableBody(object):
    """A callable object: `converted_call` converts `type(f).__call__` and passes the object as first argument."""

    def __call__(self, env, nid):
        env.obs(nid, 'in')
        try:
            i = 0
            while i < env.nkids(nid):
                env.step(nid, i)
                env.obs(nid, 'pre', i)
                env.drive(env.kid_id(nid, i), env.kid(nid, i)(env, env.kid_id(nid, i)))
                env.obs(nid, 'post', i)
                i += 1
            env.last(nid)
        except CATCHABLE:
            env.handle(nid)
        except AssertionError:
            env.handle_refusal(nid)
        env.obs(nid, 'out')


CALLABLE = CallableBody()

# to_graph(lam) gives `lambda env, nid: ag__.with_function_scope(lambda lscope: …, 'lscope', options)`
lam = lambda env, nid: env.run_native(nid)


def ctx_block(env, nid):
    """`with ControlStatusCtx(status): f(…)` written in user code (convertible)."""
    with env.new_ctx(nid):
        env.inner(nid)(env, nid)


# ---- bodies containing nested functions: the converter emits a function scope for every nested `def` / lambda too, with
# ---- the options of a *recursive* conversion (user_requested=False); only the outermost scope carries the requested ones.

def body_localdef(env, nid):
    def visit(i, f, c):                      # a local helper: observes inside the nested function
        env.step(nid, i)
        env.obs(nid, 'pre', i)
        env.drive(c, f(env, c))
        env.obs(nid, 'post', i)
    env.obs(nid, 'in')
    try:
        for i, f, c in env.kids(nid):
            visit(i, f, c)
        env.last(nid)
    except CATCHABLE:
        env.handle(nid)
    except AssertionError:
        env.handle_refusal(nid)
    env.obs(nid, 'out')


def body_locallambda(env, nid):
    before = lambda i: env.obs(nid, 'pre', i)
    after = lambda i: env.obs(nid, 'post', i)
    env.obs(nid, 'in')
    try:
        for i, f, c in env.kids(nid):
            env.step(nid, i)
            before(i)
            env.drive(c, f(env, c))
            after(i)
        env.last(nid)
    except CATCHABLE:
        env.handle(nid)
    except AssertionError:
        env.handle_refusal(nid)
    env.obs(nid, 'out')


def body_twolevel(env, nid):
    def visit(i, f, c):
        def before():
            env.step(nid, i)
            env.obs(nid, 'pre', i)

        def after():
            env.obs(nid, 'post', i)
        before()
        env.drive(c, f(env, c))
        after()
    env.obs(nid, 'in')
    try:
        for i, f, c in env.kids(nid):
            visit(i, f, c)
        env.last(nid)
    except CATCHABLE:
        env.handle(nid)
    except AssertionError:
        env.handle_refusal(nid)
    env.obs(nid, 'out')


def body_localclass(env, nid):
    class Visitor(object):
        def visit(self, i, f, c):
            env.step(nid, i)
            env.obs(nid, 'pre', i)
            env.drive(c, f(env, c))
            env.obs(nid, 'post', i)
    env.obs(nid, 'in')
    try:
        v = Visitor()
        for i, f, c in env.kids(nid):
            v.visit(i, f, c)
        env.last(nid)
    except CATCHABLE:
        env.handle(nid)
    except AssertionError:
        env.handle_refusal(nid)
    env.obs(nid, 'out')
