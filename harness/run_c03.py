"""C03 — emitted operator calls obey the operator calling contract.

Layers (DESIGN.md §1, §4 C03):
  * theorems about the Lean model of ControlFlowTransformer (lean/MaltModel/Props/C03.lean), for all programs and
    all annotation tables: lengths, positions, arity, nouts, opts, distinctness, get/set algebra;
  * tie: structural correspondence of the model with the real pass on skeleton + random programs
    (recursive in {True, False}; directives placed in loops, nested loops, none), c03_cf.check_cf_model;
  * verified checker `contractOk` (Lean, `contractOk g = true -> lengths & positions & arity & nouts & ...`) run on
    the REAL final generated code of every program;
  * runtime part / direct oracle (needs no Lean): instrumented operators checking the contract on every dynamic
    invocation (c03_rt.Instrument), the program still running normally.
"""
import ast, json, multiprocessing, os, random, subprocess, sys, time, traceback

import common
from common import sexp, parse_sexp
import c03_cf, c03_rt, passes, progen, pyast

MODEL_FILES = ['MaltModel/Conv/BlockVars.lean', 'MaltModel/Conv/ControlFlow.lean', 'MaltModel/Conv/Contract.lean',
               'MaltModel/Proofs/C03Basic.lean', 'MaltModel/Proofs/C03BlockVars.lean', 'MaltModel/Proofs/C03Namer.lean',
               'MaltModel/Proofs/C03Model.lean', 'MaltModel/Proofs/C03Store.lean', 'MaltModel/Drv/C03.lean']

CORPUS = os.path.join(common.VERIF, 'corpus', 'C03')


# ------------------------------------------------------------------------------------------------
# generation: programs + loop directives
# ------------------------------------------------------------------------------------------------
def _loops_preorder(node, out):
    for child in ast.iter_child_nodes(node):
        if isinstance(child, (ast.For, ast.While)):
            out.append(child)
        _loops_preorder(child, out)
    return out


def with_directives(prog, rng, density):
    """Copy of `prog` where a random subset of the loops of `f` starts with
    `malt.experimental.set_loop_options(maximum_iterations=1000+k[, parallel_iterations=k])` (k = loop number),
    plus the expectation table used by the instrumented operators."""
    src = prog.source
    cut = src.rindex('\ndef f(') + 1
    head, fsrc = src[:cut], src[cut:]
    ftree = ast.parse(fsrc)
    loops = _loops_preorder(ftree, [])
    expect = {'loops': {}, 'plain_for_targets': set(), 'plain_while': False}
    n_empty = 0
    for k, lp in enumerate(loops):
        kind = 'for' if isinstance(lp, ast.For) else 'while'
        if density > 0 and rng.random() < 0.12:
            # a directive without arguments: removed from the body, the loop's options stay empty (/repo 41b6a09)
            lp.body.insert(0, ast.parse('malt.experimental.set_loop_options()').body[0])
            n_empty += 1
        elif rng.random() < density:
            opts = {'maximum_iterations': 1000 + k}
            call = 'malt.experimental.set_loop_options(maximum_iterations=%d)' % (1000 + k)
            if rng.random() < 0.3:
                opts['parallel_iterations'] = k
                call = 'malt.experimental.set_loop_options(parallel_iterations=%d, maximum_iterations=%d)' % (k, 1000 + k)
            lp.body.insert(0, ast.parse(call).body[0])
            expect['loops'][k] = {'kind': kind, 'target': ast.unparse(lp.target) if kind == 'for' else None, 'opts': opts}
    # loops without directive anywhere in the module (helpers included)
    newf = ast.unparse(ast.fix_missing_locations(ftree)) + '\n'
    mod = ast.parse(head + newf)
    for lp in _loops_preorder(mod, []):
        first = lp.body[0]
        has = isinstance(first, ast.Expr) and isinstance(first.value, ast.Call) and \
            ast.unparse(first.value.func) == 'malt.experimental.set_loop_options' and bool(first.value.keywords)
        if not has:
            if isinstance(lp, ast.For):
                expect['plain_for_targets'].add(ast.unparse(lp.target))
            else:
                expect['plain_while'] = True
    p = progen.Program(head + 'import malt\n' + newf, prog.inputs,
                       set(prog.features) | ({'directive'} if expect['loops'] else set()) | ({'empty_directive'} if n_empty else set()),
                       prog.kind, decisions=prog.decisions, meta=prog.meta)
    return p, expect


def composite_programs(rng, n):
    """Programs whose control-flow statements write composite state (dict keys, attributes) that may or may not
    exist before the statement: the class `missing_composite_written_back` and its complement."""
    out = []
    for k in range(n):
        lines = ['def f(a, b, c, l):', '    o = Obj(a)', '    o.z = Obj(b)', '    x = a']
        lines.append('    dd = %s' % rng.choice(['{}', "{'k': 0}", '{0: 5}', "{'k': 1, 'j': 2}"]))
        if rng.random() < 0.15:
            lines.append('    if a > 5:')
            lines.append('        p = Obj(b)')
            base = 'p'
        else:
            base = 'o'
        nst = rng.randrange(1, 4)
        for j in range(nst):
            key = rng.choice(["dd['k']", "dd['j']", 'dd[0]', 'dd[x]', '%s.v' % base, '%s.w' % base, 'l[0]', 'dd["it\'s"]',
                              "dd['a.b']", 'dd[1.5]', 'o.z.v', 'o.z.u', 'dd[o.v]', 'dd[True]'])
            val = rng.choice(['x', 'b', 'tr(%d, x)' % (10 * k + j), 'x + 1'])
            form = rng.randrange(4)
            if form == 0:
                lines += ['    if %s:' % rng.choice(['a > 0', 'b > a', 'd()']), '        %s = %s' % (key, val)]
                if rng.random() < 0.4:
                    lines += ['    else:', '        x = x + 1']
            elif form == 1:
                lines += ['    for i in %s:' % rng.choice(['l', 'range(a % 3)', 'n()']), '        %s = %s' % (key, val), '        x = x + i']
            elif form == 2:
                lines += ['    w = 0', '    while w < %d and d():' % rng.randrange(1, 3), '        w += 1', '        %s = %s' % (key, val)]
            else:
                lines += ['    if %s:' % rng.choice(['a > 0', 'c']), '        for i in l:', '            %s = i' % key, '            x += i']
        lines.append('    return x, sorted((str(q), v if isinstance(v, int) else repr(v)) for q, v in dd.items()), o.v')
        src = '\n'.join(lines) + '\n'
        inputs = [(1, 2, 3, [1, 2]), (0, 0, 0, [0]), (-1, 5, 0, [3])]
        out.append(progen.Program(progen.RANDOM_PRELUDE + src, inputs, {'composite', 'if', 'for', 'while'}, 'composite',
                                  decisions=progen.decision_vectors(random.Random(rng.getrandbits(30)), 3)))
    return out


def outputs_first_programs(rng, n):
    """`if` statements whose branches modify BOTH a plain temporary that is read inside and dead afterwards (an input-only
    state variable) AND an attribute / subscript of an object that is live and observed afterwards (always an output):
    the shape on which "outputs occupy the first nouts positions" is observable through a contract-following if_stmt.
    Everything is defined up front and every composite exists (so none of the known findings is touched); loop targets are
    never assigned in a branch and never read after their loop (known liveness defect of `for`)."""
    out = []
    for k in range(n):
        L = ['def f(a, b, c, l):', '    o = Obj(a)', '    o.w = b', "    dd = {'k': c, 0: a}", '    x = a', '    y = b']
        nif = rng.randrange(1, 4)

        def branch(ind, t):
            comp = rng.choice(['o.v', 'o.w', "dd['k']", 'dd[0]', 'l[0]'])
            L.append(ind + '%s = %s %s %s' % (t, t, rng.choice(['+', '-', '*']), rng.choice(['x', 'y', '2', 'a'])))
            L.append(ind + '%s = %s' % (comp, rng.choice([t, '%s + 1' % t, '%s + %s' % (comp, t), 'x + %s' % t])))
            if rng.random() < 0.4:
                L.append(ind + '%s = %s + %s' % (rng.choice(['x', 'y']), rng.choice(['x', 'y']), t))
            if rng.random() < 0.3:
                c2 = rng.choice(['o.v', 'o.w', "dd['k']", 'dd[0]'])
                L.append(ind + '%s = %s' % (c2, rng.choice(['y', t, '%s - 1' % t])))

        for j in range(nif):
            t = 't%d' % j
            ind = '    '
            L.append(ind + '%s = %s' % (t, rng.choice(['x + 1', 'a', 'y * 2', 'b - a'])))
            form = rng.randrange(4)
            if form == 1:
                L += [ind + 'w%d = 0' % j, ind + 'while w%d < %d:' % (j, rng.randrange(1, 3)), ind + '    w%d += 1' % j]
                ind += '    '
            elif form == 2:
                L.append(ind + 'for i%d in range(%s):' % (j, rng.choice(['2', 'a % 3', 'len(l)'])))
                ind += '    '
            elif form == 3:
                L.append(ind + 'if %s:' % rng.choice(['c >= 0', 'a != b', 'd()']))
                ind += '    '
            L.append(ind + 'if %s:' % rng.choice(['a > 0', 'b > a', 'd()', 'x > y', 'c == 0']))
            branch(ind + '    ', t)
            m = rng.random()
            if m < 0.3:
                L.append(ind + 'elif %s:' % rng.choice(['b > 0', 'd()']))
                branch(ind + '    ', t)
            if m < 0.6:
                L.append(ind + 'else:')
                if rng.random() < 0.5:
                    branch(ind + '    ', t)
                else:
                    L.append(ind + '    x = x + 1')
        L.append('    return x, y, o.v, o.w, sorted((str(q), v) for q, v in dd.items()), list(l)')
        inputs = [(1, 2, 3, [1, 2]), (0, 0, 0, [0]), (-1, 5, 0, [3]), (2, 1, -1, [4, 4])]
        out.append(progen.Program(progen.RANDOM_PRELUDE + '\n'.join(L) + '\n', inputs, {'outputs_first', 'composite', 'if'},
                                  'outputs_first', decisions=progen.decision_vectors(random.Random(rng.getrandbits(30)), 3)))
    return out


def closure_programs(rng, n):
    """The converted ENTITY is a closure obtained from a factory: it declares `nonlocal v[, u]` and `global G` itself and
    modifies these variables inside if / while / for statements (read-modify-write and write-only), so that the generated
    getter / setter / body functions must declare exactly the entity's globals `global` and everything else `nonlocal`
    (`_create_nonlocal_declarations`), and `set_state`/`get_state` must reach the closure cell resp. the module global.
    Every run starts by resetting the closure variables, so runs are reproducible."""
    out = []
    for k in range(n):
        two = rng.random() < 0.5
        decl = 'v, u' if two else 'v'
        L = ['import malt', 'def make(v0):', '    v = v0', '    u = 1', '    def f(a, b, c, l):',
             '        nonlocal %s' % decl]
        useG = rng.random() < 0.7
        if useG:
            L.append('        global G')
        L += ['        v = b', '        x = a']
        if two:
            L.append('        u = c')
        outer = ['v'] + (['u'] if two else []) + (['G'] if useG else [])
        nloop = 0
        for j in range(rng.randrange(1, 4)):
            w = rng.choice(outer)
            other = rng.choice(outer + ['x'])
            upd = rng.choice(['%s = %s + %s' % (w, w, rng.choice(['a', 'x', '1'])), '%s = %s' % (w, rng.choice(['7', 'a', 'x + 1'])),
                              '%s += 1' % w, '%s = tr(%d, %s)' % (w, 100 * k + j, other)])
            ind = '        '
            form = rng.randrange(5)
            hdr = []
            if form == 0:
                hdr = ['if %s:' % rng.choice(['a > 0', 'b > a', 'd()', '%s > 1' % other])]
            elif form == 1:
                hdr = ['w%d = 0' % j, 'while w%d < %d:' % (j, rng.randrange(1, 3))]
            elif form == 2:
                hdr = ['for i%d in %s:' % (j, rng.choice(['l', 'range(a % 3)', 'n()']))]
            elif form == 3:
                hdr = ['for i%d in l:' % j, '    if %s:' % rng.choice(['i%d > 0' % j, 'd()'])]
            else:
                hdr = ['if %s:' % rng.choice(['c', 'a != b']), '    for i%d in range(2):' % j]
            for h in hdr[:-1]:
                L.append(ind + h)
            L.append(ind + hdr[-1])
            depth = ind + '    ' * (1 + (len(hdr[-1]) - len(hdr[-1].lstrip())) // 4)
            loop_line = hdr[-1].lstrip()
            if loop_line.startswith(('for ', 'while ')) and rng.random() < 0.4:
                nloop += 1
                L.append(depth + 'malt.experimental.set_loop_options(maximum_iterations=%d)' % (1500 + 10 * j))
            if form == 1:
                L.append(depth + 'w%d += 1' % j)
            L.append(depth + upd)
            if rng.random() < 0.4:
                L.append(depth + 'x = x + %s' % w)
            if form == 0 and rng.random() < 0.4:
                L += [ind + 'else:', ind + '    %s = %s' % (rng.choice(outer), rng.choice(['0', 'x', 'b']))]
        L.append('        return x, %s' % ', '.join(outer))
        L += ['    return f', 'f = make(%d)' % rng.randrange(0, 5)]
        inputs = [(1, 2, 3, [1, 2]), (0, 0, 0, [0]), (-1, 5, 0, [3, -1]), (2, 1, 1, [])]
        feats = {'closure_entity', 'nonlocal', 'if', 'for', 'while'} | ({'global'} if useG else set()) | ({'directive'} if nloop else set())
        out.append(progen.Program(progen.RANDOM_PRELUDE + '\n'.join(L) + '\n', inputs, feats, 'closure',
                                  decisions=progen.decision_vectors(random.Random(rng.getrandbits(30)), 3)))
    return out


def alias_closure_programs(rng, n):
    """A local function reads (or, declaring it nonlocal, writes) a variable that an if / while / for reads and writes, and
    after the block the variable is observed ONLY by calling that closure through another name: (a) an alias bound before
    the block, (b) another local function that calls it, (c) a container element or a default argument holding it,
    (d) handing it to a module-level function that calls it.  A contract-following if_stmt (keeps the first nouts entries,
    restores the rest) must then compute what the native run computes: the variable is an OUTPUT of the block."""
    out = []
    for k in range(n):
        L = ['def apply1(k):', '    return k()', 'def f(a, b, c, l):', '    x = a', '    y = b']
        writer = rng.random() < 0.35
        if writer:
            L += ['    def get():', '        nonlocal x', '        x = x + 1', '        return x']
        else:
            L += ['    def get():', '        return x%s' % rng.choice(['', ' + y', ' * 2'])]
        how = rng.choice(['alias', 'via', 'list', 'default', 'caller', 'alias2'])
        if how == 'alias':
            L.append('    h = get'); obs = 'h()'
        elif how == 'alias2':
            L += ['    h0 = get', '    h = h0']; obs = 'h()'
        elif how == 'via':
            L += ['    def via():', '        return get() + 1']; obs = 'via()'
        elif how == 'list':
            L.append('    fs = [get, 0]'); obs = 'fs[0]()'
        elif how == 'default':
            L += ['    def call(k=get):', '        return k()']; obs = 'call()'
        else:
            L.append('    h = get'); obs = 'apply1(h)'
        upd = rng.choice(['x = x + 10', 'x = x * 3 + y', 'x += a', 'x = x - 1'])
        cond = rng.choice(['b > 0', 'a > b', 'd()', 'x > 0', 'c == 0'])
        form = rng.randrange(5)
        if form == 0:
            L += ['    if %s:' % cond, '        ' + upd]
        elif form == 1:
            L += ['    if %s:' % cond, '        ' + upd, '    else:', '        x = x + 1']
        elif form == 2:
            L += ['    for i in %s:' % rng.choice(['l', 'range(2)']), '        if %s:' % cond, '            ' + upd]
        elif form == 3:
            L += ['    w = 0', '    while w < 2:', '        w += 1', '        if %s:' % cond, '            ' + upd]
        else:
            L += ['    if %s:' % rng.choice(['c >= 0', 'a != b']), '        if %s:' % cond, '            ' + upd]
        if rng.random() < 0.5:
            L.append('    y = y + 1')
        if rng.random() < 0.3:
            L += ['    if %s:' % rng.choice(['a > 1', 'd()']), '        y = y + x']
            direct = True
        L.append('    r = %s' % obs)
        L.append('    return r, y')
        inputs = [(1, 2, 3, [1, 2]), (0, 0, 0, [0]), (-1, 5, 0, [3]), (2, 1, -1, [])]
        out.append(progen.Program(progen.RANDOM_PRELUDE + '\n'.join(L) + '\n', inputs,
                                  {'alias_closure', 'outputs_first', 'nested_def', 'if'} | ({'nonlocal'} if writer else set()),
                                  'alias_closure', decisions=progen.decision_vectors(random.Random(rng.getrandbits(30)), 3)))
    return out


def expect_of_source(source):
    """Expectation table recomputed from a program text alone (replays / corpus)."""
    cut = source.rfind('\ndef f(') + 1      # 0 when `f` is not a top-level def (closure entities): whole module
    expect = {'loops': {}, 'plain_for_targets': set(), 'plain_while': False}
    floops = _loops_preorder(ast.parse(source[cut:]), [])
    fkeys = {}
    for k, lp in enumerate(floops):
        first = lp.body[0]
        if isinstance(first, ast.Expr) and isinstance(first.value, ast.Call) and \
                ast.unparse(first.value.func) == 'malt.experimental.set_loop_options' and first.value.keywords:
            opts = {kw.arg: ast.literal_eval(kw.value) for kw in first.value.keywords}
            kk = opts.get('maximum_iterations', 1000 + k) - 1000
            expect['loops'][kk] = {'kind': 'for' if isinstance(lp, ast.For) else 'while',
                                   'target': ast.unparse(lp.target) if isinstance(lp, ast.For) else None, 'opts': opts}
    for lp in _loops_preorder(ast.parse(source), []):
        first = lp.body[0]
        has = isinstance(first, ast.Expr) and isinstance(first.value, ast.Call) and \
            ast.unparse(first.value.func) == 'malt.experimental.set_loop_options' and bool(first.value.keywords)
        if not has:
            if isinstance(lp, ast.For):
                expect['plain_for_targets'].add(ast.unparse(lp.target))
            else:
                expect['plain_while'] = True
    return expect


def expect_to_json(e):
    return {'loops': {str(k): v for k, v in e['loops'].items()}, 'plain_for_targets': sorted(e['plain_for_targets']),
            'plain_while': e['plain_while']}


def expect_from_json(j):
    return {'loops': {int(k): v for k, v in j['loops'].items()}, 'plain_for_targets': set(j['plain_for_targets']),
            'plain_while': j['plain_while']}


# ------------------------------------------------------------------------------------------------
# worker: everything about one chunk of programs
# ------------------------------------------------------------------------------------------------
def ag_of(fn):
    for name, cell in zip(fn.__code__.co_freevars, fn.__closure__ or ()):
        if name == 'ag__':
            return cell.cell_contents
    return None


def drive_local(lines):
    if not lines:
        return []
    p = subprocess.run([common.driver_path('C03')], input='\n'.join(lines) + '\n', text=True,
                       stdout=subprocess.PIPE, stderr=subprocess.PIPE)
    out = p.stdout.split('\n')
    if out and out[-1] == '':
        out.pop()
    if p.returncode != 0 or len(out) != len(lines):
        return None
    return out


def final_tree_request(trace):
    ft = trace.final_tree
    nodes = list(ft) if isinstance(ft, (list, tuple)) else [ft]
    sx = [pyast.Ser(n).sexp for n in nodes]
    return 'c03.check ' + sexp(c03_cf.canon(c03_cf._norm(sx)))


class FunctionalIf(object):
    """A contract-following `if_stmt` implementing the documented meaning of `nouts` -- after the selected branch ran,
    only the first `nouts` state entries keep their new value, the rest are put back to what they were before the
    statement ("vars which are not outputs will not be passed through staged control flow").  If outputs are the first
    `nouts` entries the program computes what it computes natively.  Always used on the `outputs_first` program stream
    (temporaries dead after the `if` + composite state of live objects, built to stay clear of the known liveness
    defects of C06/C07); on other programs only as a focused search after an obligation broke."""

    def __init__(self, ags, undefined_cls):
        self.ags, self.saved, self.Undefined = ags, [], undefined_cls
        self.restored = 0          # invocations in which some non-output entry changed by the branch was put back

    def __enter__(self):
        for ag in self.ags:
            orig = ag.if_stmt
            self.saved.append((ag, orig))

            def if_stmt(cond, body, orelse, get_state, set_state, symbol_names, nouts, _orig=orig):
                try:
                    init = get_state()
                except Exception:  # noqa
                    return _orig(cond, body, orelse, get_state, set_state, symbol_names, nouts)
                r = _orig(cond, body, orelse, get_state, set_state, symbol_names, nouts)
                try:
                    final = get_state()
                    # entries that were undefined / missing before the statement are left alone (writing the placeholder
                    # back is the known finding missing_composite_written_back, not what is searched for here)
                    if isinstance(nouts, int) and len(final) == len(init) and \
                            not any(isinstance(v, self.Undefined) for v in tuple(init) + tuple(final)):
                        if any(a is not b for a, b in zip(init[nouts:], final[nouts:])):
                            self.restored += 1
                        set_state(tuple(final[:nouts]) + tuple(init[nouts:]))
                except Exception:  # noqa
                    pass
                return r
            ag.if_stmt = if_stmt
        return self

    def __exit__(self, *a):
        for ag, orig in reversed(self.saved):
            ag.if_stmt = orig


def process_chunk(args):
    """args = (list of (program json, expect json), use_driver, extra_decisions[, focus]).  Returns a list of per-program results."""
    items, use_driver, extra_dec = args[:3]
    focus = len(args) > 3 and args[3]
    sys.path.insert(0, common.REPO)
    from malt.operators import variables
    from malt.impl import api
    gag = api._TRANSPILER.get_extra_locals()['ag__']
    results = []
    lines, owners = [], []
    with progen.Workspace() as ws:
        for pj, ej in items:
            prog = progen.Program.from_json(pj)
            expect = expect_from_json(ej)
            res = {'key': prog.key, 'kind': pj.get('kind'), 'features': pj.get('features', []), 'errors': [], 'cf': [], 'checker': [], 'c01cf': [], 'liveout_checked': 0, 'liveout_bad': [],
                   'why': {'calls': 0, 'with_state': 0, 'composite_entries': 0, 'dependent_entries': 0},
                   'rt_failures': [], 'counts': {}, 'ncalls_static': {}, 'runs': 0, 'diverged': 0, 'traces': 0,
                   'directive_loops': len(expect['loops']), 'seen_directive_loops': 0}
            results.append(res)
            try:
                mod = ws.load(prog)
            except Exception as e:  # noqa
                res['errors'].append('load: %r' % (e,))
                continue
            seen = set()
            for rec in (True, False):
                tr = passes.trace_conversion(mod.f, passes.make_options(recursive=rec))
                if tr.error is not None:
                    res['errors'].append('convert(recursive=%s): %s' % (rec, repr(tr.error)[:300]))
                    continue
                res['traces'] += 1
                try:
                    k_, ps_ = c03_cf.cf_pass(tr)
                    if ps_ is not None and ps_.before is not None and ps_.before[:1] != ['SNAPSHOT-ERROR']:
                        nchk, bad = c03_cf.closure_liveout_violations(ps_.before, ps_.before_annos)
                        res['liveout_checked'] += nchk
                        for b in bad[:2]:
                            res['liveout_bad'].append(dict(b, recursive=rec))
                except Exception as e:  # noqa
                    res['errors'].append('closure live-out checker: %r' % (e,))
                if use_driver:
                    req = c03_cf.cf_request(tr)
                    if req is not None:
                        lines.append(req); owners.append((res, 'cf', rec, tr))
                    try:
                        lines.append('c03.why' + final_tree_request(tr)[len('c03.check'):]); owners.append((res, 'why', rec, tr))
                        lines.append(final_tree_request(tr)); owners.append((res, 'check', rec, tr))
                    except Exception as e:  # noqa
                        res['errors'].append('serialise final tree: %r' % (e,))
                    # Props/C01CF.lean: hypotheses on the real table, conclusions on the model output and on the real trees
                    b0 = sexp(list(mod.f.__code__.co_freevars))
                    if req is not None:
                        lines.append('c01cf.eval' + req[len('c03.cf'):] + ' ' + b0); owners.append((res, 'c01cf.eval', rec, tr))
                        k_, ps_ = c03_cf.cf_pass(tr)
                        aft = ps_.after if isinstance(ps_.after, list) and ps_.after and isinstance(ps_.after[0], list) else [ps_.after]
                        lines.append('c01cf.check %s %s' % (sexp(c03_cf.canon(c03_cf._norm(aft))), b0))
                        owners.append((res, 'c01cf.pass', rec, tr))
                        lines.append('c01cf.check' + final_tree_request(tr)[len('c03.check'):] + ' ' + b0)
                        owners.append((res, 'c01cf.final', rec, tr))
                for op, n in c03_cf.count_ops(tr).items():
                    res['ncalls_static'][op] = res['ncalls_static'].get(op, 0) + n
                # ---------------- runtime part
                ag = ag_of(tr.converted)
                decs = list(prog.decisions) + list(extra_dec)
                for inp in prog.inputs:
                    for dec in decs:
                        try:
                            plain = progen.run_program(mod, tr.converted, inp, dec)
                        except RecursionError:
                            continue
                        ins = c03_rt.Instrument([a for a in (ag, gag) if a is not None], expect, variables.Undefined)
                        try:
                            with ins:
                                got = progen.run_program(mod, tr.converted, inp, dec)
                        except RecursionError:
                            continue
                        res['runs'] += 1
                        if got != plain:
                            res['diverged'] += 1
                        if focus or 'outputs_first' in prog.features:
                            # model-independent semantic probe of `nouts` / "outputs first": always on the outputs_first stream,
                            # elsewhere only to find a failing input after an obligation broke
                            # (original-vs-converted comparison is C01's oracle and is deliberately not repeated here)
                            case = {'recursive': rec, 'input': list(inp), 'decisions': list(dec)}
                            try:
                                with FunctionalIf([a for a in (ag, gag) if a is not None], variables.Undefined) as fif:
                                    fun = progen.run_program(mod, tr.converted, inp, dec)
                                res['counts']['functional_if_runs'] = res['counts'].get('functional_if_runs', 0) + 1
                                res['counts']['functional_if_restored_nonoutputs'] = \
                                    res['counts'].get('functional_if_restored_nonoutputs', 0) + fif.restored
                                if fun != plain and not any(g['what'].startswith('outputs are not the first') for g in res['rt_failures']):
                                    res['rt_failures'].append(dict(case, what='outputs are not the first nouts state entries: an if_stmt that passes only '
                                                                   'the first nouts entries on changes the result', cls=None,
                                                                   detail={'functional': repr(fun)[:300], 'native': repr(plain)[:300]}))
                            except RecursionError:
                                pass
                        for k, v in ins.counts.items():
                            res['counts'][k] = res['counts'].get(k, 0) + v
                        seen |= ins.seen_loops
                        for f in ins.failures:
                            if len(res['rt_failures']) < 6 and not any(g['what'] == f['what'] and g['cls'] == f['cls'] for g in res['rt_failures']):
                                res['rt_failures'].append({'recursive': rec, 'input': list(inp), 'decisions': list(dec),
                                                           'what': f['what'], 'cls': f['cls'], 'detail': f['detail']})
            res['seen_directive_loops'] = len(seen)
            ws.unload(mod)
    if use_driver and lines:
        answers = drive_local(lines)
        if answers is None:
            for res in results:
                res['errors'].append('driver failed')
        else:
            for (res, what, rec, tr), ans in zip(owners, answers):
                if what == 'cf':
                    d = c03_cf.compare_cf(tr, ans)
                    res['cf'].append({'recursive': rec, 'difference': d})
                elif what == 'why':
                    try:
                        rows = parse_sexp(ans)
                        w = res['why']
                        for r in rows:
                            if isinstance(r, list) and len(r) == 3:
                                w['calls'] += 1
                                w['with_state'] += r[0] != '0'
                                w['composite_entries'] += r[1] == 'True'
                                w['dependent_entries'] += r[2] == 'True'
                    except Exception:  # noqa
                        pass
                elif what.startswith('c01cf'):
                    try:
                        flags = [x == 'True' for x in parse_sexp(ans)]
                    except Exception:  # noqa
                        flags = None
                    res['c01cf'].append({'recursive': rec, 'what': what, 'flags': flags, 'answer': ans[:200]})
                else:
                    ok = ans.startswith('(True')
                    res['checker'].append({'recursive': rec, 'ok': ok, 'answer': None if ok else ans[:1500],
                                           'ncalls': ans.count('_stmt ') if ok else None})
    return results


# ------------------------------------------------------------------------------------------------
# the check
# ------------------------------------------------------------------------------------------------
def gen_programs(run):
    quick = run.tier == 'quick'
    rng = run.rng
    info = {}
    progs = []
    sk = list(progen.skeleton_programs(max_stmts=4 if quick else 5, max_depth=3, cap=420 if quick else 1500,
                                       rng=random.Random(rng.getrandbits(32)), info=info))
    rnd = list(progen.random_programs(random.Random(rng.getrandbits(32)), 200 if quick else 700, size=14))
    comp = composite_programs(random.Random(rng.getrandbits(32)), 60 if quick else 200)
    ofp = outputs_first_programs(random.Random(rng.getrandbits(32)), 60 if quick else 250)
    clo = closure_programs(random.Random(rng.getrandbits(32)), 60 if quick else 250)
    out = []
    for p in sk + rnd + comp + ofp:
        density = rng.choice([0.0, 0.5, 0.5, 1.0])
        try:
            q, e = with_directives(p, rng, density)
        except Exception:  # noqa
            q, e = p, expect_of_source(p.source)
        out.append((q, e))
    for p in clo:       # closure entities carry their own directives (the entity is not a top-level def)
        out.append((p, expect_of_source(p.source)))
    for p in alias_closure_programs(random.Random(rng.getrandbits(32)), 60 if quick else 250):
        out.append((p, expect_of_source(p.source)))
    return out, info


def corpus_items():
    out = []
    if os.path.isdir(CORPUS):
        for fn in sorted(os.listdir(CORPUS)):
            if fn.endswith('.json'):
                with open(os.path.join(CORPUS, fn)) as f:
                    j = json.load(f)
                p = progen.Program.from_json(j['program'])
                out.append((fn, p, expect_of_source(p.source), j))
    return out


def lean_replay(run, corp):
    """The Lean counterexample (C03_get_set_counterexample) evaluated by the driver on the model's output for the corpus
    witness of `missing_composite_written_back`: some emitted call has a guarded entry missing from the store and
    set(get σ) σ ≠ σ there; and the same predicate is False on a state tuple without composite entries."""
    sys.path.insert(0, common.REPO)
    lines, names = [], []
    with progen.Workspace() as ws:
        for fn, p, e, j in corp:
            mod = ws.load(p)
            tr = passes.trace_conversion(mod.f, passes.make_options())
            req = c03_cf.cf_request(tr) if tr.error is None else None
            if req is not None:
                lines.append('c03.getset' + req[len('c03.cf'):])
                names.append((fn, j.get('expect_class')))
            ws.unload(mod)
    if not lines:
        return
    for (fn, want), ans in zip(names, run.drive(lines)):
        rows = parse_sexp(ans) if ans.startswith('(') else []
        hit = [r for r in rows if isinstance(r, list) and len(r) >= 3 and r[1] == 'True' and r[2] == 'True']
        incoherent = [r for r in rows if isinstance(r, list) and len(r) >= 3 and r[1] != r[2]]
        run.evaluations += 1
        if want == 'missing_composite_written_back':
            run.oblige('counterexample:lean-replay:' + fn, 'counterexample', bool(hit) and not incoherent,
                       'model rows (names, missingComposite, store changed by set(get)): %s' % ans[:600])
        run.cov.setdefault('lean_counterexample_replay', {})[fn] = ans[:400]


VARS_WITNESS = progen.PRELUDE + '''def f(a, b, c):
    vars_ = a
    if b:
        vars_ = vars_ + 1
    return vars_
'''


def vars_witness(run):
    """Replay of `C01CF_params_declared_counterexample` (Props/C01CF.lean) on the real code: a state variable called
    `vars_` (C11 finding user_name_equals_hard_coded_template_identifier).  The model must say: hypothesis pdHypS false,
    conclusion pdOkL false on its output; the real conversion is expected to die with
    "name 'vars_' is parameter and nonlocal" (recorded, not judged here: the finding belongs to C11)."""
    sys.path.insert(0, common.REPO)
    p = progen.Program(VARS_WITNESS, [(1, 2, 3)], [], 'witness')
    with progen.Workspace() as ws:
        mod = ws.load(p)
        tr = passes.trace_conversion(mod.f, passes.make_options())
        req = c03_cf.cf_request(tr)
        ws.unload(mod)
    real = repr(tr.error)[:200] if tr.error is not None else 'converted without error'
    ans = run.drive(['c01cf.eval' + req[len('c03.cf'):] + ' ()'])[0] if req is not None else 'no-request'
    try:
        fl = [x == 'True' for x in parse_sexp(ans)]
        ok = len(fl) == 6 and not fl[1] and not fl[4]
    except Exception:  # noqa
        ok = False
    run.evaluations += 1
    run.oblige('counterexample:c01cf-vars_-replay', 'counterexample', ok, 'model answered %s; real conversion: %s' % (ans, real))
    run.cov['c01cf_vars_witness'] = {'model (noSkip pdHyp nlHyp routed pdOk nlOk)': ans, 'real_conversion': real}


def absorb(run, results, progs_by_key, stats, corpus_expect=None):
    """Fold worker results into the run: cases, failures, correspondence/checker disagreements."""
    cf_dis, ck_bad = [], []
    for res in results:
        prog = progs_by_key[res['key']]
        nontriv = sum(res['ncalls_static'].values()) > 0
        run.case(('program', res['key']), nontriv)
        stats['programs'] += 1
        stats['traces'] += res['traces']
        stats['runs'] += res['runs']
        stats['diverged'] += res['diverged']
        stats['directive_loops'] += res['directive_loops']
        stats['seen_directive_loops'] += res['seen_directive_loops']
        for k, v in res['counts'].items():
            stats['rt'][k] = stats['rt'].get(k, 0) + v
        for k, v in res['ncalls_static'].items():
            stats['static_calls'][k] = stats['static_calls'].get(k, 0) + v
        for f in res.get('features', []):
            stats['features'][f] = stats['features'].get(f, 0) + 1
        run.evaluations += res['runs']
        for e in res['errors']:
            stats['errors'][e[:120]] = stats['errors'].get(e[:120], 0) + 1
        for c in res['cf']:
            stats['cf_cases'] += 1
            if c['difference']:
                cf_dis.append({'program': prog.to_json(), 'recursive': c['recursive'], 'difference': c['difference']})
        for c in res['checker']:
            stats['checker_cases'] += 1
            stats['checker_calls'] += c.get('ncalls') or 0
            if not c['ok']:
                ck_bad.append({'program': prog.to_json(), 'recursive': c['recursive'], 'checker_answer': c['answer']})
        stats['liveout_checked'] += res.get('liveout_checked', 0)
        for b in res.get('liveout_bad', []):
            stats['liveout_bad'].append({'program': prog.to_json(), 'annotation': b})
        for k, v in res.get('why', {}).items():
            stats['why'][k] = stats['why'].get(k, 0) + v
        for c in res.get('c01cf', []):
            cs = stats['c01cf']
            fl = c['flags']
            if c['what'] == 'c01cf.eval':
                cs['tables'] += 1
                if fl is None or len(fl) != 6:
                    cs['bad_answers'] += 1
                    continue
                no_skip, pd_h, nl_h, routed, pd_m, nl_m = fl
                cs['no_skip'] += no_skip; cs['pd_hyp'] += pd_h; cs['nl_hyp'] += nl_h
                cs['model_routed'] += routed; cs['model_pd'] += pd_m; cs['model_nl'] += nl_m
                # what the theorems say: hypothesis => conclusion on the model output
                if (no_skip and not routed) or (pd_h and not pd_m) or (nl_h and not nl_m):
                    cs['theorem_contradicted'].append({'program': prog.to_json(), 'recursive': c['recursive'], 'flags': fl})
                if not (pd_h and nl_h) and len(cs['hyp_false_samples']) < 3:
                    cs['hyp_false_samples'].append({'program': prog.function_source()[-700:], 'recursive': c['recursive'],
                                                    'pd_hyp': pd_h, 'nl_hyp': nl_h})
            else:
                key = 'real_pass' if c['what'] == 'c01cf.pass' else 'real_final'
                cs[key + '_trees'] += 1
                if fl is None or len(fl) != 3:
                    cs['bad_answers'] += 1
                    continue
                for name, ok in zip(('routed', 'pd', 'nl'), fl):
                    cs[key + '_' + name] += ok
                    if not ok and len(cs['real_bad']) < 6:
                        cs['real_bad'].append({'program': prog.to_json(), 'recursive': c['recursive'], 'tree': key, 'predicate': name})
        for f in res['rt_failures']:
            run.fail(f['what'], {'program': prog.to_json(), 'recursive': f['recursive'], 'input': f['input'],
                                 'decisions': f['decisions'], 'detail': f['detail']}, f['cls'])
    return cf_dis, ck_bad


def new_stats():
    return {'programs': 0, 'traces': 0, 'runs': 0, 'diverged': 0, 'rt': {}, 'static_calls': {}, 'features': {}, 'errors': {},
            'cf_cases': 0, 'checker_cases': 0, 'checker_calls': 0, 'directive_loops': 0, 'seen_directive_loops': 0, 'why': {}, 'liveout_checked': 0, 'liveout_bad': [],
            'c01cf': dict({k: 0 for k in ('tables', 'bad_answers', 'no_skip', 'pd_hyp', 'nl_hyp', 'model_routed', 'model_pd', 'model_nl',
                                          'real_pass_trees', 'real_pass_routed', 'real_pass_pd', 'real_pass_nl',
                                          'real_final_trees', 'real_final_routed', 'real_final_pd', 'real_final_nl')},
                          theorem_contradicted=[], hyp_false_samples=[], real_bad=[])}


def run_pool(items, use_driver, extra_dec=(), chunk=6, focus=False):
    tasks = []
    for i in range(0, len(items), chunk):
        tasks.append(([(p.to_json(), expect_to_json(e)) for p, e in items[i:i + chunk]], use_driver, list(extra_dec), focus))
    nproc = min(16, os.cpu_count() or 4, max(1, len(tasks)))
    ctx = multiprocessing.get_context('fork')
    out = []
    with ctx.Pool(nproc, maxtasksperchild=20) as pool:
        for r in pool.imap_unordered(process_chunk, tasks):
            out.extend(r)
    out.sort(key=lambda r: r['key'])
    return out


def audit_module(run, module, model_files):
    """Build one more Props module and audit it like common.Run.build_and_audit does (one obligation per theorem: builds and
    depends on allowed axioms only; forbidden constructs grep), with an audit file private to this process so that
    concurrent runs cannot clobber each other."""
    import re
    relpath = module.replace('.', '/') + '.lean'
    names = common.theorems_in(relpath)
    ok, log = run.lean_build([module])
    if not ok:
        errs = [l for l in log.split('\n') if 'error' in l][:8]
        for n in names:
            run.oblige('theorem:' + n, 'theorem', False, '\n'.join(errs))
        return False
    audit_dir = os.path.join(common.LEAN, '.lake', 'audit')
    os.makedirs(audit_dir, exist_ok=True)
    path = os.path.join(audit_dir, 'Audit_%s_%d.lean' % (module.split('.')[-1], os.getpid()))
    with open(path, 'w') as f:
        f.write('import %s\n' % module + ''.join('#print axioms %s\n' % n for n in names))
    try:
        with common.LakeLock():
            rc, out = common.sh(['lake', 'env', 'lean', path], cwd=common.LEAN, timeout=900)
    finally:
        try:
            os.remove(path)
        except OSError:
            pass
    axioms = {}
    for m in re.finditer(r"'([^']+)' depends on axioms: \[([^\]]*)\]", out):
        axioms[m.group(1)] = [a.strip() for a in m.group(2).replace('\n', ' ').split(',') if a.strip()]
    for m in re.finditer(r"'([^']+)' does not depend on any axioms", out):
        axioms[m.group(1)] = []
    good = True
    for n in names:
        if n not in axioms:
            run.oblige('theorem:' + n, 'theorem', False, 'not found by #print axioms: ' + out[-400:]); good = False
        else:
            extra = [a for a in axioms[n] if a not in common.ALLOWED_AXIOMS]
            run.oblige('theorem:' + n, 'theorem', not extra, 'axioms: %s' % axioms[n]); good = good and not extra
    run.cov.setdefault('axioms_other_modules', {}).update(axioms)
    hits = []
    for rp in [relpath] + list(model_files):
        fp = os.path.join(common.LEAN, rp)
        if os.path.exists(fp):
            with open(fp) as f:
                body = common.strip_comments(f.read())
            for i, line in enumerate(body.split('\n'), 1):
                if common.FORBIDDEN.search(line):
                    hits.append('%s:%d: %s' % (rp, i, line.strip()[:120]))
    run.oblige('grep:no-sorry-axiom-native_decide:' + module.split('.')[-1], 'audit', not hits, '\n'.join(hits))
    if run.tier == 'thorough':
        with common.LakeLock():
            rc, out = common.sh(['lake', 'env', 'leanchecker', module], cwd=common.LEAN, timeout=3000)
        run.oblige('leanchecker:' + module, 'audit', rc == 0, out[-800:])
    return good and not hits


def check(run, only=None):
    run.rule = ('programs = bounded-exhaustive control-flow skeletons (if/while/for/with/try/def nests with break/continue/'
                'return/raise; stride-sampled when above the cap) + typed random programs of the C01 class (composite state: '
                'l[0], o.v), each with set_loop_options directives placed in a random subset of its loops (none / some / all, '
                'nested included), converted with recursive in {True, False}; a case = one program (non-trivial iff its '
                'generated code contains an operator call) and, for the runtime part, one run (program, options, input, '
                'decision vector) of the instrumented converted function')
    run.assumptions += [
        'store semantics of getter/setter in Lean: distinct qualified names are distinct locations (no aliasing inside one state tuple); validated only differentially by the instrumented operators',
        'caller-frame variables are read through sys._getframe().f_locals / eval of the symbol name (CPython frame introspection)',
        'annotation tables are consumed as recorded from the real analyses (the model of the pass is parametric in them); QN strings are re-parsed by the model (Literal keys 1/True/1.0 that compare equal are not distinguished by the real QN either)',
        'directives: the instrumented check identifies a loop by the value of maximum_iterations the generator gave it',
    ]
    # theorems about the same model that C01 audits (routing, the-module-loads side obligations)
    audit_module(run, 'MaltModel.Props.C01CF', ['MaltModel/Conv/CFSpec.lean', 'MaltModel/Proofs/C01CF.lean'])
    # where loop annotations come from in the SOURCE (model of DirectivesTransformer: Conv/Directives.lean, tied by C04)
    audit_module(run, 'MaltModel.Props.C03Directives', ['MaltModel/Conv/DirectivesSpec.lean', 'MaltModel/Proofs/C03Directives.lean'])
    run.build_and_audit('MaltModel.Props.C03', model_files=MODEL_FILES)

    stats = new_stats()
    if only is None:
        c03_cf.check_blockvars(run, 1500 if run.tier == 'quick' else 8000)
    # ---------------- corpus first (known witnesses; must keep failing in their class, or pass if fixed)
    corp = corpus_items()
    if corp and only is None:
        items = [(p, e) for (_, p, e, _) in corp]
        by_key = {p.key: p for p, _ in items}
        results = run_pool(items, run.driver_ok, chunk=1)
        cs = new_stats()
        cf_dis0, ck_bad0 = absorb(run, results, by_key, cs)
        got_classes = {}
        for res in results:
            for f in res['rt_failures']:
                got_classes.setdefault(res['key'], set()).add(f['cls'])
        status = {}
        errs = {res['key']: res['errors'] for res in results}
        for fn, p, e, j in corp:
            if j.get('must_convert') and errs.get(p.key):
                # witness of a repaired defect: it stays in the corpus and must pass
                run.fail('corpus witness %s of a fixed defect does not convert' % fn,
                         {'program': p.to_json(), 'errors': errs[p.key]}, None)
            want = j.get('expect_class')
            status[fn] = {'expect_class': want, 'observed_classes': sorted(str(c) for c in got_classes.get(p.key, set()))}
            # a listed witness that no longer fails means the defect was fixed: model and theorem must then be updated
            if want is not None and want not in got_classes.get(p.key, set()):
                run.oblige('corpus:' + fn, 'corpus', False,
                           'witness of the known finding no longer fails in class %s (fixed? update model, theorem and known_findings)' % want)
        run.cov['corpus'] = status
        if run.driver_ok:
            lean_replay(run, corp)
            vars_witness(run)
    else:
        cf_dis0, ck_bad0 = [], []

    # ---------------- generated programs
    if only is None:
        items, info = gen_programs(run)
    else:
        items, info = only, {}
    by_key = {p.key: p for p, _ in items}
    t0 = time.time()
    results = run_pool(items, run.driver_ok)
    cf_dis, ck_bad = absorb(run, results, by_key, stats)
    cf_dis = cf_dis0 + cf_dis
    ck_bad = ck_bad0 + ck_bad

    if run.driver_ok:
        run.oblige('correspondence:c03.cf', 'correspondence', not cf_dis, json.dumps(cf_dis[:2])[:1800] if cf_dis else '')
        run.oblige('checker:contractOk-on-real-output', 'checker', not ck_bad, json.dumps(ck_bad[:2])[:1800] if ck_bad else '')
        for b in ck_bad[:5]:
            run.fail('the final generated code violates the calling contract (verified checker contractOk = false)', b, None)
        cs = stats['c01cf']
        run.oblige('consistency:c01cf-hypothesis-implies-conclusion-on-model-output', 'correspondence',
                   not cs['theorem_contradicted'] and not cs['bad_answers'], json.dumps(cs['theorem_contradicted'][:1])[:1200])
        bad = [b for b in cs['real_bad']]
        run.oblige('checker:c01cf-routing-params-nonlocals-on-real-output', 'checker',
                   not bad, json.dumps(bad[:2])[:1500] if bad else '')
        for b in bad[:3]:
            run.fail('the real output violates %s (Props/C01CF.lean predicate) in the %s tree' % (
                {'routed': 'routing: a native if/while/for is left', 'pd': 'a name is both parameter and declared global/nonlocal',
                 'nl': 'a nonlocal declaration has no binding in an enclosing function scope'}[b['predicate']], b['tree']), b, None)
        run.cov['c01cf'] = {k: v for k, v in cs.items() if k not in ('theorem_contradicted', 'real_bad')}
    else:
        run.oblige('correspondence:c03.cf', 'correspondence', False, 'driver unavailable')
        run.oblige('checker:contractOk-on-real-output', 'checker', False, 'driver unavailable')

    # ---------------- checker on the REAL annotations the pass reads (needs no Lean): closures keep their variables live
    lb = stats['liveout_bad']
    run.cov['closure_liveout_triples_checked'] = stats['liveout_checked']
    run.oblige('checker:closure-variables-live-out-of-blocks-on-real-annotations', 'checker', not lb,
               json.dumps([b['annotation'] for b in lb[:3]])[:1200] if lb else '')
    for b in lb[:3]:
        run.fail('LIVE_VARS_OUT of a block lacks a variable read by a local function that can be called after the block '
                 '(it is then classified input-only: not among the first nouts state entries)', b, None)

    # ---------------- focused search when the tie broke: more decision vectors on the disagreeing programs
    if (cf_dis or ck_bad) and only is None:
        seen, focus = set(), []
        for d in cf_dis + ck_bad:
            p = progen.Program.from_json(d['program'])
            if p.key not in seen and len(focus) < 40:
                seen.add(p.key)
                focus.append((p, expect_of_source(p.source)))
        extra = progen.decision_vectors(random.Random(run.seed + 17), 24)[4:]
        fres = run_pool(focus, False, extra_dec=extra, chunk=1, focus=True)
        fstats = new_stats()
        absorb(run, fres, {p.key: p for p, _ in focus}, fstats)
        run.cov['focused_search'] = {'programs': len(focus), 'runs': fstats['runs'], 'runtime_checks': fstats['rt']}

    # ---------------- PYTHONHASHSEED slice (set iteration order feeds nonlocal lists / Undefined pre-assignments)
    if only is None and run.driver_ok:
        seeds = [run.seed * 11 + k + 1 for k in range(2 if run.tier == 'quick' else 6)]
        sl = [(p.to_json(), expect_to_json(e)) for p, e in items[:: max(1, len(items) // (30 if run.tier == 'quick' else 120))]]
        hs_dis = []
        procs = []
        for hs in seeds:
            procs.append((hs, subprocess.Popen([sys.executable, os.path.abspath(__file__), '--hashseed-worker'], text=True,
                                               stdin=subprocess.PIPE, stdout=subprocess.PIPE, stderr=subprocess.PIPE,
                                               env=dict(os.environ, PYTHONHASHSEED=str(hs % 4294967295), MALT_REPO=common.REPO))))
        for hs, pr in procs:
            out, err = pr.communicate(json.dumps(sl))
            if pr.returncode != 0:
                raise common.InfraError('hashseed worker failed: ' + err[-800:])
            rep = json.loads(out.strip().split('\n')[-1])
            run.evaluations += rep['cases']
            for d in rep['dis']:
                hs_dis.append(dict(d, PYTHONHASHSEED=hs))
            for f in rep['fails']:
                run.fail(f['what'] + ' (PYTHONHASHSEED=%d)' % hs, f['case'], f['cls'])
        run.cov['hashseeds'] = seeds
        run.cov['hashseed_slice_programs'] = len(sl)
        run.oblige('correspondence:c03.cf-under-hashseeds', 'correspondence', not hs_dis, json.dumps(hs_dis[:2])[:1500] if hs_dis else '')

    # ---------------- evidence
    run.cov['skeleton_space'] = info
    run.cov['programs'] = stats['programs']
    run.cov['conversions'] = stats['traces']
    run.cov['cf_model_cases'] = stats['cf_cases']
    run.cov['checker_cases'] = stats['checker_cases']
    run.cov['checker_calls_verified'] = stats['checker_calls']
    run.cov['emitted_calls_static'] = stats['static_calls']
    run.cov['instrumented_runs'] = stats['runs']
    run.cov['runtime_checks'] = stats['rt']
    # (1) why programs leave the class `lawful` of the get/set theorems: static reasons read off the generated state tuples
    # by the driver (c03.why), and the class of every dynamic invocation as computed by the instrumented operators
    classes = {k[len('class:'):]: v for k, v in stats['rt'].items() if k.startswith('class:')}
    run.cov['why_outside_get_set_hypotheses'] = {
        'static (emitted calls of the real final code)': dict(stats['why'], meaning={
            'composite_entries': 'the state tuple has an ldu-guarded entry: at run time it may be missing (class missingComposite) or have an Undefined base (class undefinedBase)',
            'dependent_entries': 'the path of an entry goes through a variable / prefix path that is itself an entry (class dependent)'}),
        'dynamic (class of each probed invocation; laws are theorems on lawful)': classes}
    clause_counts = {k[len('clause:'):]: v for k, v in stats['rt'].items() if k.startswith('clause:')}
    clause_counts['outputs_first (contract-following if_stmt runs)'] = stats['rt'].get('functional_if_runs', 0)
    run.cov['operator_contract_clauses_checked_dynamically'] = clause_counts
    nclass = sum(classes.values())
    run.oblige('partition:c03-state-classes', 'correspondence',
               stats['rt'].get('FAILURE-IN-LAWFUL-CLASS', 0) == 0 and nclass == stats['rt'].get('clause:lengths', 0),
               'classified %d of %d invocations; algebra failures in class lawful: %d' % (
                   nclass, stats['rt'].get('clause:lengths', 0), stats['rt'].get('FAILURE-IN-LAWFUL-CLASS', 0)))
    run.cov['instrumented_run_differs_from_plain_run'] = stats['diverged']
    run.cov['directive_loops_generated'] = stats['directive_loops']
    run.cov['directive_loops_seen_at_runtime'] = stats['seen_directive_loops']
    run.cov['features'] = stats['features']
    run.cov['conversion_errors'] = stats['errors']
    run.cov['exhaustive'] = bool(info.get('exhaustive')) and False
    if stats['diverged']:
        run.notes.append('%d instrumented runs differ from the plain converted run (probe not exactly undone?)' % stats['diverged'])
    if stats['rt'].get('RESTORE-FAILED'):
        run.notes.append('%d probes could not be undone exactly' % stats['rt']['RESTORE-FAILED'])
    for res in results[:400]:
        if res['rt_failures'] and len(run.samples) < 2:
            run.sample({'program': by_key[res['key']].function_source(), 'failure': res['rt_failures'][0]})
    for p, e in items[:200]:
        if e['loops'] and len(run.samples) < 4:
            run.sample({'program': p.function_source(), 'directive_expectation': expect_to_json(e)})
    run.cov['search'] = ('instrumented operators on %d runs of %d programs (%d dynamic operator invocations probed with '
                         'get/set/get, set(get), set(fresh)/get, frame inspection)' % (
                             stats['runs'], stats['programs'], stats['rt'].get('probed', 0)))
    run.cov['wall_pool_s'] = round(time.time() - t0, 1)


def hashseed_worker():
    sys.path.insert(0, common.REPO)
    sl = json.loads(sys.stdin.read())
    res = process_chunk((sl, True, []))
    dis, fails, cases = [], [], 0
    for r, (pj, ej) in zip(res, sl):
        for c in r['cf']:
            cases += 1
            if c['difference']:
                dis.append({'program': pj, 'recursive': c['recursive'], 'difference': c['difference']})
        for f in r['rt_failures']:
            fails.append({'what': f['what'], 'cls': f['cls'],
                          'case': {'program': pj, 'recursive': f['recursive'], 'input': f['input'], 'decisions': f['decisions'], 'detail': f['detail']}})
    print(json.dumps({'cases': cases, 'dis': dis[:5], 'fails': fails[:10]}))


def replay(run, path):
    with open(path) as f:
        rep = json.load(f)
    case = rep.get('case') or {}
    pj = case.get('program') or rep.get('program')
    if pj is None:
        print(json.dumps(rep, indent=1)[:3000])
        check(run)
        return run.finish()
    p = progen.Program.from_json(pj)
    if case.get('input') is not None:
        p.inputs = [tuple(case['input'])]
    if case.get('decisions') is not None:
        p.decisions = [list(case['decisions'])]
    print('replaying %s on\n%s' % (rep.get('what'), p.function_source()))
    check(run, only=[(p, expect_of_source(p.source))])
    for f in run.failing:
        print('FAILS:', f['what'], f['cls'], json.dumps(f['case'].get('detail'))[:600])
    return run.finish()


if __name__ == '__main__' and '--hashseed-worker' in sys.argv:
    hashseed_worker()
