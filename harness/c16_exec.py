"""C16 — execution of call trees with the REAL malt wrappers, observation logs, direct oracle.

A call tree is a JSON-able dict per node:
  k   : 'plain' | 'dnc' | 'unspec' | 'ctx' | 'fs' | 'conv' | 'iconv'
  st  : 'U'|'E'|'D'                      (ctx)     status of the new ControlStatusCtx
  ur  : bool                             (fs, conv, iconv)  user_requested
  c   : 'null' | 'current' | 'default' | ['obj', k]  (conv, iconv)   conversion_ctx / ctx : NullCtx(), control_status_ctx() at
        the moment of wrapping, the thread's default context captured by the runner outside every region, or the
        shared object SHARED[k] (created elsewhere, never on the list otherwise)
  cbd : bool                             (iconv)   convert_by_default
  rec : bool                             (conv, fs via tograph)  recursive
  feat: None | 'NAME_SCOPES' | 'AUTO_CONTROL_DEPS' | 'ALL' | 'LISTS+NAME_SCOPES'   (conv, fs)  optional features of the
        conversion options; each of these makes FunctionScope refuse the options (AssertionError "... not supported")
  via : which real API realises the kind (see `callable_for`)
  v   : 'for' | 'while' | 'meth' | 'partial' | 'callable' | 'localdef' | 'locallambda' | 'twolevel' | 'localclass' | 'gen' | 'genmeth'   which body of c16_bodies is wrapped (function, bound method,
        functools.partial of a function, callable object)
  take: None | int   (generator callees, v in gen / genmeth) the consumer resumes the generator only `take` times and then
        keeps it suspended until the end of the thread; such trees are judged by the direct oracle only
  exc : 'boom' | 'frozen' | 'setattr' | 'base' | 'basesetattr'   class of the exception the node raises (c16_bodies.EXC): a frozen
        dataclass, one whose __setattr__ raises, BaseException subclasses; all are caught by catching ancestors like Boom
  over: list of wrappers composed OVER this node's callable on the same function object, outermost first:
        'dnc' | 'unspec' | ['conv', ur]   e.g. ['dnc'] on a conv node = do_not_convert(convert(...)(f)); such trees are judged
        by the direct oracle only
  ch  : children, ra : None | int (raise Boom before child `ra`, or after the last one if ra == len(ch)), ca : catches Boom

Nothing here needs Lean.
"""
import functools, inspect, re, sys, threading, time

import c16_bodies as B

STATUS_LETTERS = 'UED'
# body variants that are plain functions (to_graph takes them as they are)
PLAIN_FUNCTION_VARIANTS = ('for', 'while', 'localdef', 'locallambda', 'twolevel', 'localclass')
N_SHARED = 6


class _Malt(object):
    """Everything taken from the malt under test, plus the wrapper tables built from it (once)."""

    def __init__(self):
        import malt
        from malt.core import ag_ctx, converter
        from malt.impl import api
        from malt.operators import function_wrappers
        self.malt, self.ag_ctx, self.converter, self.api, self.fw = malt, ag_ctx, converter, api, function_wrappers
        S = ag_ctx.Status
        self.status = {'U': S.UNSPECIFIED, 'E': S.ENABLED, 'D': S.DISABLED}
        self.letter = {S.UNSPECIFIED: 'U', S.ENABLED: 'E', S.DISABLED: 'D'}
        # context objects created by "someone else" and handed to convert()/internal_convert(): shared by all threads
        self.shared = [ag_ctx.ControlStatusCtx(status=self.status[STATUS_LETTERS[k % 3]]) for k in range(N_SHARED)]
        F = converter.Feature
        self.feats = {None: None, 'NAME_SCOPES': F.NAME_SCOPES, 'AUTO_CONTROL_DEPS': F.AUTO_CONTROL_DEPS, 'ALL': F.ALL,
                      'LISTS+NAME_SCOPES': (F.LISTS, F.NAME_SCOPES)}
        self.opts = {(ur, ft): converter.ConversionOptions(recursive=True, user_requested=ur, optional_features=fv)
                     for ur in (False, True) for ft, fv in self.feats.items()}
        self.bodies = {'for': B.body_for, 'while': B.body_while, 'meth': B.HOLDER.body_meth,
                       'partial': functools.partial(B.body_for), 'callable': B.CALLABLE,
                       'gen': B.gbody_for, 'genmeth': B.HOLDER.gbody_meth,
                       'localdef': B.body_localdef, 'locallambda': B.body_locallambda, 'twolevel': B.body_twolevel,
                       'localclass': B.body_localclass}
        self.lock = threading.Lock()
        self.table = {}
        for name in ('obs', 'kids', 'step', 'last', 'handle', 'handle_refusal', 'drive', 'nkids', 'kid', 'kid_id', 'run_native', 'new_ctx', 'inner'):
            api.autograph_artifact(getattr(Env, name))

    def cached(self, key, make):
        with self.lock:
            if key not in self.table:
                self.table[key] = make()
            return self.table[key]

    def ctx_arg(self, c):
        if c == 'null':
            return self.ag_ctx.NullCtx()
        if c == 'current':
            return self.ag_ctx.control_status_ctx()
        if c == 'default':
            return env_default()          # the thread's default context, captured by the runner before anything was entered
        return self.shared[c[1]]

    # ------------------------------------------------------------------ node -> real callable (env, path) -> None
    def callable_for(self, nd):
        f = self._callable_base(nd)
        for w in reversed(nd.get('over') or []):
            if w == 'dnc':
                f = self.api.do_not_convert(f)
            elif w == 'unspec':
                f = self.api.call_with_unspecified_conversion_status(f)
            else:
                f = self.api.convert(recursive=True, optional_features=None, user_requested=bool(w[1]))(f)
        return f

    def _callable_base(self, nd):
        api, ag_ctx, fw, malt = self.api, self.ag_ctx, self.fw, self.malt
        k, v = nd['k'], nd.get('v', 'for')
        body = self.bodies[v]
        if k == 'plain':
            return body
        if k == 'dnc':
            if nd.get('via') == 'experimental':
                return self.cached(('dncx', v), lambda: malt.experimental.do_not_convert(body))
            return self.cached(('dnc', v), lambda: api.do_not_convert(body))
        if k == 'unspec':
            return self.cached(('unspec', v), lambda: api.call_with_unspecified_conversion_status(body))
        if k == 'conv':
            ur, rec, c = nd['ur'], nd.get('rec', True), nd['c']
            feats = self.feats[nd.get('feat')]
            conv = malt.convert if nd.get('via') == 'malt' else api.convert
            if c in ('current', 'default'):
                def conv_current(env, p):
                    return conv(recursive=rec, optional_features=feats, user_requested=ur,
                                conversion_ctx=self.ctx_arg(c))(body)(env, p)
                return api.autograph_artifact(conv_current)
            key = ('conv', v, ur, rec, c if c == 'null' else c[1], nd.get('via'), nd.get('feat'))
            return self.cached(key, lambda: conv(recursive=rec, optional_features=feats, user_requested=ur,
                                                 conversion_ctx=self.ctx_arg(c))(body))
        if k == 'iconv':
            ur, cbd, c = nd['ur'], nd['cbd'], nd['c']
            iconv = malt.internal.convert if nd.get('via') == 'malt' else api.internal_convert

            def iconv_call(env, p):
                return iconv(body, self.ctx_arg(c), convert_by_default=cbd, user_requested=ur)(env, p)
            return api.autograph_artifact(iconv_call)
        if k == 'ctx':
            if nd.get('via') == 'src':
                return B.ctx_block
            st = self.status[nd['st']]

            def ctx_helper(env, p):
                with ag_ctx.ControlStatusCtx(status=st):
                    return body(env, p)
            return api.autograph_artifact(ctx_helper)
        if k == 'fs':
            ur, via = nd['ur'], fs_realisation(nd)
            ft = nd.get('feat')
            feats = self.feats[ft]
            if via == 'tograph':
                rec = nd.get('rec', True)
                return self.cached(('tg', v, rec, ft), lambda: malt.to_graph(body, recursive=rec, experimental_optional_features=feats))
            if via == 'tograph_lam':
                return self.cached(('tgl', ft), lambda: malt.to_graph(B.lam, recursive=True, experimental_optional_features=feats))
            if via == 'wfs':
                def wfs_helper(env, p):
                    return fw.with_function_scope(lambda scope: body(env, p), 'lscope', self.opts[(ur, ft)])
                return api.autograph_artifact(wfs_helper)

            def scope_helper(env, p):
                with fw.FunctionScope('f', 'fscope', self.opts[(ur, ft)]):
                    return body(env, p)
            return api.autograph_artifact(scope_helper)
        raise ValueError('unknown kind %r' % (k,))


_TLS = threading.local()


def env_default():
    return _TLS.env.default


_M = None
_M_LOCK = threading.Lock()


def M():
    global _M
    with _M_LOCK:
        if _M is None:
            _M = _Malt()
    return _M


BODY_NAMES = ('body_for', 'body_while', 'body_meth', '__call__', 'gbody_for', 'gbody_meth',
              'body_localdef', 'body_locallambda', 'body_twolevel', 'body_localclass')


def observer_is_converted(frame):
    """Is the body that asks (nearest body-function frame up the stack) malt's conversion of it (`ag__<name>`) or the
    function as written?  The runner (no body frame) is native."""
    n = 0
    while frame is not None and n < 200:
        name = frame.f_code.co_name
        if name.startswith('ag__') and name[4:] in BODY_NAMES:
            return True
        if name in BODY_NAMES and frame.f_code.co_filename == B.__file__:
            return False
        frame, n = frame.f_back, n + 1
    return False


class Gate(object):
    """Hands the interpreter to one harness thread at a time, observation point by observation point, following a
    schedule; afterwards everybody runs freely."""

    def __init__(self, n, schedule):
        self.n, self.schedule = n, list(schedule)
        self.sems = [threading.Semaphore(0) for _ in range(n)]
        self.back = threading.Semaphore(0)
        self.free = False
        self.finished = [False] * n
        self.used = 0

    def wait_turn(self, tid):
        if self.free:
            return
        if not self.sems[tid].acquire(timeout=120):
            raise RuntimeError('gate timeout')

    def yield_(self, tid):
        if self.free:
            return
        self.back.release()
        self.wait_turn(tid)

    def done(self, tid):
        self.finished[tid] = True
        self.back.release()

    def drive(self):
        for tid in self.schedule:
            if tid >= self.n or self.finished[tid]:
                continue
            self.sems[tid].release()
            if not self.back.acquire(timeout=120):
                raise RuntimeError('gate timeout (driver)')
            self.used += 1
        self.free = True
        for s in self.sems:
            s.release()


class Env(object):
    """Per-thread harness state: the call tree, the observation log.  Its methods are autograph artifacts."""

    def __init__(self, tree, tid=0, gate=None, jitter=None):
        self.m = M()
        self.nodes = {}
        self._index(tree, (0,))
        self.tree = tree
        self.log = []            # (path, point, ctx object, observer is converted code)
        self.tid, self.gate, self.jitter = tid, gate, jitter
        self.default = None
        self.parked = []
        self.outcome = None
        self.final_stack = None
        self.detail = None

    def _index(self, nd, p):
        self.nodes[p] = nd
        for i, c in enumerate(nd['ch']):
            self._index(c, p + (i,))

    # -------- called from the bodies (possibly from converted code) --------
    def obs(self, nid, pt, i=None):
        c = self.m.ag_ctx.control_status_ctx()
        self.log.append((nid, pt if i is None else (pt, i), c, observer_is_converted(sys._getframe(1))))
        if self.gate is not None:
            self.gate.yield_(self.tid)
        elif self.jitter is not None and self.jitter.random() < 0.3:
            time.sleep(0)

    def kids(self, nid):
        nd = self.nodes[nid]
        return [(i, self.m.callable_for(c), nid + (i,)) for i, c in enumerate(nd['ch'])]

    def nkids(self, nid):
        return len(self.nodes[nid]['ch'])

    def kid(self, nid, i):
        return self.m.callable_for(self.nodes[nid]['ch'][i])

    def kid_id(self, nid, i):
        return nid + (i,)

    def step(self, nid, i):
        if self.nodes[nid]['ra'] == i:
            raise B.EXC[self.nodes[nid].get('exc', 'boom')]('@%s@' % '.'.join(map(str, nid)))

    def last(self, nid):
        nd = self.nodes[nid]
        if nd['ra'] == len(nd['ch']):
            raise B.EXC[nd.get('exc', 'boom')]('@%s@' % '.'.join(map(str, nid)))

    def handle(self, nid):
        if self.nodes[nid]['ca']:
            self.obs(nid, 'caught')
        else:
            raise

    def drive(self, c, r):
        """Consumer side of a generator child `c` (called from the parent's body with what the call returned): observe
        after creation, then resume step by step, observing between resumptions, until exhausted."""
        if not inspect.isgenerator(r):
            return
        self.obs(c, 'made')
        take = self.nodes[c].get('take')
        j = 0
        while take is None or j < take:
            try:
                next(r)
            except StopIteration:
                return
            self.obs(c, 'res', j)
            j += 1
        self.parked.append(r)      # the consumer goes on (and may return) while the generator stays suspended

    def handle_refusal(self, nid):
        """`except AssertionError:` of a body: only a function scope's refusal of its options is catchable."""
        import sys as _sys
        e = _sys.exc_info()[1]
        if self.nodes[nid]['ca'] and is_refusal(e):
            self.obs(nid, 'caught')
        else:
            raise

    def run_native(self, nid):
        return self.m.bodies[self.nodes[nid].get('v', 'for')](self, nid)

    def new_ctx(self, nid):
        return self.m.ag_ctx.ControlStatusCtx(status=self.m.status[self.nodes[nid]['st']])

    def inner(self, nid):
        return self.m.bodies[self.nodes[nid].get('v', 'for')]

    # -------- the thread's program --------
    def run(self):
        ag_ctx = self.m.ag_ctx
        try:
            if self.gate is not None:
                self.gate.wait_turn(self.tid)
            self.default = ag_ctx.control_status_ctx()
            _TLS.env = self
            root = self.m.callable_for(self.tree)
            self.obs((), 'start')
            try:
                root(self, (0,))
                self.outcome = ['ok']
            except BaseException as e:  # noqa
                self.outcome = classify(e)
                self.detail = '%s: %s' % (type(e).__name__, str(e)[-300:])
            finally:
                self.obs((), 'fin')
            for g in reversed(self.parked):      # the suspended generators are closed only now, innermost first
                g.close()
            self.parked = []
            stk = getattr(ag_ctx.stacks, 'control_status', None)
            self.final_stack = list(stk) if isinstance(stk, list) else None
        except BaseException as e:  # noqa  (harness or gate trouble)
            self.outcome = ['harness-error', type(e).__name__, str(e)[-300:]]
        finally:
            if self.gate is not None:
                self.gate.done(self.tid)


def is_refusal(e):
    return isinstance(e, AssertionError) and 'not supported' in str(e)


def classify(e):
    if is_refusal(e):
        return ['rejected']
    return _classify(e)


def _classify(e):
    if isinstance(e, B.CATCHABLE):
        m = re.search(r'@([\d.]*)@', str(e))
        return ['boom', [int(x) for x in m.group(1).split('.') if x] if m else None]
    if isinstance(e, AssertionError):
        return ['assertion']
    if isinstance(e, IndexError):
        return ['index']
    return ['other', type(e).__name__]


# ---------------------------------------------------------------------- running cases
def _no_harness_error(envs):
    """Trouble of the harness itself (gate timeout, ...) is an infrastructure error, never a verdict on malt."""
    for e in envs:
        if e.outcome and e.outcome[0] == 'harness-error':
            raise RuntimeError('harness error in thread %d: %s' % (e.tid, e.outcome))


def run_alone(tree):
    """The tree in a fresh thread, nothing else running: the single-thread log."""
    env = Env(tree)
    t = threading.Thread(target=env.run)
    t.start()
    t.join(300)
    if t.is_alive():
        raise RuntimeError('thread did not finish')
    _no_harness_error([env])
    return env


def run_together(trees, mode, schedule=None, jitter_seed=0):
    """All trees at once, one thread each.  mode 'sched': observation points interleaved as `schedule` says, then
    free; mode 'free': a start barrier, a tiny switch interval and random yields."""
    import random
    n = len(trees)
    gate = Gate(n, schedule or []) if mode == 'sched' else None
    envs = [Env(t, tid=i, gate=gate, jitter=None if gate else random.Random(jitter_seed * 1000 + i)) for i, t in enumerate(trees)]
    barrier = threading.Barrier(n)

    def prog(env):
        if gate is None:
            barrier.wait(60)
        env.run()
    threads = [threading.Thread(target=prog, args=(e,)) for e in envs]
    old = sys.getswitchinterval()
    if gate is None:
        sys.setswitchinterval(1e-6)
    try:
        for t in threads:
            t.start()
        if gate is not None:
            gate.drive()
        for t in threads:
            t.join(300)
            if t.is_alive():
                raise RuntimeError('thread did not finish')
    finally:
        sys.setswitchinterval(old)
    _no_harness_error(envs)
    return envs, (gate.used if gate else None)


# ---------------------------------------------------------------------- canonical logs
def canon_log(env):
    """[(path, point, converted, id, status)] with identities canonicalised: 'D' the thread's default context, 'S<k>' the shared
    object k, 'F<j>' the j-th other object first seen by this thread.  Must be called while `env.log` is alive
    (the log keeps every observed object alive, so addresses are not reused)."""
    m = env.m
    shared = {id(o): k for k, o in enumerate(m.shared)}
    seen = {}
    out = []
    for path, pt, c, conv in env.log:
        if c is env.default:
            cid = 'D'
        elif id(c) in shared:
            cid = 'S%d' % shared[id(c)]
        else:
            cid = seen.setdefault(id(c), 'F%d' % len(seen))
        st = m.letter.get(getattr(c, 'status', None), '?')
        out.append([list(path), list(pt) if isinstance(pt, tuple) else pt, bool(conv), cid, st])
    return out


def canon_stack(env):
    if env.final_stack is None:
        return None
    m = env.m
    shared = {id(o): k for k, o in enumerate(m.shared)}
    return ['D' if c is env.default else ('S%d' % shared[id(c)] if id(c) in shared else 'F') for c in reversed(env.final_stack)]


# ---------------------------------------------------------------------- the direct oracle (the property itself)
def is_gen(nd):
    return nd.get('v') in ('gen', 'genmeth')


def captured(c, parent):
    """(id, status) of the context object a `conversion_ctx=` / `ctx=` argument denotes; `parent` = (id, status) current
    in the caller's body."""
    if c in ('null', 'current'):
        return parent
    if c == 'default':
        return ('D', 'U')
    return ('S%d' % c[1], STATUS_LETTERS[c[1] % 3])


def expected_inside(nd, parent):
    """What the documented contract of the wrappers fixes about the context *object and status* the wrapped function's
    body sees, given (id, status) current in the caller: ('same', id, st) = that very object, ('fresh', st) = an object
    of its own with that status, None = nothing fixed here.  `convert(conversion_ctx=c)` runs f "in the context c";
    `internal_convert(f, ctx, …)` applies do_not_convert / convert(conversion_ctx=ctx) / the unspecified wrapper
    according to ctx.status and convert_by_default."""
    k = nd['k']
    if is_gen(nd) or parent is None:
        return None
    # wrappers composed over the callable, outermost first: each hands an *artifact* on (called as it is), so a `convert`
    # among them enters nothing of its own; do_not_convert / the unspecified wrapper enter their context
    over = nd.get('over') or []
    for w in over:
        if w == 'dnc':
            parent = ('FRESH', 'D')
        elif w == 'unspec':
            parent = ('FRESH', 'U')
    inner_artifact = not (k == 'plain' or (k == 'ctx' and nd.get('via') == 'src'))
    if over and isinstance(over[-1], list) and not inner_artifact and parent[1] != 'D':
        # the innermost composed wrapper is a convert() directly over the plain function: it converts it
        if over[-1][1]:
            parent = ('FRESH', 'E')

    def conv(ur, c, feat):
        cap = captured(c, parent)
        if cap[1] == 'D':
            return ('same',) + cap                   # conversion disabled there: f runs as it is, in that context
        if feat:
            return None                              # the function scope refuses: the body does not run
        return ('fresh', 'E') if ur else ('same',) + cap
    if over and k in ('plain', 'fs') or (over and k == 'ctx' and nd.get('via') == 'src'):
        if k == 'fs':
            return ('fresh', 'E') if nd['ur'] and not nd.get('feat') else (None if nd.get('feat') else ('same',) + parent)
        if k == 'ctx':
            return ('fresh', nd['st'])
        return ('same',) + parent
    if k == 'dnc':
        return ('fresh', 'D')
    if k == 'unspec':
        return ('fresh', 'U')
    if k == 'ctx' and nd.get('via') == 'helper':
        return ('fresh', nd['st'])
    if k == 'conv':
        return conv(nd['ur'], nd['c'], nd.get('feat'))
    if k == 'iconv':
        cap = captured(nd['c'], parent)
        if cap[1] == 'D':
            return ('fresh', 'D')
        if cap[1] == 'E' or nd['cbd']:
            return conv(nd['ur'], nd['c'], None)
        return ('fresh', 'U')
    return None


def required_status(nd, outer):
    """What the property's text fixes about the status inside a node (None: nothing)."""
    k = nd['k']
    if is_gen(nd):
        return None      # the wrapper call only creates the generator; its body runs later, in the consumer's context
    if k == 'dnc':
        return 'D'
    if k == 'fs' and nd['ur']:
        return 'E'
    if k == 'conv' and nd['ur']:
        c = nd['c']
        eff = captured(c, (None, outer))[1]
        return 'E' if eff != 'D' else None
    return None


def oracle(env, clog):
    """Problems with one thread's log, judged against the property alone."""
    probs = []
    by_owner = {}
    for path, pt, conv, cid, st in clog:
        by_owner.setdefault(tuple(path), []).append((pt, cid, st))
    # generator callees: after the wrapper call that created the generator, and after every resumption, the consumer's
    # current context must be the very object it was before (the consumer's own body-level context)
    for owner, obs in by_owner.items():
        nd = env.nodes.get(owner)
        parent = by_owner.get(owner[:-1]) if owner else None
        if nd is None or not is_gen(nd) or not parent:
            continue
        for o in obs:
            consumer = o[0] == 'made' or (isinstance(o[0], list) and o[0][0] == 'res')
            if consumer and (o[1], o[2]) != (parent[0][1], parent[0][2]):
                what = 'the call that created' if o[0] == 'made' else 'resumption %d of' % o[0][1]
                probs.append('context not restored: after %s the generator of %s-wrapped generator function %s returned to its '
                             'consumer, the consumer\'s current context is %s/%s; it was %s/%s before' % (
                                 what, nd['k'], list(owner), o[1], o[2], parent[0][1], parent[0][2]))
                break
    # restoration: every body (and the runner itself, owner ()) sees one object throughout
    for owner, obs in by_owner.items():
        first = obs[0]
        for o in obs[1:]:
            if (o[1], o[2]) != (first[1], first[2]):
                probs.append('context not restored: node %s saw %s/%s at %s but %s/%s at %s' % (
                    list(owner), first[1], first[2], first[0], o[1], o[2], o[0]))
                break
    # statuses
    for owner, obs in by_owner.items():
        if owner == ():
            continue
        nd = env.nodes.get(owner)
        if nd is None:
            probs.append('observation from unknown node %s' % (list(owner),))
            continue
        parent = by_owner.get(owner[:-1])
        outer = parent[0][2] if parent else None
        exp = expected_inside(nd, (parent[0][1], parent[0][2]) if parent else None)
        if exp is not None:
            got = (obs[0][1], obs[0][2])
            if exp[0] == 'same' and exp[1] == 'FRESH':
                exp = ('fresh', exp[2])
            if exp[0] == 'same' and got != (exp[1], exp[2]):
                probs.append('%s node %s (ctx argument %s): its body must run in the context object %s/%s, but sees %s/%s' % (
                    nd['k'], list(owner), nd.get('c'), exp[1], exp[2], got[0], got[1]))
            elif exp[0] == 'fresh' and (got[1] != exp[1] or not got[0].startswith('F') or (parent and got[0] == parent[0][1])):
                probs.append('%s node %s (ctx argument %s): its body must see a context of its own with status %s, but sees %s/%s' % (
                    nd['k'], list(owner), nd.get('c'), exp[1], got[0], got[1]))
        want = None if nd.get('over') else required_status(nd, outer)      # composed wrappers: judged by expected_inside
        if want is not None and obs[0][2] != want:
            probs.append('status inside %s node %s is %s, must be %s' % (nd['k'], list(owner), obs[0][2], want))
    if env.outcome[0] not in ('ok', 'boom', 'rejected'):
        probs.append('call ended with %s (%s)' % (env.outcome, env.detail))
    if env.final_stack is not None:
        cs = canon_stack(env)
        if cs != ['D']:
            probs.append('context list after the run is %s, not the default alone' % (cs,))
    if not clog or clog[0][1] != 'start' or clog[-1][1] != 'fin':
        probs.append('log does not begin with start and end with fin')
    return probs


# ---------------------------------------------------------------------- model syntax
def fs_realisation(nd):
    """How an 'fs' node is realised (the same decision as in `callable_for`)."""
    ur, via, v = nd['ur'], nd.get('via', 'scope'), nd.get('v', 'for')
    if via == 'tograph' and ur and v in PLAIN_FUNCTION_VARIANTS:
        return 'tograph'
    if via == 'tograph_lam' and ur:
        return 'tograph_lam'
    return 'wfs' if via == 'wfs' else 'scope'


def kind_sexp(nd):
    k = nd['k']
    if is_gen(nd):
        # Model view of a generator child: its body, run natively at the consumer's level.  (That the wrapper call which
        # created it and every resumption leave the consumer's context alone is judged by the direct oracle.)
        return ['fs', False, False]
    if k == 'plain':
        return 'plain'
    if k == 'dnc':
        return 'dnc'
    if k == 'unspec':
        return 'unspec'
    if k == 'ctx':
        return ['ctx', nd['st'], nd.get('via') == 'src']
    if k == 'fs':
        r = fs_realisation(nd)
        ft = nd.get('feat') is not None
        if r == 'tograph':
            return ['tg', bool(nd.get('rec', True)), False, ft]
        if r == 'tograph_lam':
            return ['tg', True, True, ft]
        return ['fs', bool(nd['ur']), ft]

    def cref(c):
        if c in ('null', 'current'):
            return c
        if c == 'default':
            return ['obj', 'd', 'U']
        return ['obj', ['s', c[1]], STATUS_LETTERS[c[1] % 3]]
    if k == 'conv':
        return ['conv', bool(nd['ur']), bool(nd.get('rec', True)), nd.get('feat') is not None, cref(nd['c'])]
    if k == 'iconv':
        return ['iconv', cref(nd['c']), bool(nd['cbd']), bool(nd['ur'])]
    raise ValueError(k)


def tree_sexp(nd):
    return [kind_sexp(nd), [tree_sexp(c) for c in nd['ch']], 'none' if nd['ra'] is None else nd['ra'], bool(nd['ca'])]


def log_sexp(clog):
    """A canonical real log in the driver's `obs` syntax."""
    def cid(c):
        if c == 'D':
            return 'd'
        if c[0] == 'S':
            return ['s', int(c[1:])]
        if c[0] == 'F':
            return ['f', int(c[1:])]
        return 'none'
    return [[path, pt, bool(conv), cid(c), st if st in ('U', 'E', 'D') else 'none'] for path, pt, conv, c, st in clog]


def model_view(clog):
    """The part of a real log the model speaks about: without the consumer's `made` / `res` observations."""
    return [o for o in clog if not (o[1] == 'made' or (isinstance(o[1], list) and o[1][0] == 'res'))]


def model_answer(ans):
    """Parsed driver answer -> (outcome, canonical log, stack) in the same shape as the real side."""
    out = ans[0]
    outcome = ['ok'] if out == 'ok' else (['boom', [int(x) for x in out[1]]] if isinstance(out, list) else [out])
    seen = {}
    log = []
    for path, pt, conv, cid, st in ans[1]:
        if cid == 'd':
            c = 'D'
        elif cid == 'none':
            c = 'none'
        elif cid[0] == 's':
            c = 'S' + cid[1]
        else:
            c = seen.setdefault(cid[1], 'F%d' % len(seen))
        log.append([[int(x) for x in path], [pt[0], int(pt[1])] if isinstance(pt, list) else pt, conv == 'True', c, st])
    stack = ['D' if e == 'd' else ('S' + e[1] if e[0] == 's' else 'F') for e in ans[2]]
    return outcome, log, stack
