"""C16 — execution of call trees with the REAL malt wrappers, observation logs, direct oracle.

A call tree is a JSON-able dict per node:
  k   : 'plain' | 'dnc' | 'unspec' | 'ctx' | 'fs' | 'conv' | 'iconv'
  st  : 'U'|'E'|'D'                      (ctx)     status of the new ControlStatusCtx
  ur  : bool                             (fs, conv, iconv)  user_requested
  c   : 'null' | 'current' | ['obj', k]  (conv, iconv)      conversion_ctx / ctx : NullCtx(), control_status_ctx() at the
                                                             moment of wrapping, or the shared object SHARED[k]
  cbd : bool                             (iconv)   convert_by_default
  rec : bool                             (conv, fs via tograph)  recursive
  via : which real API realises the kind (see `callable_for`)
  v   : 'for' | 'while' | 'meth' | 'partial' | 'callable'   which body of c16_bodies is wrapped (function, bound method,
        functools.partial of a function, callable object)
  ch  : children, ra : None | int (raise Boom before child `ra`, or after the last one if ra == len(ch)), ca : catches Boom

Nothing here needs Lean.
"""
import functools, re, sys, threading, time

import c16_bodies as B

STATUS_LETTERS = 'UED'
N_SHARED = 6


class _Malt(object):
    """Everything taken from the malt under test, plus the wrapper tables built from it (once)."""

    def __init__(self):
        import malt
        from malt.core import ag_ctx, converter
        from malt.impl import api
        from malt.operators import function_wrappers
        self.malt, self.ag_ctx, self.converter, self.api, self.fw = malt, ag_ctx, converter, api, function_wrappers
        S = ag_ctx.Status
        self.status = {'U': S.UNSPECIFIED, 'E': S.ENABLED, 'D': S.DISABLED}
        self.letter = {S.UNSPECIFIED: 'U', S.ENABLED: 'E', S.DISABLED: 'D'}
        # context objects created by "someone else" and handed to convert()/internal_convert(): shared by all threads
        self.shared = [ag_ctx.ControlStatusCtx(status=self.status[STATUS_LETTERS[k % 3]]) for k in range(N_SHARED)]
        self.opts = {ur: converter.ConversionOptions(recursive=True, user_requested=ur, optional_features=None)
                     for ur in (False, True)}
        self.bodies = {'for': B.body_for, 'while': B.body_while, 'meth': B.HOLDER.body_meth,
                       'partial': functools.partial(B.body_for), 'callable': B.CALLABLE}
        self.lock = threading.Lock()
        self.table = {}
        for name in ('obs', 'kids', 'step', 'last', 'handle', 'nkids', 'kid', 'kid_id', 'run_native', 'new_ctx', 'inner'):
            api.autograph_artifact(getattr(Env, name))

    def cached(self, key, make):
        with self.lock:
            if key not in self.table:
                self.table[key] = make()
            return self.table[key]

    def ctx_arg(self, c):
        if c == 'null':
            return self.ag_ctx.NullCtx()
        if c == 'current':
            return self.ag_ctx.control_status_ctx()
        return self.shared[c[1]]

    # ------------------------------------------------------------------ node -> real callable (env, path) -> None
    def callable_for(self, nd):
        api, ag_ctx, fw, malt = self.api, self.ag_ctx, self.fw, self.malt
        k, v = nd['k'], nd.get('v', 'for')
        body = self.bodies[v]
        if k == 'plain':
            return body
        if k == 'dnc':
            if nd.get('via') == 'experimental':
                return self.cached(('dncx', v), lambda: malt.experimental.do_not_convert(body))
            return self.cached(('dnc', v), lambda: api.do_not_convert(body))
        if k == 'unspec':
            return self.cached(('unspec', v), lambda: api.call_with_unspecified_conversion_status(body))
        if k == 'conv':
            ur, rec, c = nd['ur'], nd.get('rec', True), nd['c']
            conv = malt.convert if nd.get('via') == 'malt' else api.convert
            if c == 'current':
                def conv_current(env, p):
                    return conv(recursive=rec, optional_features=None, user_requested=ur,
                                conversion_ctx=ag_ctx.control_status_ctx())(body)(env, p)
                return api.autograph_artifact(conv_current)
            key = ('conv', v, ur, rec, c if c == 'null' else c[1], nd.get('via'))
            return self.cached(key, lambda: conv(recursive=rec, optional_features=None, user_requested=ur,
                                                 conversion_ctx=self.ctx_arg(c))(body))
        if k == 'iconv':
            ur, cbd, c = nd['ur'], nd['cbd'], nd['c']
            iconv = malt.internal.convert if nd.get('via') == 'malt' else api.internal_convert

            def iconv_call(env, p):
                return iconv(body, self.ctx_arg(c), convert_by_default=cbd, user_requested=ur)(env, p)
            return api.autograph_artifact(iconv_call)
        if k == 'ctx':
            if nd.get('via') == 'src':
                return B.ctx_block
            st = self.status[nd['st']]

            def ctx_helper(env, p):
                with ag_ctx.ControlStatusCtx(status=st):
                    body(env, p)
            return api.autograph_artifact(ctx_helper)
        if k == 'fs':
            ur, via = nd['ur'], fs_realisation(nd)
            if via == 'tograph':
                rec = nd.get('rec', True)
                return self.cached(('tg', v, rec), lambda: malt.to_graph(body, recursive=rec, experimental_optional_features=None))
            if via == 'tograph_lam':
                return self.cached(('tgl',), lambda: malt.to_graph(B.lam, recursive=True, experimental_optional_features=None))
            if via == 'wfs':
                def wfs_helper(env, p):
                    return fw.with_function_scope(lambda scope: body(env, p), 'lscope', self.opts[ur])
                return api.autograph_artifact(wfs_helper)

            def scope_helper(env, p):
                with fw.FunctionScope('f', 'fscope', self.opts[ur]):
                    body(env, p)
            return api.autograph_artifact(scope_helper)
        raise ValueError('unknown kind %r' % (k,))


_M = None
_M_LOCK = threading.Lock()


def M():
    global _M
    with _M_LOCK:
        if _M is None:
            _M = _Malt()
    return _M


BODY_NAMES = ('body_for', 'body_while', 'body_meth', '__call__')


def observer_is_converted(frame):
    """Is the body that asks (nearest body-function frame up the stack) malt's conversion of it (`ag__<name>`) or the
    function as written?  The runner (no body frame) is native."""
    n = 0
    while frame is not None and n < 200:
        name = frame.f_code.co_name
        if name.startswith('ag__') and name[4:] in BODY_NAMES:
            return True
        if name in BODY_NAMES and frame.f_code.co_filename == B.__file__:
            return False
        frame, n = frame.f_back, n + 1
    return False


class Gate(object):
    """Hands the interpreter to one harness thread at a time, observation point by observation point, following a
    schedule; afterwards everybody runs freely."""

    def __init__(self, n, schedule):
        self.n, self.schedule = n, list(schedule)
        self.sems = [threading.Semaphore(0) for _ in range(n)]
        self.back = threading.Semaphore(0)
        self.free = False
        self.finished = [False] * n
        self.used = 0

    def wait_turn(self, tid):
        if self.free:
            return
        if not self.sems[tid].acquire(timeout=120):
            raise RuntimeError('gate timeout')

    def yield_(self, tid):
        if self.free:
            return
        self.back.release()
        self.wait_turn(tid)

    def done(self, tid):
        self.finished[tid] = True
        self.back.release()

    def drive(self):
        for tid in self.schedule:
            if tid >= self.n or self.finished[tid]:
                continue
            self.sems[tid].release()
            if not self.back.acquire(timeout=120):
                raise RuntimeError('gate timeout (driver)')
            self.used += 1
        self.free = True
        for s in self.sems:
            s.release()


class Env(object):
    """Per-thread harness state: the call tree, the observation log.  Its methods are autograph artifacts."""

    def __init__(self, tree, tid=0, gate=None, jitter=None):
        self.m = M()
        self.nodes = {}
        self._index(tree, (0,))
        self.tree = tree
        self.log = []            # (path, point, ctx object, observer is converted code)
        self.tid, self.gate, self.jitter = tid, gate, jitter
        self.default = None
        self.outcome = None
        self.final_stack = None
        self.detail = None

    def _index(self, nd, p):
        self.nodes[p] = nd
        for i, c in enumerate(nd['ch']):
            self._index(c, p + (i,))

    # -------- called from the bodies (possibly from converted code) --------
    def obs(self, nid, pt, i=None):
        c = self.m.ag_ctx.control_status_ctx()
        self.log.append((nid, pt if i is None else (pt, i), c, observer_is_converted(sys._getframe(1))))
        if self.gate is not None:
            self.gate.yield_(self.tid)
        elif self.jitter is not None and self.jitter.random() < 0.3:
            time.sleep(0)

    def kids(self, nid):
        nd = self.nodes[nid]
        return [(i, self.m.callable_for(c), nid + (i,)) for i, c in enumerate(nd['ch'])]

    def nkids(self, nid):
        return len(self.nodes[nid]['ch'])

    def kid(self, nid, i):
        return self.m.callable_for(self.nodes[nid]['ch'][i])

    def kid_id(self, nid, i):
        return nid + (i,)

    def step(self, nid, i):
        if self.nodes[nid]['ra'] == i:
            raise B.Boom('@%s@' % '.'.join(map(str, nid)))

    def last(self, nid):
        nd = self.nodes[nid]
        if nd['ra'] == len(nd['ch']):
            raise B.Boom('@%s@' % '.'.join(map(str, nid)))

    def handle(self, nid):
        if self.nodes[nid]['ca']:
            self.obs(nid, 'caught')
        else:
            raise

    def run_native(self, nid):
        return self.m.bodies[self.nodes[nid].get('v', 'for')](self, nid)

    def new_ctx(self, nid):
        return self.m.ag_ctx.ControlStatusCtx(status=self.m.status[self.nodes[nid]['st']])

    def inner(self, nid):
        return self.m.bodies[self.nodes[nid].get('v', 'for')]

    # -------- the thread's program --------
    def run(self):
        ag_ctx = self.m.ag_ctx
        try:
            if self.gate is not None:
                self.gate.wait_turn(self.tid)
            self.default = ag_ctx.control_status_ctx()
            root = self.m.callable_for(self.tree)
            self.obs((), 'start')
            try:
                root(self, (0,))
                self.outcome = ['ok']
            except BaseException as e:  # noqa
                self.outcome = classify(e)
                self.detail = '%s: %s' % (type(e).__name__, str(e)[-300:])
            finally:
                self.obs((), 'fin')
            stk = getattr(ag_ctx.stacks, 'control_status', None)
            self.final_stack = list(stk) if isinstance(stk, list) else None
        except BaseException as e:  # noqa  (harness or gate trouble)
            self.outcome = ['harness-error', type(e).__name__, str(e)[-300:]]
        finally:
            if self.gate is not None:
                self.gate.done(self.tid)


def classify(e):
    if isinstance(e, B.Boom):
        m = re.search(r'@([\d.]*)@', str(e))
        return ['boom', [int(x) for x in m.group(1).split('.') if x] if m else None]
    if isinstance(e, AssertionError):
        return ['assertion']
    if isinstance(e, IndexError):
        return ['index']
    return ['other', type(e).__name__]


# ---------------------------------------------------------------------- running cases
def _no_harness_error(envs):
    """Trouble of the harness itself (gate timeout, ...) is an infrastructure error, never a verdict on malt."""
    for e in envs:
        if e.outcome and e.outcome[0] == 'harness-error':
            raise RuntimeError('harness error in thread %d: %s' % (e.tid, e.outcome))


def run_alone(tree):
    """The tree in a fresh thread, nothing else running: the single-thread log."""
    env = Env(tree)
    t = threading.Thread(target=env.run)
    t.start()
    t.join(300)
    if t.is_alive():
        raise RuntimeError('thread did not finish')
    _no_harness_error([env])
    return env


def run_together(trees, mode, schedule=None, jitter_seed=0):
    """All trees at once, one thread each.  mode 'sched': observation points interleaved as `schedule` says, then
    free; mode 'free': a start barrier, a tiny switch interval and random yields."""
    import random
    n = len(trees)
    gate = Gate(n, schedule or []) if mode == 'sched' else None
    envs = [Env(t, tid=i, gate=gate, jitter=None if gate else random.Random(jitter_seed * 1000 + i)) for i, t in enumerate(trees)]
    barrier = threading.Barrier(n)

    def prog(env):
        if gate is None:
            barrier.wait(60)
        env.run()
    threads = [threading.Thread(target=prog, args=(e,)) for e in envs]
    old = sys.getswitchinterval()
    if gate is None:
        sys.setswitchinterval(1e-6)
    try:
        for t in threads:
            t.start()
        if gate is not None:
            gate.drive()
        for t in threads:
            t.join(300)
            if t.is_alive():
                raise RuntimeError('thread did not finish')
    finally:
        sys.setswitchinterval(old)
    _no_harness_error(envs)
    return envs, (gate.used if gate else None)


# ---------------------------------------------------------------------- canonical logs
def canon_log(env):
    """[(path, point, converted, id, status)] with identities canonicalised: 'D' the thread's default context, 'S<k>' the shared
    object k, 'F<j>' the j-th other object first seen by this thread.  Must be called while `env.log` is alive
    (the log keeps every observed object alive, so addresses are not reused)."""
    m = env.m
    shared = {id(o): k for k, o in enumerate(m.shared)}
    seen = {}
    out = []
    for path, pt, c, conv in env.log:
        if c is env.default:
            cid = 'D'
        elif id(c) in shared:
            cid = 'S%d' % shared[id(c)]
        else:
            cid = seen.setdefault(id(c), 'F%d' % len(seen))
        st = m.letter.get(getattr(c, 'status', None), '?')
        out.append([list(path), list(pt) if isinstance(pt, tuple) else pt, bool(conv), cid, st])
    return out


def canon_stack(env):
    if env.final_stack is None:
        return None
    m = env.m
    shared = {id(o): k for k, o in enumerate(m.shared)}
    return ['D' if c is env.default else ('S%d' % shared[id(c)] if id(c) in shared else 'F') for c in reversed(env.final_stack)]


# ---------------------------------------------------------------------- the direct oracle (the property itself)
def required_status(nd, outer):
    """What the property's text fixes about the status inside a node (None: nothing)."""
    k = nd['k']
    if k == 'dnc':
        return 'D'
    if k == 'fs' and nd['ur']:
        return 'E'
    if k == 'conv' and nd['ur']:
        c = nd['c']
        eff = outer if c in ('null', 'current') else STATUS_LETTERS[c[1] % 3]
        return 'E' if eff != 'D' else None
    return None


def oracle(env, clog):
    """Problems with one thread's log, judged against the property alone."""
    probs = []
    by_owner = {}
    for path, pt, conv, cid, st in clog:
        by_owner.setdefault(tuple(path), []).append((pt, cid, st))
    # restoration: every body (and the runner itself, owner ()) sees one object throughout
    for owner, obs in by_owner.items():
        first = obs[0]
        for o in obs[1:]:
            if (o[1], o[2]) != (first[1], first[2]):
                probs.append('context not restored: node %s saw %s/%s at %s but %s/%s at %s' % (
                    list(owner), first[1], first[2], first[0], o[1], o[2], o[0]))
                break
    # statuses
    for owner, obs in by_owner.items():
        if owner == ():
            continue
        nd = env.nodes.get(owner)
        if nd is None:
            probs.append('observation from unknown node %s' % (list(owner),))
            continue
        parent = by_owner.get(owner[:-1])
        outer = parent[0][2] if parent else None
        want = required_status(nd, outer)
        if want is not None and obs[0][2] != want:
            probs.append('status inside %s node %s is %s, must be %s' % (nd['k'], list(owner), obs[0][2], want))
    if env.outcome[0] not in ('ok', 'boom'):
        probs.append('call ended with %s (%s)' % (env.outcome, env.detail))
    if env.final_stack is not None:
        cs = canon_stack(env)
        if cs != ['D']:
            probs.append('context list after the run is %s, not the default alone' % (cs,))
    if not clog or clog[0][1] != 'start' or clog[-1][1] != 'fin':
        probs.append('log does not begin with start and end with fin')
    return probs


# ---------------------------------------------------------------------- model syntax
def fs_realisation(nd):
    """How an 'fs' node is realised (the same decision as in `callable_for`)."""
    ur, via, v = nd['ur'], nd.get('via', 'scope'), nd.get('v', 'for')
    if via == 'tograph' and ur and v in ('for', 'while'):
        return 'tograph'
    if via == 'tograph_lam' and ur:
        return 'tograph_lam'
    return 'wfs' if via == 'wfs' else 'scope'


def kind_sexp(nd):
    k = nd['k']
    if k == 'plain':
        return 'plain'
    if k == 'dnc':
        return 'dnc'
    if k == 'unspec':
        return 'unspec'
    if k == 'ctx':
        return ['ctx', nd['st'], nd.get('via') == 'src']
    if k == 'fs':
        r = fs_realisation(nd)
        if r == 'tograph':
            return ['tg', bool(nd.get('rec', True)), False]
        if r == 'tograph_lam':
            return ['tg', True, True]
        return ['fs', bool(nd['ur'])]

    def cref(c):
        if c in ('null', 'current'):
            return c
        return ['obj', ['s', c[1]], STATUS_LETTERS[c[1] % 3]]
    if k == 'conv':
        return ['conv', bool(nd['ur']), bool(nd.get('rec', True)), cref(nd['c'])]
    if k == 'iconv':
        return ['iconv', cref(nd['c']), bool(nd['cbd']), bool(nd['ur'])]
    raise ValueError(k)


def tree_sexp(nd):
    return [kind_sexp(nd), [tree_sexp(c) for c in nd['ch']], 'none' if nd['ra'] is None else nd['ra'], bool(nd['ca'])]


def log_sexp(clog):
    """A canonical real log in the driver's `obs` syntax."""
    def cid(c):
        if c == 'D':
            return 'd'
        if c[0] == 'S':
            return ['s', int(c[1:])]
        if c[0] == 'F':
            return ['f', int(c[1:])]
        return 'none'
    return [[path, pt, bool(conv), cid(c), st if st in ('U', 'E', 'D') else 'none'] for path, pt, conv, c, st in clog]


def model_answer(ans):
    """Parsed driver answer -> (outcome, canonical log, stack) in the same shape as the real side."""
    out = ans[0]
    outcome = ['ok'] if out == 'ok' else (['boom', [int(x) for x in out[1]]] if isinstance(out, list) else [out])
    seen = {}
    log = []
    for path, pt, conv, cid, st in ans[1]:
        if cid == 'd':
            c = 'D'
        elif cid == 'none':
            c = 'none'
        elif cid[0] == 's':
            c = 'S' + cid[1]
        else:
            c = seen.setdefault(cid[1], 'F%d' % len(seen))
        log.append([[int(x) for x in path], [pt[0], int(pt[1])] if isinstance(pt, list) else pt, conv == 'True', c, st])
    stack = ['D' if e == 'd' else ('S' + e[1] if e[0] == 's' else 'F') for e in ans[2]]
    return outcome, log, stack
