"""C14 helper: value families, ways of calling each substituted builtin, outcome observation.

Everything a case needs is JSON data: a *value spec* (nested lists, see `build`) per role, a *way*
(positional roles + keyword (name, role) pairs).  `build` makes fresh objects for every call, so a
builtin run and an overload run never share iterators, logs or files.
"""
import contextlib, decimal, fractions, io, math

# ------------------------------------------------------------------------------------------------
# value specs  ->  objects.  User objects log their dunder calls into ctx.log.
# ------------------------------------------------------------------------------------------------


class Boom(Exception):
    """Raised by user objects; its *type* must come through unchanged."""


class Ctx:
    def __init__(self):
        self.log = []
        self.files = []
        self.n = 0

    def tag(self, kind):
        self.n += 1
        return '%s#%d' % (kind, self.n)


class UObj:
    """User object implementing the dunder methods named in `methods` (name -> value spec or ['raise'])."""

    def __init__(self, ctx, tag, methods):
        self._ctx, self._tag, self._m = ctx, tag, methods

    def _do(self, name, *a):
        self._ctx.log.append((self._tag, name))
        spec = self._m[name]
        if spec == ['raise']:
            raise Boom(name)
        return build(spec, self._ctx)

    def __repr__(self):
        return '<%s>' % self._tag


def _uclass(methods):
    ns = {}
    for m in methods:
        if m == '__call__':
            def f(self, *a, _m=m):
                self._ctx.log.append((self._tag, _m))
                spec = self._m[_m]
                if spec == ['raise']:
                    raise Boom(_m)
                return FUNCS[spec[1]](*a)
        elif m in ('__lt__', '__gt__', '__eq__'):
            def f(self, other, _m=m):
                self._ctx.log.append((self._tag, _m))
                a, b = self._m['key'], getattr(other, '_m', {}).get('key', other)
                if self._m[_m] == ['raise']:
                    raise Boom(_m)
                return {'__lt__': a < b, '__gt__': a > b, '__eq__': a == b}[_m]
        else:
            def f(self, *a, _m=m):
                return self._do(_m, *a)
        ns[m] = f
    if '__eq__' in ns:
        ns['__hash__'] = lambda self: 0
    return type('U', (UObj,), ns)


_UCLASSES = {}


def uobj(ctx, methods):
    key = tuple(sorted(k for k in methods if k.startswith('__')))
    if key not in _UCLASSES:
        _UCLASSES[key] = _uclass(key)
    return _UCLASSES[key](ctx, ctx.tag('obj'), methods)


class CountingIter:
    """Iterator over built items; logs every pull; may raise at an index."""

    def __init__(self, ctx, tag, items, raise_at):
        self._ctx, self._tag, self._items, self._i, self._raise_at = ctx, tag, items, 0, raise_at

    def __iter__(self):
        return self

    def __next__(self):
        self._ctx.log.append((self._tag, 'next', self._i))
        if self._raise_at is not None and self._i == self._raise_at:
            self._i += 1
            raise Boom('item')
        if self._i >= len(self._items):
            raise StopIteration
        v = self._items[self._i]
        self._i += 1
        return v

    def __repr__(self):
        return '<%s>' % self._tag


class UserIterable:
    def __init__(self, ctx, tag, items, raise_at):
        self._ctx, self._tag, self._items, self._raise_at = ctx, tag, items, raise_at

    def __iter__(self):
        self._ctx.log.append((self._tag, 'iter'))
        return CountingIter(self._ctx, self._tag + '.it', self._items, self._raise_at)

    def __repr__(self):
        return '<%s>' % self._tag


class GetItemSeq:
    """Old sequence protocol: only __getitem__ (+ optionally __len__)."""

    def __init__(self, ctx, tag, items):
        self._ctx, self._tag, self._items = ctx, tag, items

    def __getitem__(self, i):
        self._ctx.log.append((self._tag, 'getitem', i))
        return self._items[i]

    def __repr__(self):
        return '<%s>' % self._tag


class UserFile:
    def __init__(self, ctx, tag, has_flush=True):
        self._ctx, self._tag, self.buf = ctx, tag, []
        if has_flush:
            self.flush = self._flush

    def write(self, s):
        self._ctx.log.append((self._tag, 'write', s))
        self.buf.append(s)

    def _flush(self):
        self._ctx.log.append((self._tag, 'flush'))

    def __repr__(self):
        return '<%s>' % self._tag


class FalsyLenFile(UserFile):
    """A perfectly good sink that is false in a boolean context (empty container protocol)."""

    def __len__(self):
        return 0


class FalsyBoolFile(UserFile):
    def __bool__(self):
        return False


class FalsyIterable(UserIterable):
    """Iterable with items whose truth value is False."""

    def __bool__(self):
        return False


class FalsyLenIterable(UserIterable):
    def __len__(self):
        return 0


def _gen(ctx, tag, items, raise_at):
    for i, v in enumerate(items):
        ctx.log.append((tag, 'yield', i))
        if raise_at is not None and i == raise_at:
            raise Boom('gen')
        yield v
    ctx.log.append((tag, 'end'))


FUNCS = {
    'neg': lambda x: -x,
    'isodd': lambda x: x % 2 == 1,
    'ident': lambda x: x,
    'add': lambda x, y: x + y,
    'add3': lambda x, y, z: x + y + z,
    'len': len,
    'str': str,
    'lower': str.lower,
    'truthy': bool,
    'boom': lambda *a: (_ for _ in ()).throw(Boom('fn')),
    'second': lambda t: t[1],
    'tup': lambda *a: a,
}


def build(spec, ctx):
    """Value spec -> fresh object."""
    k = spec[0]
    if k == 'int':
        return int(spec[1])
    if k == 'float':
        return float(spec[1])
    if k == 'bool':
        return bool(spec[1])
    if k == 'str':
        return spec[1]
    if k == 'bytes':
        return spec[1].encode('latin-1')
    if k == 'bytearray':
        return bytearray(spec[1].encode('latin-1'))
    if k == 'none':
        return None
    if k == 'complex':
        return complex(spec[1], spec[2])
    if k == 'fraction':
        return fractions.Fraction(spec[1], spec[2])
    if k == 'decimal':
        return decimal.Decimal(spec[1])
    if k == 'list':
        return [build(s, ctx) for s in spec[1]]
    if k == 'tuple':
        return tuple(build(s, ctx) for s in spec[1])
    if k == 'set':
        return {build(s, ctx) for s in spec[1]}
    if k == 'frozenset':
        return frozenset(build(s, ctx) for s in spec[1])
    if k == 'dict':
        return {build(a, ctx): build(b, ctx) for a, b in spec[1]}
    if k == 'range':
        return range(*spec[1:])
    if k == 'iter':
        return iter(build(spec[1], ctx))
    if k == 'gen':
        return _gen(ctx, ctx.tag('gen'), [build(s, ctx) for s in spec[1]], spec[2] if len(spec) > 2 else None)
    if k == 'citer':
        return CountingIter(ctx, ctx.tag('citer'), [build(s, ctx) for s in spec[1]], spec[2] if len(spec) > 2 else None)
    if k == 'userit':
        return UserIterable(ctx, ctx.tag('userit'), [build(s, ctx) for s in spec[1]], spec[2] if len(spec) > 2 else None)
    if k == 'falsyit':
        cls = FalsyLenIterable if (len(spec) > 2 and spec[2] == 'len0') else FalsyIterable
        return cls(ctx, ctx.tag('falsyit'), [build(s, ctx) for s in spec[1]], None)
    if k == 'getitem':
        return GetItemSeq(ctx, ctx.tag('getitem'), [build(s, ctx) for s in spec[1]])
    if k == 'fn':
        return FUNCS[spec[1]]
    if k == 'obj':
        return uobj(ctx, spec[1])
    if k == 'stringio':
        f = io.StringIO()
        ctx.files.append(f)
        return f
    if k == 'userfile':
        cls = {'len0': FalsyLenFile, 'boolfalse': FalsyBoolFile}.get(spec[2] if len(spec) > 2 else None, UserFile)
        f = cls(ctx, ctx.tag('file'), has_flush=spec[1] if len(spec) > 1 else True)
        ctx.files.append(f)
        return f
    if k == 'nofile':
        return object()
    raise ValueError('bad value spec %r' % (spec,))


# ------------------------------------------------------------------------------------------------
# canonical form of a result
# ------------------------------------------------------------------------------------------------

def canon(v, depth=0):
    if depth > 6:
        return ('deep',)
    if isinstance(v, UObj) or isinstance(v, (CountingIter, UserIterable, GetItemSeq, UserFile)):
        return ('uobj', v._tag)
    if v is None or isinstance(v, (bool, int, str, bytes, bytearray, complex, fractions.Fraction, decimal.Decimal)):
        return (type(v).__name__, repr(v))
    if isinstance(v, float):
        return ('float', 'nan' if math.isnan(v) else repr(v))
    if isinstance(v, (list, tuple)):
        return (type(v).__name__, [canon(x, depth + 1) for x in v])
    if isinstance(v, (set, frozenset)):
        return (type(v).__name__, sorted((canon(x, depth + 1) for x in v), key=repr))
    if isinstance(v, dict):
        return ('dict', [(canon(a, depth + 1), canon(b, depth + 1)) for a, b in v.items()])
    if isinstance(v, range):
        return ('range', repr(v))
    if isinstance(v, io.StringIO):
        return ('StringIO',)
    if isinstance(v, BaseException):
        return ('exc', type(v).__name__)
    return ('other', type(v).__name__)


LAZY_TYPES = (enumerate, filter, map, zip)


def observe(fn, pos, kw, ctx, max_steps=12):
    """Call fn(*pos, **kw) and describe everything the property compares: value (or, for a lazy
    result, its type and its items step by step together with how far every source had been
    consumed at each step), output, exception type."""
    out = io.StringIO()
    tr = {}
    try:
        with contextlib.redirect_stdout(out):
            res = fn(*pos, **kw)
    except Exception as e:  # noqa
        tr['outcome'] = ('exc', type(e).__module__ + '.' + type(e).__qualname__)
        res = None
    else:
        if isinstance(res, LAZY_TYPES) or (hasattr(res, '__next__') and not isinstance(res, (CountingIter,))):
            tr['outcome'] = ('lazy', type(res).__module__ + '.' + type(res).__qualname__)
            tr['log_at_creation'] = len(ctx.log)
            steps = []
            for _ in range(max_steps):
                try:
                    with contextlib.redirect_stdout(out):
                        item = next(res)
                    steps.append(('item', canon(item), len(ctx.log)))
                except StopIteration:
                    steps.append(('stop', len(ctx.log)))
                    break
                except Exception as e:  # noqa
                    steps.append(('exc', type(e).__module__ + '.' + type(e).__qualname__, len(ctx.log)))
                    break
            tr['steps'] = steps
        elif isinstance(res, range):
            tr['outcome'] = ('value', ('range', repr(res), canon(list(res[:8]))))
        else:
            tr['outcome'] = ('value', canon(res))
    tr['stdout'] = out.getvalue()
    tr['files'] = [f.getvalue() if isinstance(f, io.StringIO) else ''.join(map(str, f.buf)) for f in ctx.files]
    tr['log'] = [tuple(x) for x in ctx.log]
    return tr


def tr_json(tr):
    import json
    return json.loads(json.dumps(tr, default=str))


# ------------------------------------------------------------------------------------------------
# ways of calling each builtin that Python accepts (library reference, 3.12):
# every optional parameter present/absent, positionally or by its documented keyword
# ------------------------------------------------------------------------------------------------

def _kw_orders(names):
    """All subsets of `names`, each in every order."""
    import itertools
    out = []
    for r in range(len(names) + 1):
        for sub in itertools.combinations(names, r):
            for perm in itertools.permutations(sub):
                out.append([(n, n) for n in perm])
    return out


def ways(b, tier='quick'):
    W = []
    if b == 'abs':
        W = [(['x'], [])]
    elif b in ('all', 'any'):
        W = [(['iterable'], [])]
    elif b == 'enumerate':
        W = [(['iterable'], []), (['iterable', 'start'], []), (['iterable'], [('start', 'start')]),
             ([], [('iterable', 'iterable')]), ([], [('iterable', 'iterable'), ('start', 'start')]),
             ([], [('start', 'start'), ('iterable', 'iterable')])]
    elif b == 'filter':
        W = [(['function', 'iterable'], [])]
    elif b == 'float':
        W = [([], []), (['x'], [])]
    elif b == 'int':
        W = [([], []), (['x'], []), (['x', 'base'], []), (['x'], [('base', 'base')])]
    elif b == 'len':
        W = [(['obj'], [])]
    elif b == 'map':
        W = [(['function', 'it0'], []), (['function', 'it0', 'it1'], []), (['function', 'it0', 'it1', 'it2'], [])]
    elif b == 'print':
        orders = _kw_orders(['sep', 'end', 'file', 'flush'])
        if tier == 'quick':
            # every subset once in declaration order, plus reversed order for the full set and pairs
            orders = [o for o in orders if [n for n, _ in o] == sorted([n for n, _ in o], key=['sep', 'end', 'file', 'flush'].index)
                      or [n for n, _ in o] == sorted([n for n, _ in o], key=['sep', 'end', 'file', 'flush'].index, reverse=True)]
        for nobj in range(4):
            for o in orders:
                W.append((['obj%d' % i for i in range(nobj)], o))
    elif b == 'range':
        W = [(['stop'], []), (['start', 'stop'], []), (['start', 'stop', 'step'], [])]
    elif b == 'sorted':
        W = [(['iterable'], o) for o in _kw_orders(['key', 'reverse'])]
    elif b == 'next':
        W = [(['iterator'], []), (['iterator', 'default'], [])]
    elif b == 'zip':
        for n in range(4):
            W.append((['it%d' % i for i in range(n)], []))
            W.append((['it%d' % i for i in range(n)], [('strict', 'strict')]))
    return W


# ------------------------------------------------------------------------------------------------
# value families per builtin: list of (label, {role: spec})
# ------------------------------------------------------------------------------------------------

def I(n):
    return ['int', n]


def L(xs):
    return ['list', xs]


INTS = [I(3), I(0), I(-5), I(2)]
STRS = [['str', 'b'], ['str', 'A'], ['str', 'cc'], ['str', '']]
FLOATS = [['float', '1.5'], ['float', '-0.0'], ['float', 'inf'], ['float', '2.0']]
BOOLS = [['bool', True], ['bool', False], ['bool', True]]
TUPS = [['tuple', [I(2), ['str', 'x']]], ['tuple', [I(1), ['str', 'y']]], ['tuple', [I(2), ['str', 'a']]]]


def iterable_forms(items, raise_at=1):
    """The same items as list/tuple/set/dict/iterator/generator/user objects (+ raising variants)."""
    forms = [('list', ['list', items]), ('tuple', ['tuple', items]), ('iter', ['iter', ['list', items]]),
             ('gen', ['gen', items]), ('citer', ['citer', items]), ('userit', ['userit', items]),
             ('getitem', ['getitem', items]), ('falsy-iterable', ['falsyit', items]), ('falsy-len0-iterable', ['falsyit', items, 'len0']),
             ('gen-raising', ['gen', items, raise_at]),
             ('citer-raising', ['citer', items, raise_at])]
    hashable = all(s[0] in ('int', 'str', 'float', 'bool', 'tuple', 'none') for s in items)
    if hashable:
        forms += [('set', ['set', items]), ('frozenset', ['frozenset', items]),
                  ('dict', ['dict', [[s, I(k)] for k, s in enumerate(items)]])]
    if items and all(s[0] == 'str' for s in items):
        forms.append(('str', ['str', ''.join(s[1] for s in items)]))
    return forms


ITEM_FAMILIES = [('ints', INTS), ('strs', STRS), ('floats', FLOATS), ('bools', BOOLS), ('tuples', TUPS),
                 ('empty', []), ('mixed', [I(1), ['str', 'a'], ['none']]),
                 ('falsy-first', [I(0), ['str', ''], I(4)]), ('truthy', [I(1), ['str', 'q'], ['bool', True]])]

NOT_ITERABLE = [('int', I(5)), ('none', ['none']), ('float', ['float', '2.5'])]


def _iter_sets(role='iterable', families=ITEM_FAMILIES):
    out = []
    for fl, items in families:
        for il, spec in iterable_forms(items):
            out.append(('%s/%s' % (fl, il), {role: spec}))
    for l, spec in NOT_ITERABLE:
        out.append(('bad/' + l, {role: spec}))
    out.append(('range', {role: ['range', 1, 6, 2]}))
    out.append(('nested', {role: ['list', [['list', [I(1)]], ['list', []], ['dict', []]]]}))
    return out


def value_sets(b):
    """[(label, {role: spec})] for builtin b; roles cover every way in ways(b)."""
    S = []
    if b == 'abs':
        xs = [I(5), I(-5), I(0), I(-(10 ** 30)), ['bool', True], ['bool', False], ['float', '-1.5'], ['float', '-0.0'],
              ['float', '-inf'], ['float', 'nan'], ['complex', 3, -4], ['fraction', -3, 4], ['decimal', '-2.50'],
              ['obj', {'__abs__': I(42)}], ['obj', {'__abs__': ['str', 'weird']}], ['obj', {'__abs__': ['raise']}],
              ['str', 'x'], ['none'], L([I(1)]), ['obj', {'__str__': ['str', 's']}], ['tuple', []], ['dict', []], ['set', []]]
        S = [('x=%s' % x[0], {'x': x}) for x in xs]
    elif b in ('all', 'any'):
        S = _iter_sets()
        S.append(('bool-objs', {'iterable': L([['obj', {'__bool__': ['bool', True]}], ['obj', {'__bool__': ['bool', False]}],
                                                ['obj', {'__bool__': ['bool', True]}]])}))
        S.append(('bool-raises', {'iterable': L([['obj', {'__bool__': ['raise']}]])}))
        S.append(('len-objs', {'iterable': L([['obj', {'__len__': I(0)}], ['obj', {'__len__': I(2)}]])}))
    elif b == 'enumerate':
        starts = [I(0), I(1), ['bool', False], ['obj', {'__index__': I(7), '__bool__': ['bool', False]}], ['obj', {'__index__': I(0)}],
                  I(-3), I(10 ** 20), ['bool', True], ['obj', {'__index__': I(7)}], ['float', '1.0'],
                  ['str', '1'], ['none'], ['obj', {'__index__': ['raise']}]]
        for l, vs in _iter_sets():
            for k, st in enumerate(starts):
                if k < 5 or l.startswith('ints/') or l.startswith('bad/'):
                    S.append(('%s,start=%s' % (l, st[0] + str(k)), dict(vs, start=st)))
    elif b == 'filter':
        fns = [['none'], ['fn', 'isodd'], ['obj', {'__call__': ['fn', 'isodd'], '__bool__': ['bool', False]}],
               ['obj', {'__call__': ['fn', 'truthy'], '__len__': I(0)}], ['fn', 'truthy'], ['fn', 'len'], ['fn', 'boom'], I(3),
               ['obj', {'__call__': ['fn', 'truthy']}], ['obj', {'__call__': ['raise']}]]
        for l, vs in _iter_sets():
            for k, fn in enumerate(fns):
                if k < 4 or l.startswith('ints/') or l.startswith('bad/'):
                    S.append(('%s,fn=%d' % (l, k), dict(vs, function=fn)))
    elif b == 'float':
        xs = [I(3), I(-(10 ** 30)), I(10 ** 400), ['bool', True], ['float', '2.5'], ['float', 'nan'], ['str', '1.5'], ['str', ' 2 '],
              ['str', 'nan'], ['str', '-inf'], ['str', '1_0'], ['str', '1e3'], ['str', 'abc'], ['str', ''], ['bytes', '4.5'],
              ['bytearray', '7'], ['none'], L([]), ['tuple', []], ['dict', []], ['complex', 1, 0], ['fraction', 1, 4], ['decimal', '1.25'],
              ['obj', {'__float__': ['float', '9.5']}], ['obj', {'__float__': I(3)}], ['obj', {'__index__': I(6)}],
              ['obj', {'__float__': ['raise']}], ['obj', {'__str__': ['str', '1']}], ['set', []]]
        S = [('x=%s%d' % (x[0], k), {'x': x}) for k, x in enumerate(xs)]
    elif b == 'int':
        xs = [I(3), I(-7), ['bool', True], ['float', '3.9'], ['float', '-3.9'], ['float', 'nan'], ['float', 'inf'],
              ['str', '12'], ['str', ' -12 '], ['str', '0x1f'], ['str', '1_000'], ['str', 'ff'], ['str', 'z'], ['str', ''],
              ['str', '0b101'], ['str', '1.5'], ['bytes', '17'], ['bytearray', '21'], ['none'], L([]), ['tuple', []], ['dict', []], ['set', []],
              ['fraction', 7, 2], ['decimal', '8.9'], ['complex', 1, 0],
              ['obj', {'__int__': I(11)}], ['obj', {'__index__': I(13)}], ['obj', {'__trunc__': I(15)}],
              ['obj', {'__int__': ['raise']}], ['obj', {'__int__': ['str', 'no']}]]
        bases = [I(10), I(2), I(16), I(0), ['obj', {'__index__': I(0)}], ['obj', {'__index__': I(16), '__bool__': ['bool', False]}], I(36), I(8), I(1), I(37), I(-2), ['bool', True], ['float', '10.0'], ['none'], ['str', '10'],
                 ['obj', {'__index__': I(16)}], ['obj', {'__index__': ['raise']}]]
        for k, x in enumerate(xs):
            for j, ba in enumerate(bases):
                if j < 6 or x[0] in ('str', 'bytes') and k in (7, 9, 11, 16):
                    S.append(('x=%s%d,base=%s%d' % (x[0], k, ba[0], j), {'x': x, 'base': ba}))
    elif b == 'len':
        objs = [L(INTS), L([]), ['tuple', INTS], ['dict', [[I(1), I(2)]]], ['set', INTS], ['frozenset', INTS], ['str', 'héllo'],
                ['bytes', 'abc'], ['bytearray', 'ab'], ['range', 0, 10, 3], ['range', 5, 0], ['range', 0, 10 ** 15],
                ['obj', {'__len__': I(4)}], ['obj', {'__len__': I(0)}], ['obj', {'__len__': I(-1)}], ['obj', {'__len__': I(2 ** 70)}],
                ['obj', {'__len__': ['float', '2.0']}], ['obj', {'__len__': ['bool', True]}], ['obj', {'__len__': ['raise']}],
                ['obj', {'__len__': ['obj', {'__index__': I(3)}]}], ['obj', {'__len__': ['str', '3']}],
                I(5), ['none'], ['float', '1.0'], ['gen', INTS], ['iter', L(INTS)], ['userit', INTS], ['getitem', INTS],
                ['fn', 'neg'], ['obj', {'__iter__': L([])}], ['complex', 1, 1], ['bool', True]]
        S = [('obj=%s%d' % (o[0], k), {'obj': o}) for k, o in enumerate(objs)]
    elif b == 'next':
        its = [['iter', L(INTS)], ['iter', L([])], ['gen', INTS], ['gen', []], ['gen', INTS, 0], ['citer', STRS], ['citer', []],
               ['citer', INTS, 0], L(INTS), I(3), ['none'], ['userit', INTS], ['getitem', INTS], ['str', 'ab'], ['range', 0, 3],
               ['iter', ['str', 'xy']], ['iter', ['dict', [[I(1), I(2)]]]], ['obj', {'__next__': I(5)}], ['obj', {'__next__': ['raise']}]]
        dflts = [I(0), ['none'], ['bool', False], ['str', ''], L([]), ['obj', {'__bool__': ['bool', False]}], I(7)]
        for k, it in enumerate(its):
            for j, d in enumerate(dflts):
                if j < 3 or k < 8:
                    S.append(('it%d/d%d' % (k, j), {'iterator': it, 'default': d}))
    elif b == 'map':
        combos = [('neg', [INTS], None), ('add', [INTS, [I(10), I(20)]], None), ('add3', [INTS, INTS, [I(1)]], None),
                  ('str', [STRS], None), ('tup', [INTS, STRS, FLOATS], None), ('boom', [INTS], None), ('len', [INTS], None),
                  ('ident', [[]], None), ('tup', [INTS, [], STRS], None), ('add', [INTS, INTS, INTS], None)]
        forms = ['list', 'tuple', 'iter', 'gen', 'citer', 'userit', 'getitem']
        for ci, (fn, its, _) in enumerate(combos):
            for fi, form in enumerate(forms):
                vs = {'function': ['fn', fn]}
                for k in range(3):
                    items = its[k] if k < len(its) else its[-1]
                    f2 = forms[(fi + k) % len(forms)]
                    vs['it%d' % k] = [f2, items] if f2 not in ('iter',) else ['iter', ['list', items]]
                S.append(('fn=%s/%s' % (fn, form), vs))
        S.append(('raising-source', {'function': ['fn', 'tup'], 'it0': ['citer', INTS, 2], 'it1': ['gen', INTS, 1], 'it2': ['citer', INTS]}))
        S.append(('not-callable', {'function': I(3), 'it0': L(INTS), 'it1': L(INTS), 'it2': L(INTS)}))
        S.append(('none-fn', {'function': ['none'], 'it0': L(INTS), 'it1': L(INTS), 'it2': L(INTS)}))
        S.append(('not-iterable', {'function': ['fn', 'tup'], 'it0': I(3), 'it1': L(INTS), 'it2': ['none']}))
        S.append(('second-not-iterable', {'function': ['fn', 'tup'], 'it0': ['citer', INTS], 'it1': I(4), 'it2': ['citer', INTS]}))
        S.append(('falsy-callable-obj', {'function': ['obj', {'__call__': ['fn', 'tup'], '__bool__': ['bool', False]}],
                                         'it0': ['falsyit', INTS], 'it1': ['falsyit', STRS, 'len0'], 'it2': ['citer', FLOATS]}))
        S.append(('callable-obj', {'function': ['obj', {'__call__': ['fn', 'tup']}], 'it0': ['citer', INTS], 'it1': ['gen', STRS], 'it2': ['userit', FLOATS]}))
        S.append(('callable-obj-raises', {'function': ['obj', {'__call__': ['raise']}], 'it0': ['citer', INTS], 'it1': ['gen', STRS], 'it2': ['userit', FLOATS]}))
    elif b == 'print':
        objsets = [[I(1), ['str', 'two'], ['float', '3.5']], [L([I(1), ['str', 'x']]), ['none'], ['bool', True]],
                   [['obj', {'__str__': ['str', 'custom']}], ['tuple', [I(1)]], ['dict', [[['str', 'k'], I(1)]]]],
                   [['str', 'a\nb'], ['bytes', 'by'], ['complex', 1, 2]],
                   [['obj', {'__str__': ['raise']}], I(1), I(2)], [['obj', {'__str__': I(3)}], I(1), I(2)]]
        seps = [['str', '-'], ['str', ''], ['none'], ['str', ', '], I(3), ['bytes', 'x'], ['obj', {'__str__': ['str', 's']}]]
        ends = [['str', '!\n'], ['str', ''], ['none'], ['str', '\n\n'], I(0), L([])]
        files = [['stringio'], ['userfile', True, 'len0'], ['none'], ['userfile', True, 'boolfalse'], ['userfile'], ['userfile', False],
                 ['userfile', False, 'len0'], ['nofile'], I(3)]
        flushes = [['bool', True], ['bool', False], I(1), I(0), ['none'], ['obj', {'__bool__': ['bool', True]}],
                   ['obj', {'__bool__': ['raise']}], ['str', '']]
        n = max(len(objsets), len(seps), len(ends), len(files), len(flushes))
        k = 0
        for oi, objs in enumerate(objsets):
            for j in range(n):
                vs = {'obj%d' % i: o for i, o in enumerate(objs)}
                vs.update(sep=seps[(j + oi) % len(seps)], end=ends[(j * 2 + oi) % len(ends)], file=files[j % len(files)],
                          flush=flushes[(j + 2 * oi) % len(flushes)])
                S.append(('objs%d/%d' % (oi, j), vs))
                k += 1
        # falsy-but-valid values of every optional parameter at once: empty separators, falsy sinks, falsy flush
        for fi, fl in enumerate([['userfile', True, 'len0'], ['userfile', True, 'boolfalse'], ['userfile', False, 'len0']]):
            for oi, objs in enumerate(objsets[:3]):
                vs = {'obj%d' % i: o for i, o in enumerate(objs)}
                vs.update(sep=['str', ''], end=['str', ''], file=fl, flush=[['bool', False], I(0), ['obj', {'__bool__': ['bool', False]}]][(fi + oi) % 3])
                S.append(('falsy-sink%d/%d' % (fi, oi), vs))
                vs2 = dict(vs, sep=['str', '|'], end=['str', '$'], flush=['bool', True])
                S.append(('falsy-sink%d/%d/b' % (fi, oi), vs2))
    elif b == 'range':
        trip = [(I(0), I(5), I(1)), (I(2), I(10), I(3)), (I(10), I(0), I(-2)), (I(5), I(5), I(1)), (I(-3), I(3), I(2)),
                (I(0), I(10 ** 20), I(10 ** 19)), (['bool', True], ['bool', False], ['bool', True]), (I(0), I(5), I(0)),
                (['float', '0.0'], ['float', '5.0'], ['float', '1.0']), (['str', '1'], ['str', '5'], ['str', '1']),
                (['none'], ['none'], ['none']), (I(1), ['none'], I(1)), (I(1), I(5), ['none']),
                (['obj', {'__index__': I(1)}], ['obj', {'__index__': I(6)}], ['obj', {'__index__': I(2)}]),
                (['obj', {'__index__': ['raise']}], I(3), I(1)), (I(0), ['obj', {'__index__': ['raise']}], I(1)),
                (I(0), I(3), ['obj', {'__index__': ['raise']}]), (L([]), ['tuple', []], ['dict', []]), (I(-5), I(-1), I(1)),
                (['fraction', 1, 1], ['decimal', '5'], ['complex', 1, 0])]
        S = [('r%d' % k, {'start': a, 'stop': st, 'step': sp}) for k, (a, st, sp) in enumerate(trip)]
    elif b == 'sorted':
        keys = [['none'], ['obj', {'__call__': ['fn', 'str'], '__bool__': ['bool', False]}], ['obj', {'__call__': ['fn', 'str'], '__len__': I(0)}],
                ['fn', 'neg'], ['fn', 'len'], ['fn', 'lower'], ['fn', 'str'], ['fn', 'second'], ['fn', 'boom'], I(3),
                ['obj', {'__call__': ['fn', 'str']}]]
        revs = [['bool', True], ['bool', False], I(1), I(0), ['none'], ['str', 'yes'], ['str', ''], L([]),
                ['obj', {'__bool__': ['bool', True]}], ['obj', {'__bool__': ['bool', False]}], ['obj', {'__bool__': ['raise']}],
                ['float', '0.0'], ['obj', {'__len__': I(0)}]]
        fams = ITEM_FAMILIES + [('dups', [I(2), I(1), I(2), I(1), I(3)]),
                                ('ltobjs', [['obj', {'__lt__': ['bool', True], 'key': 3}], ['obj', {'__lt__': ['bool', True], 'key': 1}],
                                            ['obj', {'__lt__': ['bool', True], 'key': 2}]]),
                                ('lt-raises', [['obj', {'__lt__': ['raise'], 'key': 3}], ['obj', {'__lt__': ['raise'], 'key': 1}]])]
        k = 0
        for l, vs in _iter_sets(families=fams):
            for j in range(3):
                S.append(('%s/k%d' % (l, j), dict(vs, key=keys[(k + j) % len(keys)], reverse=revs[(k * 3 + j) % len(revs)])))
            k += 1
    elif b == 'zip':
        stricts = [['bool', True], ['bool', False], I(1), I(0), ['none'], ['str', 's'], ['str', ''], L([]), L([I(0)]),
                   ['obj', {'__bool__': ['bool', True]}], ['obj', {'__bool__': ['bool', False]}], ['obj', {'__bool__': ['raise']}],
                   ['obj', {'__len__': I(0)}], ['float', '0.0'], ['float', 'nan']]
        triples = [(INTS, STRS, FLOATS), (INTS, STRS[:2], FLOATS), (INTS[:1], STRS, FLOATS), (INTS, STRS, FLOATS[:3]), ([], [], []),
                   (INTS, [], FLOATS), (TUPS, BOOLS, INTS)]
        forms = ['list', 'tuple', 'iter', 'gen', 'citer', 'userit', 'getitem', 'citer']
        k = 0
        for ti, tri in enumerate(triples):
            for fi in range(len(forms)):
                vs = {}
                for i in range(3):
                    f2 = forms[(fi + i) % len(forms)]
                    vs['it%d' % i] = ['iter', ['list', tri[i]]] if f2 == 'iter' else [f2, tri[i]]
                vs['strict'] = stricts[k % len(stricts)]
                S.append(('t%d/%s/strict=%d' % (ti, forms[fi], k % len(stricts)), vs))
                k += 1
        S.append(('raising', {'it0': ['citer', INTS, 1], 'it1': ['gen', STRS, 2], 'it2': ['citer', FLOATS], 'strict': ['bool', True]}))
        S.append(('not-iterable', {'it0': I(1), 'it1': L(INTS), 'it2': ['none'], 'strict': ['bool', False]}))
        S.append(('second-not-iterable', {'it0': ['citer', INTS], 'it1': I(2), 'it2': ['citer', INTS], 'strict': ['bool', True]}))
        S.append(('str-set-dict', {'it0': ['str', 'abc'], 'it1': ['set', [I(1)]], 'it2': ['dict', [[I(1), I(2)], [I(3), I(4)]]], 'strict': I(0)}))
    return S


def random_value_sets(b, rng, n):
    """Seeded variations: random items / random choices among the deterministic sets' specs."""
    base = value_sets(b)
    out = []
    if not base:
        return out
    pool = {}
    for _, vs in base:
        for role, spec in vs.items():
            pool.setdefault(role, []).append(spec)
    for k in range(n):
        vs = {}
        for role, specs in pool.items():
            spec = rng.choice(specs)
            if role.startswith('it') or role == 'iterable':
                if rng.random() < 0.6:
                    items = [rng.choice([I(rng.randrange(-9, 10)), ['str', rng.choice('abcXYZ')], ['float', repr(rng.randrange(-20, 20) / 4)],
                                         ['bool', rng.random() < 0.5]]) for _ in range(rng.randrange(0, 6))]
                    if rng.random() < 0.7:
                        kind = rng.choice(['int', 'str', 'float', 'bool'])
                        items = [s for s in items if s[0] == kind]
                    form = rng.choice(['list', 'tuple', 'gen', 'citer', 'userit', 'getitem', 'iter', 'set'])
                    if form == 'iter':
                        spec = ['iter', ['list', items]]
                    elif form in ('gen', 'citer') and rng.random() < 0.2:
                        spec = [form, items, rng.randrange(0, 4)]
                    else:
                        spec = [form, items]
            vs[role] = spec
        out.append(('rnd%d' % k, vs))
    return out
