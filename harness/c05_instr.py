"""Instrumented copies of functions for the C05 direct oracle.

`instrument(fn, ser)` returns Python source of `def __instr(__t): ...` that has exactly the control structure of
`fn` (same nesting of if/while/for(+else)/with/try-except-else-finally/break/continue/return/raise) but
  * every CFG-relevant node is replaced by a probe `__t.p(<serial id>)` placed where the node is executed,
  * every decision is taken from the tracer's decision vector: tests (`__t.test(id)`), loop continuation
    (`__t.loop(id)`, a generator probing the header before every continuation decision), and WHAT an explicit raise
    raises:
      - concrete mode (every handler type of the function is a known exception class, a tuple of them, or bare): the
        handler clauses keep their types, evaluated over real classes (the builtin exceptions and `E`, `E0`..`E3`
        defined in the copy); `raise C(...)` / `raise C` of a known class raises an instance of that class, any other
        raise (the generic `raise E(a)`, a bare re-raise, an unknown expression) raises a class chosen by the decision
        vector from the function's universe: the classes named by its handlers, a fresh `Exception` subclass and a fresh
        `BaseException` subclass (not an `Exception`, like KeyboardInterrupt).  WHICH handler of which enclosing try
        catches is then CPython's own matching rule; the tracer records the equivalent handler choices (one per
        enclosing try that has handlers, innermost first) as the decision vector of the Lean walk,
      - abstract mode (some handler type is an arbitrary expression): `__t.mk(chain)` pops one decision per enclosing
        try that has handlers, innermost first, and handler clauses become `except __t.h(try_id, k)`,
  * an exception that propagates through a `finally` block freezes the trace (`__t.stop()`): the property
    exempts exceptional propagation through finally blocks, so the trace ends at the raise node.
CPython executes the copy, so loop-else, break/continue/return through finally blocks, handler fall-through etc.
are the interpreter's own semantics, not a model of them.

Which lambda probes precede a statement is defined here independently of the Lean model, by the order in which
`ast.NodeVisitor.generic_visit` meets the outermost lambdas (`ast.iter_child_nodes` order).
"""
import ast
import builtins

GENERIC = 'E'                                   # `raise E(a)`: some exception, the decision vector says which class
LOCAL_CLASSES = ['E', 'E0', 'E1', 'E2', 'E3']   # defined in every instrumented copy (subclasses of Exception)
BASE_ONLY = ['BX', 'KeyboardInterrupt', 'SystemExit', 'GeneratorExit']   # BaseException but not Exception: the copy defines
                                                # PRIVATE classes of these names (a real KeyboardInterrupt / SystemExit is
                                                # never raised inside the harness process)
KNOWN = {n for n in dir(builtins) if isinstance(getattr(builtins, n), type) and issubclass(getattr(builtins, n), BaseException)}
KNOWN |= set(LOCAL_CLASSES) | set(BASE_ONLY)


def type_names(t):
    """names of the classes a handler type mentions, or None when the type is not (a tuple of) known class names"""
    if t is None:
        return []
    if isinstance(t, ast.Name):
        return [t.id] if t.id in KNOWN else None
    if isinstance(t, ast.Tuple):
        out = []
        for e in t.elts:
            if not (isinstance(e, ast.Name) and e.id in KNOWN):
                return None
            out.append(e.id)
        return out
    return None


def raised_class(s):
    """the known class an `ast.Raise` raises, or None (generic / re-raise / unknown expression)"""
    e = s.exc
    if isinstance(e, ast.Call):
        e = e.func
    if isinstance(e, ast.Name) and e.id in KNOWN and e.id != GENERIC:
        return e.id
    return None


def lams(node, ser):
    if isinstance(node, ast.Lambda):
        return [ser.id_of(node)]
    return kid_lams(node, ser)


def kid_lams(node, ser):
    out = []
    for c in ast.iter_child_nodes(node):
        out += lams(c, ser)
    return out


class Unsupported(Exception):
    pass


class _Gen:
    def __init__(self, ser, concrete=False):
        self.ser = ser
        self.concrete = concrete
        self.lines = []
        self.trys = []   # enclosing try statements in the current function: (node, position)

    def w(self, ind, s):
        self.lines.append('    ' * ind + s)

    def probes(self, ind, ids):
        for i in ids:
            self.w(ind, '__t.p(%d)' % i)

    def block(self, stmts, ind):
        if not stmts:
            self.w(ind, 'pass')
        for s in stmts:
            self.stmt(s, ind)

    def chain(self):
        """enclosing trys innermost first: (try id, number of handlers that can catch from here, has finally)"""
        out = []
        for node, pos in reversed(self.trys):
            if pos == 'final':
                continue                     # already inside its finally block: neither catches nor re-runs
            nh = len(node.handlers) if pos == 'body' else 0
            out.append((self.ser.id_of(node), nh, bool(node.finalbody)))
        return out

    def chain_src(self):
        """the same chain with the handler TYPES (evaluated when the raise executes), as source text"""
        out = []
        for node, pos in reversed(self.trys):
            if pos == 'final':
                continue
            hs = node.handlers if pos == 'body' else []
            tys = ''.join(('None' if h.type is None else ast.unparse(h.type)) + ', ' for h in hs)
            out.append('(%d, (%s), %r)' % (self.ser.id_of(node), tys, bool(node.finalbody)))
        return '[' + ', '.join(out) + ']'

    def stmt(self, s, ind):
        ser, w = self.ser, self.w
        i = ser.id_of(s)
        t = type(s)
        if t is ast.If:
            self.probes(ind, kid_lams(s.test, ser))
            w(ind, 'if __t.test(%d):' % ser.id_of(s.test))
            self.block(s.body, ind + 1)
            if s.orelse:
                w(ind, 'else:')
                self.block(s.orelse, ind + 1)
        elif t is ast.While:
            self.probes(ind, kid_lams(s.test, ser))
            w(ind, 'while __t.test(%d):' % ser.id_of(s.test))
            self.block(s.body, ind + 1)
            if s.orelse:
                w(ind, 'else:')
                self.block(s.orelse, ind + 1)
        elif t is ast.For:
            self.probes(ind, kid_lams(s.iter, ser))
            w(ind, 'for __i in __t.loop(%d):' % ser.id_of(s.iter))
            self.block(s.body, ind + 1)
            if s.orelse:
                w(ind, 'else:')
                self.block(s.orelse, ind + 1)
        elif t is ast.With:
            for it in s.items:
                self.probes(ind, kid_lams(it, ser))
                w(ind, '__t.p(%d)' % ser.id_of(it))
            w(ind, 'with __t.cm():')
            self.block(s.body, ind + 1)
        elif t is ast.Try:
            tid = i
            has_final = bool(s.finalbody)
            base = ind
            if has_final:
                w(ind, 'try:')
                base = ind + 1
            if s.handlers:
                w(base, 'try:')
                self.trys.append((s, 'body'))
                self.block(s.body, base + 1)
                self.trys.pop()
                for k, h in enumerate(s.handlers):
                    if h.name is not None:
                        raise Unsupported('except ... as name')
                    if self.concrete:
                        w(base, 'except:' if h.type is None else 'except %s:' % ast.unparse(h.type))
                    else:
                        w(base, 'except __t.h(%d, %d):' % (tid, k))
                    self.trys.append((s, 'handler'))
                    if h.type is not None:
                        self.probes(base + 1, lams(h.type, ser))
                    self.block(h.body, base + 1)
                    self.trys.pop()
                if s.orelse:
                    w(base, 'else:')
                    self.trys.append((s, 'orelse'))
                    self.block(s.orelse, base + 1)
                    self.trys.pop()
            else:
                self.trys.append((s, 'body'))
                self.block(s.body, base)
                self.trys.pop()
            if has_final:
                w(ind, 'except BaseException:')
                w(ind + 1, '__t.stop()')
                w(ind + 1, 'raise')
                w(ind, 'finally:')
                self.trys.append((s, 'final'))
                self.block(s.finalbody, ind + 1)
                self.trys.pop()
        elif t is ast.Return:
            self.probes(ind, kid_lams(s, ser))
            w(ind, '__t.p(%d)' % i)
            w(ind, 'return')
        elif t is ast.Raise:
            self.probes(ind, kid_lams(s, ser))
            w(ind, '__t.p(%d)' % i)
            if self.concrete:
                w(ind, 'raise __t.mkc(%s, %s)' % (self.chain_src(), raised_class(s) or 'None'))
            else:
                w(ind, 'raise __t.mk(%r)' % (self.chain(),))
        elif t is ast.Break:
            w(ind, '__t.p(%d)' % i)
            w(ind, 'break')
        elif t is ast.Continue:
            w(ind, '__t.p(%d)' % i)
            w(ind, 'continue')
        elif t in (ast.FunctionDef, ast.ClassDef):
            w(ind, '__t.p(%d)' % i)
        elif t in (ast.Assign, ast.AugAssign, ast.AnnAssign, ast.Expr, ast.Delete, ast.Assert, ast.Import,
                   ast.ImportFrom, ast.Global, ast.Nonlocal, ast.Pass):
            self.probes(ind, kid_lams(s, ser))
            w(ind, '__t.p(%d)' % i)
        else:
            raise Unsupported(t.__name__)


def instrument(fn, ser):
    if type(fn) is not ast.FunctionDef:
        raise Unsupported(type(fn).__name__)
    named, concrete = [], True
    for n in ast.walk(fn):
        if isinstance(n, ast.ExceptHandler):
            tn = type_names(n.type)
            if tn is None:
                concrete = False
            else:
                named += [x for x in tn if x not in named]
    g = _Gen(ser, concrete)
    if concrete:
        for c in LOCAL_CLASSES:
            g.w(0, 'class %s(Exception): pass' % c)
        for c in BASE_ONLY:
            g.w(0, 'class %s(BaseException): pass' % c)
        g.w(0, 'class UExc__(Exception): pass')
        g.w(0, 'class UBase__(BaseException): pass')
        # the universe a generic raise chooses from: the classes the handlers name, and one ordinary / one base-only class
        g.w(0, 'U__ = [%s]' % ', '.join(named[:3] + ['UExc__', 'UBase__']))
    g.w(0, 'def __instr(__t):')
    g.probes(1, kid_lams(fn.args, ser))
    g.w(1, '__t.p(%d)' % ser.id_of(fn.args))
    g.block(fn.body, 1)
    return '\n'.join(g.lines) + '\n'


class _Raise(Exception):
    def __init__(self, target):
        Exception.__init__(self)
        self.target = target


class _NullCm:
    def __enter__(self):
        return self

    def __exit__(self, *a):
        return False


class Tracer:
    def __init__(self, decisions, universe=None, max_probes=4000):
        self.dec = list(decisions)
        self.pos = 0
        self.trace = []
        self.arity = []         # arity of every decision actually taken (before the trace froze)
        self.taken = []
        self.wtaken = []        # the same run as decisions of the Lean walk (handler choices instead of raised classes)
        self.frozen = False
        self.cur = None
        self.raised = []        # every exception object this run raised (one may outlive a later one)
        self.universe = universe
        self.max_probes = max_probes
        self.overflow = False

    def pop(self, arity, walk=True):
        if self.frozen:
            return 0
        v = self.dec[self.pos] if self.pos < len(self.dec) else 0
        if v >= arity:
            v = 0
        self.pos += 1
        self.arity.append(arity)
        self.taken.append(v)
        if walk:
            self.wtaken.append(v)
        return v

    def p(self, i):
        if not self.frozen:
            self.trace.append(i)
            if len(self.trace) > self.max_probes:
                # stop recording and let the copy run out (every further decision is 0: loops end, tests fail)
                self.overflow = True
                self.frozen = True

    def test(self, i):
        self.p(i)
        return self.pop(2) != 0

    def loop(self, i):
        while True:
            self.p(i)
            if self.pop(2) == 0:
                return
            yield None

    def mkc(self, chain, cls):
        """concrete mode: raise an instance of `cls`, or of a class of the universe chosen by the decision vector;
        record which handler CPython's matching rule will select, try by try, as decisions of the walk"""
        if cls is None:
            cls = self.universe[self.pop(len(self.universe), walk=False)]
        if not self.frozen:
            for tid, types, has_final in chain:
                nh = len(types)
                if nh:
                    k = nh
                    for j, ty in enumerate(types):
                        if issubclass(cls, BaseException if ty is None else ty):
                            k = j
                            break
                    self.wtaken.append(k)
                    if k < nh:
                        break
                if has_final:
                    break
        try:
            self.cur = cls()
        except TypeError:
            self.cur = cls.__new__(cls)
        self.raised.append(self.cur)
        return self.cur

    def cm(self):
        return _NullCm()

    def mk(self, chain):
        target = None
        for tid, nh, has_final in chain:
            if nh:
                k = self.pop(nh + 1)
                if k < nh:
                    target = (tid, k)
                    break
            if has_final:
                break
        self.cur = _Raise(target)
        self.raised.append(self.cur)
        return self.cur

    def h(self, tid, k):
        e = self.cur
        if e is not None and e.target == (tid, k):
            return _Raise
        return ()

    def stop(self):
        self.frozen = True


def compile_instr(src):
    env = {}
    exec(compile(src, '<c05-instrumented>', 'exec'), env)
    f = env['__instr']
    f.universe = env.get('U__')
    return f


def run(fn_obj, decisions):
    """-> (trace, outcome, consumed by the walk, arities, decisions taken, decisions of the walk);
    outcome in completed/raise/exempt"""
    t = Tracer(decisions, getattr(fn_obj, 'universe', None))
    try:
        fn_obj(t)
        out = 'exempt' if t.frozen else 'completed'
    except BaseException as e:
        if not any(e is x for x in t.raised):
            if isinstance(e, Exception):
                raise
            raise RuntimeError('instrumented copy raised %r' % (e,))    # never let a BaseException leave the harness
        out = 'exempt' if t.frozen else 'raise'
    if t.overflow:
        out = 'overflow'
    return t.trace, out, len(t.wtaken), t.arity, t.taken, t.wtaken


def decision_vectors(fn_obj, max_len, max_runs):
    """Depth-first enumeration of the decision tree of the instrumented function: every run is determined by the
    decisions it actually took; alternatives are explored for every position up to `max_len`.
    Returns (decisions actually taken, trace, outcome, decisions the walk consumes, decisions of the walk).  `complete` is reported through the
    attribute `.exhausted` of the returned list."""
    out = []
    stack = [[]]
    seen = set()
    exhausted = True
    while stack:
        if len(out) >= max_runs:
            exhausted = False
            break
        prefix = stack.pop()
        trace, outcome, consumed, arity, taken, wtaken = run(fn_obj, prefix)
        key = tuple(taken)
        if key in seen:
            continue
        seen.add(key)
        if outcome != 'overflow':
            out.append((list(taken), trace, outcome, consumed, list(wtaken)))
        # alternatives at positions not fixed by the prefix
        for pos in range(len(prefix), min(len(taken), max_len)):
            for alt in range(1, arity[pos]):
                stack.append(list(taken[:pos]) + [alt])
        if len(taken) > max_len:
            exhausted = False
    return out, exhausted
