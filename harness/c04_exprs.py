"""C04 / C01-expression part: correspondence of the Lean models of the expression-level and wrapper passes
(functions, directives, call_trees, conditional_expressions, logical_expressions, variables) with the real
passes, program sources (progen + systematic context enumeration) and the per-pass request builder.

Extra annotations (beyond harness/passes.py) added to each pass's BEFORE snapshot by wrapping `passes.snapshot`
in this process only (passes.py itself is untouched):
  (id 'orig_defs' n)     Name carries anno.Static.ORIG_DEFINITIONS with n definitions        (variables, directives)
  (id 'test_repr' r)     IfExp: repr(parser.unparse(node.test).strip())  (CPython's unparse)  (conditional_expressions)
  (id 'static' kind)     Name/Attribute got STATIC_VALUE during the directives pass: the real resolution result read
                         off the real node after the pass: set_loop_options | set_element_type | other
SKIP_PROCESSING must never occur (the models leave it out): counted in `skip_seen`.
"""
import ast, itertools, json, random, sys, textwrap

import common
import passes
import progen
import pyast
from common import sexp, parse_sexp

MODELLED = {
    'FunctionTransformer': 'functions',
    'DirectivesTransformer': 'directives',
    'CallTreeTransformer': 'calltrees',
    'ConditionalExpressionTransformer': 'ifexp',
    'LogicalExpressionTransformer': 'logical',
    'VariableAccessTransformer': 'variables',
    'SliceTransformer': 'slices',
}

_state = {'pending': None, 'skip_seen': 0, 'installed': False}


def _malt():
    from malt.core import converter
    from malt.pyct import anno, parser
    from malt.lang import directives
    return converter, anno, parser, directives


def _finalize_pending():
    """After the directives pass ran: read STATIC_VALUE off the real nodes of its before-snapshot."""
    converter, anno, parser, directives = _malt()
    p = _state['pending']
    _state['pending'] = None
    if p is None:
        return
    ser, table = p
    for i, n in ser.nodes.items():
        if isinstance(n, (ast.Name, ast.Attribute)) and anno.hasanno(n, 'static_value'):
            v = anno.getanno(n, 'static_value')
            kind = ('set_loop_options' if v is directives.set_loop_options else
                    'set_element_type' if v is directives.set_element_type else 'other')
            table.append([i, 'static', kind])


class _Dummy(object):
    nodes = {}


def _snapshot(node, with_static=True):
    converter, anno, parser, directives = _malt()
    if not with_static:
        _finalize_pending()
    if _state.get('cur') not in MODELLED:
        # a pass that is not modelled here (jump lowering, control flow): do not pay for its snapshots
        return ['SKIPPED'], [], _Dummy
    sx, table, ser = _state['orig'](node, with_static)
    for i, n in ser.nodes.items():
        if not hasattr(n, '___pyct_anno'):
            continue
        if anno.hasanno(n, anno.Basic.SKIP_PROCESSING):
            _state['skip_seen'] += 1
    if with_static:
        for i, n in ser.nodes.items():
            if isinstance(n, ast.Name) and anno.hasanno(n, anno.Static.ORIG_DEFINITIONS):
                table.append([i, 'orig_defs', len(anno.getanno(n, anno.Static.ORIG_DEFINITIONS))])
            elif isinstance(n, ast.IfExp):
                try:
                    table.append([i, 'test_repr', repr(parser.unparse(n.test, include_encoding_marker=False).strip())])
                except Exception:
                    pass
        _state['pending'] = (ser, table)
    return sx, table, ser


def trace(fn, options):
    """passes.trace_conversion with the extra annotations."""
    _state['orig'] = passes.snapshot
    orig_rec = passes.PassRecord

    class Rec(orig_rec):
        def __init__(self, name):
            orig_rec.__init__(self, name)
            _state['cur'] = name
    passes.snapshot = _snapshot
    passes.PassRecord = Rec
    try:
        tr = passes.trace_conversion(fn, options)
    finally:
        passes.snapshot = _state['orig']
        passes.PassRecord = orig_rec
        _finalize_pending()
    return tr


# ------------------------------------------------------------------------------------------------
# configurations
# ------------------------------------------------------------------------------------------------
def feature_subsets(with_lists=False):
    converter = _malt()[0]
    base = [converter.Feature.BUILTIN_FUNCTIONS, converter.Feature.EQUALITY_OPERATORS]
    if with_lists:
        base.append(converter.Feature.LISTS)
    out = []
    for r in range(len(base) + 1):
        for c in itertools.combinations(base, r):
            out.append(tuple(c))
    return out


def configs(with_lists=False):
    """ids 0..7: every option subset of {BUILTIN_FUNCTIONS, EQUALITY_OPERATORS} x recursive in {T, F};
    ids 8, 9: two configurations with LISTS (lists.py / slices.py in the pipeline)."""
    converter = _malt()[0]
    F = converter.Feature
    base = [(rec, fs) for fs in feature_subsets(False) for rec in (True, False)]
    return base + [(True, (F.LISTS,)), (False, (F.BUILTIN_FUNCTIONS, F.EQUALITY_OPERATORS, F.LISTS))]


NCFG_BASE = 8


def make_options(rec, fs, user_requested=True):
    return passes.make_options(recursive=rec, features=(fs if fs else None), user_requested=user_requested)


def cfg_key(rec, fs):
    return ('R' if rec else 'r') + ''.join(sorted(f.name[0] for f in fs))


def opts_sexp(options):
    return [bool(options.recursive), bool(options.user_requested), bool(options.internal_convert_user_code),
            [f.name for f in options.optional_features]]


# ------------------------------------------------------------------------------------------------
# request builder / comparison
# ------------------------------------------------------------------------------------------------
NEEDED = {
    'functions': ('BODY_SCOPE', 'SCOPE'),
    'directives': ('static', 'orig_defs'),
    'calltrees': ('fn_ctx_name',),
    'ifexp': ('test_repr',),
    'logical': (),
    'variables': ('orig_defs',),
    'slices': (),
}


def _is_stmt(sx):
    return isinstance(sx, list) and sx and sx[0] in (
        'FunctionDef', 'ClassDef', 'Return', 'Delete', 'Assign', 'AugAssign', 'AnnAssign', 'For', 'While', 'If', 'With',
        'Raise', 'Try', 'ExceptHandler', 'Assert', 'Import', 'ImportFrom', 'Global', 'Nonlocal', 'Expr', 'Pass', 'Break',
        'Continue', 'OtherStmt')


def request(rec, tr, options, generated_before):
    """Driver line for one recorded pass, or None when the pass is not modelled / its snapshot failed."""
    op = MODELLED.get(rec.name)
    if op is None or not isinstance(rec.before, list) or (rec.before and rec.before[0] in ('SNAPSHOT-ERROR', 'SKIPPED')):
        return None
    keys = NEEDED[op]
    annos = [a for a in (rec.before_annos or []) if a[1] in keys]
    if op == 'functions':
        # only FunctionDef/Lambda nodes' scopes are read: keep the table small
        annos = [[a[0], a[1], a[2]] for a in annos]
        return 'c04.functions %s %s %s %s %s' % (sexp(rec.before), sexp(annos), sexp(list(tr.namespace)),
                                               sexp(list(generated_before)), sexp(opts_sexp(options)))
    if op == 'calltrees':
        return 'c04.calltrees %s %s %s' % (sexp(rec.before), sexp(annos), sexp(bool(options.uses(_malt()[0].Feature.BUILTIN_FUNCTIONS))))
    if op == 'slices':
        return 'c04.slices %s' % sexp(rec.before)
    if op == 'logical':
        return 'c04.logical %s %s' % (sexp(rec.before), sexp(bool(options.uses(_malt()[0].Feature.EQUALITY_OPERATORS))))
    return 'c04.%s %s %s' % (op, sexp(rec.before), sexp(annos))


def error_kind(e):
    if isinstance(e, ValueError):
        return 'ValueError'
    if isinstance(e, TypeError):
        return 'TypeError'
    if isinstance(e, (KeyError, AttributeError, LookupError)):
        return 'LookupError'
    if isinstance(e, AssertionError):
        return 'AssertionError'
    return type(e).__name__


def _loops_preorder(sx, out):
    if isinstance(sx, list):
        if sx and sx[0] in ('For', 'While') and len(sx) > 2:
            out.append(int(sx[1]))
        for e in sx:
            _loops_preorder(e, out)
    return out


def expected(rec, tr):
    """What the real pass produced, in the shape the driver answers: ('ok', stmts-or-expr, extra) | ('error', kind)."""
    if rec.after is None:
        return ('error', error_kind(tr.error) if tr.error is not None else 'unknown')
    after = rec.after
    if isinstance(after, list) and after and isinstance(after[0], list) and not isinstance(after[0][0], str):
        after = list(after)
    if _is_stmt(after):
        body = [after]
    elif isinstance(after, list) and after and all(_is_stmt(a) for a in after):
        body = after
    else:
        body = after        # expression root
    return ('ok', pyast.strip_ids(body))


def _is_if_exp_call(x):
    return (isinstance(x, list) and len(x) == 5 and x[0] == 'Call' and isinstance(x[2], list) and len(x[2]) == 5
            and x[2][0] == 'Attribute' and x[2][3] == 'if_exp' and isinstance(x[2][2], list) and x[2][2][:1] == ['Name']
            and x[2][2][2] == 'ag__' and isinstance(x[3], list) and len(x[3]) == 4)


def mask_if_exp_repr(x, check=None):
    """Replace the `expr_repr` argument of every `ag__.if_exp(test, λ, λ, expr_repr)` by a placeholder.  With `check` (a
    list), also verify on this (real) tree that the argument is repr(unparse(test).strip()) of the call's own first
    argument — what the code computes since 33af8cf (unparse AFTER visiting the test) — appending any deviation."""
    if isinstance(x, list):
        if _is_if_exp_call(x):
            args = x[3]
            if check is not None:
                try:
                    want = repr(ast.unparse(pyast.to_expr(args[0])).strip())
                    got = args[3][3] if args[3][:1] == ['Constant'] else None
                    if want != got:
                        check.append('expr_repr %s, unparse of the test argument %s' % (got, want))
                except Exception as e:  # noqa
                    check.append('expr_repr not checkable: %r' % (e,))
            x = [x[0], x[1], x[2], [args[0], args[1], args[2], ['Constant', '0', 'str', "'<expr_repr>'"]], x[4]]
        return [mask_if_exp_repr(e, check) for e in x]
    return x


def compare(rec, tr, answer):
    """-> (ok, detail). Structural comparison with node ids stripped; pass-specific extras compared too."""
    op = MODELLED[rec.name]
    exp = expected(rec, tr)
    if answer.startswith('error:'):
        got = ('error', answer[6:])
        if exp[0] == 'error':
            # only the directives model predicts error kinds; the others only "some assertion/lookup failed"
            ok = (exp[1] == got[1]) if op in ('directives', 'slices') else True
            return ok, '' if ok else 'error kind: code %s model %s' % (exp[1], got[1])
        return False, 'model fails (%s), code succeeds' % got[1]
    try:
        ans = parse_sexp(answer)
    except Exception as e:  # noqa
        return False, 'unparsable model answer %r' % answer[:200]
    if not (isinstance(ans, list) and ans and ans[0] == 'ok'):
        return False, 'model answer %r' % answer[:200]
    if exp[0] == 'error':
        return False, 'code fails (%s), model succeeds' % exp[1]
    got = pyast.strip_ids(ans[1])
    want = _strs(exp[1])
    if op == 'ifexp':
        bad = []
        want = mask_if_exp_repr(want, bad)
        got = mask_if_exp_repr(got)
        if bad:
            return False, bad[0]
    if got != want:
        return False, first_diff(want, got)
    # extras
    if op == 'functions':
        names_model = [n for _, n in ans[2]]
        names_real = [r[2] for r in rec.new_symbols]
        if names_model != names_real:
            return False, 'function context names: code %s model %s' % (names_real, names_model)
    if op == 'directives':
        bl = _loops_preorder(rec.before, [])
        al = _loops_preorder(rec.after if _is_stmt(rec.after) else list(rec.after), [])
        if len(bl) != len(al):
            return False, 'loop count changed'
        to_after = dict(zip(bl, al))
        model = sorted((str(to_after.get(int(i))), d, sorted((k, json.dumps(pyast.strip_ids(e))) for k, e in m)) for i, d, m in ans[2])
        real = []
        for a in (getattr(rec, 'after_annos', None) or []):
            if a[1] == 'directives':
                for dname, kws in a[2]:
                    real.append((str(a[0]), dname, sorted((k, json.dumps(_strs(pyast.strip_ids(e)))) for k, e in kws)))
        real.sort()
        if model != real:
            return False, 'DIRECTIVES annotations: code %s model %s' % (real[:3], model[:3])
    return True, ''


def _strs(x):
    """ints -> str so that harness-side sexps compare equal to parsed driver answers."""
    if isinstance(x, bool):
        return 'True' if x else 'False'
    if isinstance(x, int):
        return str(x)
    if isinstance(x, list):
        return [_strs(e) for e in x]
    return x


def first_diff(a, b, path='root'):
    if type(a) != type(b):
        return '%s: code %s model %s' % (path, json.dumps(a)[:160], json.dumps(b)[:160])
    if isinstance(a, list):
        if len(a) != len(b):
            return '%s: lengths %d/%d: code %s model %s' % (path, len(a), len(b), json.dumps(a)[:200], json.dumps(b)[:200])
        for k, (x, y) in enumerate(zip(a, b)):
            if x != y:
                head = a[0] if a and isinstance(a[0], str) else ''
                return first_diff(x, y, '%s/%s[%d]' % (path, head, k))
        return path + ': equal?'
    return '%s: code %r model %r' % (path, a, b)


# ------------------------------------------------------------------------------------------------
# systematic context enumeration
# ------------------------------------------------------------------------------------------------
CTX_PRELUDE = progen.RANDOM_PRELUDE + '''\
import malt
set_loop_options = malt.experimental.set_loop_options
import pdb
def deco(*a, **k):
    def w(fn):
        return fn
    return w
def ident(fn):
    return fn
def kwf(*a, **k):
    tr('kwf', len(a), sorted(k))
    return len(a) + len(k)
'''

# expression-shaped constructs; {k} is replaced by a fresh tag
EXPR_CONSTRUCTS = {
    'and': '(tr({k}, a) and tr({k}1, b))',
    'or': '(tr({k}, a) or tr({k}1, b))',
    'not': '(not tr({k}, a))',
    'ifexp': '(tr({k}, 1) if tr({k}1, a) else tr({k}2, 2))',
    'call': 'h(tr({k}, a))',
    'eq': '(tr({k}, a) == b)',
    'noteq': '(a != tr({k}, b))',
    'chain': '(a < tr({k}, b) <= c)',
    'and3': '(a and tr({k}, b) and c)',
    'starcall': 'kwf(a, *l, tr({k}, b), *[c], k1=a, **{{"k2": b}})',
    'kwcall': 'kwf(k1=tr({k}, a))',
    'method': 'o.m(tr({k}, a))',
    'print': 'print(tr({k}, a))',
    'nested_ifexp': '(1 if a else (2 if tr({k}, b) else 3))',
    'ifexp_in_test': '(1 if (a if b else tr({k}, c)) else 2)',
    'lambda_call': '(lambda q: h(q) and q)(tr({k}, a))',
    'walrus': '(h(zz := tr({k}, a)) and zz)',
}

# expression contexts: {e} is the construct; each yields statements for the body of f (indent 4)
EXPR_CONTEXTS = {
    'assign': 'x = {e}',
    'return': 'return {e}',
    'exprstmt': '{e}',
    'augassign': 'x += {e}',
    'if_test': 'if {e}:\n    x = 1',
    'while_test': 'while {e} and n() and False:\n    x = 1',
    'for_iter': 'for i in [{e}]:\n    x = i',
    'loop_body': 'for i in n():\n    x = {e}',
    'while_body': 'while d():\n    x = {e}',
    'branch_body': 'if d():\n    x = {e}\nelse:\n    y = {e}',
    'try_body': 'try:\n    x = {e}\nexcept E1:\n    y = {e}\nfinally:\n    z = {e}',
    'with_body': 'with cm(1):\n    x = {e}',
    'with_item': 'with cm({e}) as w:\n    x = w',
    'nested_def': 'def g(p):\n    return {e}\nx = g(a)',
    'lambda_body': 'x = (lambda p: {e})(a)',
    'comp_elt': 'x = [{e} for q in l]',
    'comp_iter': 'x = [q for q in [{e}]]',
    'comp_if': 'x = [q for q in l if {e}]',
    'genexp': 'x = sum(int(bool({e})) for q in l)',
    'dictcomp': 'x = {{q: {e} for q in l}}',
    'operand_and': 'x = (d() and {e})',
    'operand_not': 'x = (not {e})',
    'operand_ifexp': 'x = ({e} if d() else 0)',
    'operand_ifexp_test': 'x = (1 if {e} else 0)',
    'call_arg': 'x = tr(0, {e})',
    'call_kwarg': 'x = kwf(k={e})',
    'call_star': 'x = kwf(*[{e}])',
    'call_func': 'x = (ident if {e} else ident)(h)(a)',
    'decorator': '@deco({e})\ndef g(p):\n    return p\nx = g(a)',
    'default': 'def g(p, q={e}, *, r={e}):\n    return q\nx = g(a)',
    'fstring': 'x = f"{{{e}}}:{{a:>{{b}}}}"',
    'subscript': 'x = l[int(bool({e})) - 1]',
    'subscript_store': 'l[0] = {e}',
    'slice': 'x = l[0:int(bool({e}))]',
    'attr_base': 'x = ({e}).__class__',
    'tuple_elt': 'x = (a, {e}, [b, {e}], {{"k": {e}}})',
    'starred': 'x = [*[{e}], a]',
    'binop': 'x = 1 + int(bool({e}))',
    'compare_operand': 'x = (1 < int(bool({e})))',
    'assert': 'assert {e} or True',
    'raise': 'if {e} and False:\n    raise E1({e})',
    'del_sub': 'll = [1, 2]\ndel ll[int(bool({e})) - 1]',
    'global_assign': 'global G\nG = {e}',
    'class_body': 'class K(object):\n    v = {e}\n    def m(self, p):\n        return {e}\nx = K().m(a)',
    'annassign': 'x: int = {e}',
    'except_type': 'try:\n    x = 1\nexcept (E1 if {e} else E2):\n    pass',
    'return_in_loop': 'for i in n():\n    if d():\n        return {e}',
    'nested_lambda_default': 'x = (lambda p, q=({e}): q)(a)',
    'param_annotation': 'def g(p: {e}, *q: {e}):\n    return p\nx = g(a)',
    'return_annotation': 'def g(p) -> {e}:\n    return p\nx = g',
}

# statement-shaped constructs placed in statement contexts
STMT_CONSTRUCTS = {
    'if': 'if d():\n    x = tr({k}, 1)\nelse:\n    y = tr({k}1, 2)',
    'while': 'while d():\n    x = tr({k}, x)',
    'for': 'for i in n():\n    x = tr({k}, i)',
    'break': 'for i in n():\n    if d():\n        break\n    x = tr({k}, i)',
    'continue': 'for i in n():\n    if d():\n        continue\n    x = tr({k}, i)',
    'while_break': 'while d():\n    if d():\n        break\n    x = tr({k}, 0)',
    'early_return': 'if d():\n    return tr({k}, 7)',
    'return_in_for': 'for i in n():\n    if d():\n        return tr({k}, i)',
    'del': 'x = 1\ndel x\nx = tr({k}, 2)',
    'augassign': 'x += tr({k}, 1)\nl[0] += 1',
    'loop_directive': 'for i in n():\n    set_loop_options(maximum_iterations=tr({k}, 3))\n    x = i',
    'loop_directive_attr': 'while d():\n    malt.experimental.set_loop_options(parallel_iterations=1)\n    x = tr({k}, x)',
    'only_directive': 'for i in n():\n    set_loop_options()',
    'debugger': 'if False:\n    pdb.set_trace()\n    breakpoint()',
}

STMT_CONTEXTS = {
    'top': '{s}',
    'loop_body': 'for j in n():\n{s4}',
    'while_body': 'while d():\n{s4}',
    'branch': 'if d():\n{s4}\nelse:\n{s4}',
    'try_body': 'try:\n{s4}\nexcept E1:\n    pass',
    'except_body': 'try:\n    tr(0)\nexcept E1:\n{s4}',
    'finally_body': 'try:\n    tr(0)\nfinally:\n{s4}',
    'with_body': 'with cm(2):\n{s4}',
    'nested_def': 'def g():\n    x = 0\n    y = 0\n{s4}\n    return x\nw = g()',
    'nested_def_in_loop': 'for j in n():\n    def g():\n        x = 0\n        y = 0\n{s8}\n        return x\n    w = g()',
    'class_method': 'class K(object):\n    def m(self):\n        x = 0\n        y = 0\n{s8}\n        return x\nw = K().m()',
}

# a `return`/`break`/`continue` may not sit in a `finally` for the C01 class (documented unsupported);
_NO_FINALLY = ('early_return', 'return_in_for')

BAD_DIRECTIVES = {
    'directive_not_first': 'for i in n():\n    x = 1\n    y = 2\n    set_loop_options(maximum_iterations=3)',
    'directive_outside_loop': 'set_loop_options(maximum_iterations=3)',
    'directive_bad_kw': 'for i in n():\n    set_loop_options(nope=3)',
    'directive_too_many': 'for i in n():\n    set_loop_options(1, 2, 3, 4, 5)',
    'directive_dup': 'for i in n():\n    set_loop_options(1, parallel_iterations=2)',
    'directive_starstar': 'for i in n():\n    set_loop_options(**{"maximum_iterations": 3})',
    'directive_second_ok': 'for i in n():\n    x = 1\n    set_loop_options(maximum_iterations=3)',
}


def _indent(s, n):
    return textwrap.indent(s, ' ' * n)


def _function(body, name='f'):
    src = 'def %s(a, b, c, l):\n    x = a\n    y = b\n    z = c\n    w = 0\n    i = 0\n    o = Obj(a)\n' % name
    src += _indent(body, 4) + '\n'
    if not body.lstrip().startswith('return') or '\n' in body:
        src += '    return tr(0, x, y, z)\n'
    return src


# ------------------------------------------------------------------------------------------------
# test-position matrix: EVERY expression kind of the model as the (bare) test of every control-flow construct
# (a shape-specific fast path — "this kind of test needs no operator" — must meet its shape somewhere)
# ------------------------------------------------------------------------------------------------
TEST_EXPRS = {
    # Name / Constant
    'name': 'a', 'const_int': '1', 'const_none': 'None', 'const_str': '"s"',
    # Compare x every operator
    'is': 'a is None', 'isnot': 'a is not None', 'in': 'a in l', 'notin': 'a not in l',
    'eq': 'a == b', 'ne': 'a != b', 'lt': 'a < b', 'le': 'a <= b', 'gt': 'a > b', 'ge': 'a >= b',
    # chained and mixed
    'chain_lt': 'a < b <= c', 'chain_is': 'a is b is c', 'chain_is_in': 'a is not None in [True]', 'chain_lt_in': 'a < b in l',
    'chain_is_eq': 'a is b == c', 'chain_in_in': 'a in l in [l]', 'chain_eq_ne': 'a == b != c',
    # operands with effects
    'is_call': 'tr({k}, a) is None', 'in_call': 'tr({k}, a) in l', 'notin_call': 'a not in tr({k}, l)', 'eq_call': 'tr({k}, a) == h(b)',
    # BoolOp / UnaryOp
    'and': 'a and b', 'or': 'a or b', 'and_is_in': 'a is None or b in l', 'not': 'not a', 'not_in_paren': 'not (a in l)',
    'not_is': 'not a is None', 'usub': '-a',
    # Call / Attribute / Subscript / BinOp
    'call': 'h(a)', 'call_d': 'd()', 'method': 'o.m(a)', 'attr': 'o.v', 'subscript': 'l[0]', 'slice': 'l[0:1]', 'binop': 'a + b',
    # IfExp / NamedExpr / Lambda call / displays / comprehension / f-string
    'ifexp': 'a if b else c', 'namedexpr': '(zz := a)', 'lambda_call': '(lambda q: q)(a)', 'tuple': '(a, b)', 'list': '[a]',
    'dict': '{{a: b}}', 'listcomp': '[q for q in l if q is not None]', 'fstring': 'f"{{a}}"',
}

TEST_POSITIONS = {
    'if': 'if {e}:\n    x = tr({k}1, 1)\nelse:\n    y = tr({k}2, 2)',
    'if_noelse': 'if {e}:\n    x = tr({k}1, 1)',
    'elif': 'if d():\n    x = 1\nelif {e}:\n    x = tr({k}1, 2)\nelse:\n    y = 3',
    # a bare `while` test: the loop is left by an exception (break/return lowering would rewrite the test)
    'while': 'try:\n    while {e}:\n        w = w + 1\n        raise E1(tr({k}1, w))\nexcept E1:\n    pass',
    'if_in_for': 'for i in n():\n    if {e}:\n        x = tr({k}1, i)',
    'if_in_while': 'try:\n    while d():\n        if {e}:\n            x = tr({k}1, 1)\n        raise E1(0)\nexcept E1:\n    pass',
    'if_in_with': 'with cm(3):\n    if {e}:\n        x = tr({k}1, 1)',
    'if_in_try': 'try:\n    if {e}:\n        x = tr({k}1, 1)\nexcept E1:\n    pass\nfinally:\n    if {e}:\n        y = 2',
    'if_in_def': 'def g(a, b, c, l, o):\n    if {e}:\n        return tr({k}1, 1)\n    return 0\nx = g(a, b, c, l, o)',
    'if_nested': 'if d():\n    if {e}:\n        x = tr({k}1, 1)\n    else:\n        y = 2',
    'ifexp_test': 'x = (tr({k}1, 1) if {e} else tr({k}2, 2))',
    'lambda_ifexp': 'x = (lambda a, b, c, l, o: 1 if {e} else 2)(a, b, c, l, o)',
    'assert': 'assert {e}, "m"',
    'comp_if': 'x = [q for q in l if {e}]',
    'genexp_if': 'x = sum(1 for q in l if {e})',
    'and_operand': 'x = (({e}) and d())',
    'or_operand': 'x = (d() or ({e}))',
    'not_operand': 'x = (not ({e}))',
    'plain': 'x = ({e})',
    'exprstmt': '({e})',
    'return': 'return ({e})',
    'call_arg': 'x = tr(0, ({e}))',
}

EQ_SENSITIVE_TESTS = ('eq', 'ne', 'chain_is_eq', 'chain_eq_ne', 'eq_call')


def test_matrix_programs():
    import warnings
    warnings.filterwarnings('ignore', category=SyntaxWarning)
    out = []
    k = 5000
    for en, e in TEST_EXPRS.items():
        for pn, pos in TEST_POSITIONS.items():
            k += 4
            ex = e.format(k=k)
            body = pos.format(e=ex, k=k)
            src = CTX_PRELUDE + _function(body)
            try:
                compile(src, '<ctx>', 'exec')
            except SyntaxError:
                continue
            p = progen.Program(src, [(1, 2, 3, [1, 2]), (0, 0, 5, [0, 3])], {'pos:' + pn, 'test:' + en}, 'context',
                               decisions=[[1, 0, 2, 1, 0, 1, 1, 0], [0] * 8, [2, 1, 1, 1, 0, 2, 1, 1]])
            p.construct, p.context, p.shape = 't:' + en, 'p:' + pn, 'test'
            out.append(p)
    return out


def context_programs():
    """Each overloadable construct in each syntactic context: list of (key, construct, context, Program)."""
    out = []
    k = 10
    for cn, c in EXPR_CONSTRUCTS.items():
        for xn, x in EXPR_CONTEXTS.items():
            k += 3
            e = c.format(k=k)
            body = x.format(e=e)
            src = CTX_PRELUDE + _function(body)
            try:
                compile(src, '<ctx>', 'exec')
            except SyntaxError:
                continue
            feats = {'ctx:' + xn, 'cons:' + cn}
            p = progen.Program(src, [(1, 2, 3, [1, 2]), (0, 0, 5, [0, 3])], feats, 'context',
                               decisions=[[1, 0, 2, 1, 0, 1, 1, 0], [0] * 8, [2, 1, 1, 1, 0, 2, 1, 1]])
            p.construct, p.context, p.shape = cn, xn, 'expr'
            out.append(p)
    for cn, c in STMT_CONSTRUCTS.items():
        for xn, x in STMT_CONTEXTS.items():
            if xn == 'finally_body' and cn in _NO_FINALLY:
                continue
            k += 3
            s = c.format(k=k)
            body = x.format(s=s, s4=_indent(s, 4), s8=_indent(s, 8))
            src = CTX_PRELUDE + _function(body)
            try:
                compile(src, '<ctx>', 'exec')
            except SyntaxError:
                continue
            p = progen.Program(src, [(1, 2, 3, [1, 2]), (0, 0, 5, [0, 3])], {'ctx:' + xn, 'cons:' + cn}, 'context',
                               decisions=[[1, 0, 2, 1, 0, 1, 1, 0], [0] * 8, [2, 1, 1, 1, 0, 2, 1, 1]])
            p.construct, p.context, p.shape = cn, xn, 'stmt'
            out.append(p)
    out.extend(test_matrix_programs())
    for cn, s in BAD_DIRECTIVES.items():
        src = CTX_PRELUDE + _function(s)
        p = progen.Program(src, [(1, 2, 3, [1, 2])], {'cons:' + cn}, 'context', decisions=[[1, 1, 0, 0]])
        p.construct, p.context, p.shape = cn, 'top', 'bad-directive'
        out.append(p)
    # docstring / decorators on the converted entity / constant first statement
    extra = {
        'docstring': 'def f(a, b, c, l):\n    """doc"""\n    return h(a)\n',
        'const_first': 'def f(a, b, c, l):\n    0\n    return h(a)\n',
        'only_docstring': 'def f(a, b, c, l):\n    """doc"""\n',
        'top_decorator': '@ident\ndef f(a, b, c, l):\n    return h(a) and b\n',
        'inner_docstring': 'def f(a, b, c, l):\n    def g(p):\n        "inner"\n        return h(p)\n    return g(a)\n',
        'fscope_clash': 'def f(a, b, c, l):\n    fscope = a\n    def g(fscope_1):\n        return h(fscope_1)\n    return g(fscope) + len([lambda: h(a)])\n',
        'qn_shapes': 'def o_(v):\n    return Obj(v)\ndef f(a, b, c, l):\n    t = {"k": h, 0: h}\n    return t["k"](a) + t[0](b) + [h][0](c) + o_(a).v\n',
        'ag_user_call': 'def f(a, b, c, l):\n    ag__ = Obj(a)\n    return ag__.m(b)\n',
        'pass_only': 'def f(a, b, c, l):\n    pass\n',
    }
    for cn, fsrc in extra.items():
        src = CTX_PRELUDE + fsrc
        p = progen.Program(src, [(1, 2, 3, [1, 2])], {'cons:' + cn}, 'context', decisions=[[1, 0, 1, 0]])
        p.construct, p.context, p.shape = cn, 'entity', 'entity'
        out.append(p)
    return out


LAMBDA_ENTITIES = {
    'lam_and': 'f = lambda a, b, c, l: (tr(1, a) and h(b))',
    'lam_nested': 'f = lambda a, b, c, l: (lambda q: h(q) or q)(tr(1, a))',
    'lam_ifexp': 'f = lambda a, b, c, l: (h(a) if tr(1, b) else (2 if c else 3))',
    'lam_default': 'f = lambda a, b, c, l, q=h(1): (q and not tr(1, a))',
}


def lambda_programs():
    out = []
    for cn, s in LAMBDA_ENTITIES.items():
        p = progen.Program(CTX_PRELUDE + s + '\n', [(1, 2, 3, [1, 2]), (0, 0, 0, [0])], {'cons:' + cn, 'lambda_entity'}, 'context',
                           decisions=[[1, 0, 1, 0]])
        p.construct, p.context, p.shape = cn, 'lambda_entity', 'lambda'
        out.append(p)
    return out


# ------------------------------------------------------------------------------------------------
# check_models
# ------------------------------------------------------------------------------------------------
def program_stream(run, quick):
    """(program, configs to use) for the correspondence."""
    info = {}
    progs = []
    cap_sk = 150 if quick else 1500
    for p in progen.skeleton_programs(4 if quick else 5, 3, cap=cap_sk, rng=random.Random(run.rng.getrandbits(32)), info=info):
        progs.append(p)
    nrand = 60 if quick else 600
    rnd = list(progen.random_programs(random.Random(run.rng.getrandbits(32)), nrand, size=12))
    ctx = context_programs() + lambda_programs()
    return progs, rnd, ctx, info


def check_models(run, traces):
    """`traces`: iterable of (program, (rec, fs), options, ConversionTrace).  Feeds each modelled pass's recorded input
    to the Lean driver and compares structurally.  Returns statistics."""
    lines, meta = [], []
    skipped = {}
    for prog, cfg, options, tr in traces:
        gen_before = []
        for rec in tr.passes:
            line = request(rec, tr, options, gen_before)
            if line is None:
                skipped[rec.name] = skipped.get(rec.name, 0) + 1
            else:
                lines.append(line)
                meta.append((prog, cfg, rec, tr))
            gen_before = gen_before + [r[2] for r in rec.new_symbols]
    answers = run.drive(lines) if lines else []
    dis = {}
    counts = {}
    for (prog, cfg, rec, tr), ans in zip(meta, answers):
        op = MODELLED[rec.name]
        counts[op] = counts.get(op, 0) + 1
        ok, detail = compare(rec, tr, ans)
        run.evaluations += 1
        if not ok:
            dis.setdefault(op, []).append({'program': prog.key, 'source': prog.function_source()[-1500:] if prog.kind != 'context' else prog.source[len(CTX_PRELUDE):],
                                           'config': cfg_key(*cfg), 'detail': detail[:600]})
    return counts, dis, skipped


# ------------------------------------------------------------------------------------------------
# history slice: the SAME function object converted through the real API (process-wide cache) under a
# sequence of option sets differing in one feature
# ------------------------------------------------------------------------------------------------
HISTORY_FEATURES = ('BUILTIN_FUNCTIONS', 'EQUALITY_OPERATORS', 'LISTS', 'ASSERT_STATEMENTS')

HISTORY_PROGRAMS = {
    'print_len_range_nested': (
        'def f(a, b, c, l):\n    def g(p):\n        print(tr(1, p))\n        return len(l) + p\n    x = 0\n'
        '    for i in range(2):\n        x = x + g(i)\n    print(tr(2, x), a == b)\n    return x\n'),
    'eq_assert_list': (
        'def f(a, b, c, l):\n    m = [a, b]\n    m.append(c)\n    assert len(m) == 3, "m"\n'
        '    if a != b and m[0] == a:\n        print(tr(3, a))\n    return (a == b, m[2] != c, len(m))\n'),
    'lambda_comp': (
        'def f(a, b, c, l):\n    k = (lambda q: print(tr(4, q)) or q == a)(b)\n'
        '    r = [abs(q) for q in l if q != c]\n    assert k or not k\n    return (k, r, max(r + [0]))\n'),
    'while_print': (
        'def f(a, b, c, l):\n    x = 0\n    while x != 2:\n        x = x + 1\n        print(tr(5, x))\n'
        '        if x == b:\n            break\n    return int(x == 2) + len(l)\n'),
}


def history_pairs(all_pairs):
    """Ordered pairs (A, B) of feature subsets differing in exactly one feature, as sorted name tuples."""
    feats = HISTORY_FEATURES
    out = []
    for mask in range(1 << len(feats)):
        for k, f in enumerate(feats):
            if mask >> k & 1:
                continue
            lo = tuple(x for j, x in enumerate(feats) if mask >> j & 1)
            hi = tuple(x for j, x in enumerate(feats) if (mask | 1 << k) >> j & 1)
            out.append((lo, hi))
            out.append((hi, lo))
    if not all_pairs:
        # quick: every pair that flips BUILTIN_FUNCTIONS or EQUALITY_OPERATORS (what C04's checker can see), a sample of the rest
        out = [p for n, p in enumerate(out) if set(p[0]) ^ set(p[1]) <= {'BUILTIN_FUNCTIONS', 'EQUALITY_OPERATORS'} or n % 8 == 0]
    return out


def history_programs():
    out = []
    for name, fsrc in HISTORY_PROGRAMS.items():
        p = progen.Program(CTX_PRELUDE + fsrc, [(1, 2, 3, [1, 2]), (2, 2, 0, [0, 3])], {'history:' + name}, 'context',
                           decisions=[[1, 0, 1, 0]])
        p.construct, p.context, p.shape = 'history:' + name, 'history', 'history'
        out.append(p)
    return out
