"""Translator plug-in (C17 + every property that reasons about converter output shapes):
every `templates.replace(...)` / `templates.replace_as_expression(...)` call site  ->  Generated/Templates.lean

Read with `ast` only (converter code is never executed).  Sources scanned: malt/converters/*.py (tests excluded),
malt/pyct/transpiler.py, malt/core/converter.py, malt/pyct/common_transformers/anf.py, malt/pyct/transformer.py.

Resolution of the template string of a call site (DESIGN.md §2.1a):
  * the first positional argument is a string constant                               -> that string
  * it is a local name N: the LAST assignment `N = ...` lexically preceding the call in the same (innermost)
    function must be `N = <string constant>`                                          -> that string
  * anything else (f-string, `template.replace(...)` rewriting, parameter, ...)      -> UNRESOLVED
The string is `textwrap.dedent`ed (as `templates.replace` does) and parsed with `ast`; the statements are emitted as
`Malt.Py` terms (all labels 0; placeholders are ordinary `Name` nodes) through the same serialiser the harness uses
(harness/pyast.py), so `Gen.tmpl_x` is by construction what the harness sends for the same text.

Emitted per site  <module>_<function>_<k>  (k = 0,1,.. in source order within the innermost enclosing function):
  def tmpl_<site>   : List Stmt       the parsed template
  def tmplKw_<site> : List String     keyword names bound at the call (in call order)
and the tables
  allTemplates   : List (String × List Stmt × List String)
  templateSites  : List (String × String × Nat × Nat × Bool)   (site, file, first line, last line, as_expression)
  unresolvedSites: List String
An unresolved site is emitted as `tmpl_<site> := unresolved` (a single `Stmt.other 0 "unresolved"`), listed in
`unresolvedSites`, and reported in the JSON problems of the translator — never silently skipped.
"""
import ast, glob, os, sys, textwrap

REPO = os.environ.get('MALT_REPO', '/repo')
_HERE = os.path.dirname(os.path.abspath(__file__))
sys.path.insert(0, os.path.join(_HERE, '..', 'harness'))

EXTRA_FILES = ['malt/pyct/transpiler.py', 'malt/core/converter.py', 'malt/pyct/common_transformers/anf.py',
               'malt/pyct/transformer.py']


def _lean_str(s):
    out = ['"']
    for ch in s:
        if ch == '\\':
            out.append('\\\\')
        elif ch == '"':
            out.append('\\"')
        elif ch == '\n':
            out.append('\\n')
        elif ch == '\t':
            out.append('\\t')
        elif ch == '\r':
            out.append('\\r')
        elif ord(ch) < 32 or ord(ch) == 127:
            out.append('\\x%02x' % ord(ch))
        else:
            out.append(ch)
    out.append('"')
    return ''.join(out)


_CTX = {'Load': '.load', 'Store': '.store', 'Del': '.del'}
_COMP = {'ListComp': '.listComp', 'SetComp': '.setComp', 'GeneratorExp': '.genExp', 'DictComp': '.dictComp'}


def _b(x):
    return 'true' if x in (True, 'True', 'true', 1, '1') else 'false'


def _strs(xs):
    return '[' + ', '.join(_lean_str(str(x)) for x in xs) + ']'


def lean_exprs(xs):
    return '[' + ', '.join(lean_expr(x) for x in xs) + ']'


def lean_stmts(xs):
    return '[' + ', '.join(lean_stmt(x) for x in xs) + ']'


def lean_expr(x):
    """S-expression (nested lists as built by pyast.Ser) -> Lean `Malt.Py.Expr` term, all labels 0."""
    if x == 'NoneMarker':
        return '.noneMarker'
    k = x[0]
    S = _lean_str
    if k == 'Name':
        return '(.name 0 %s %s)' % (S(x[2]), _CTX[x[3]])
    if k == 'Constant':
        return '(.const 0 %s %s)' % (S(x[2]), S(x[3]))
    if k == 'Attribute':
        return '(.attr 0 %s %s %s)' % (lean_expr(x[2]), S(x[3]), _CTX[x[4]])
    if k == 'Subscript':
        return '(.subscript 0 %s %s %s)' % (lean_expr(x[2]), lean_expr(x[3]), _CTX[x[4]])
    if k == 'Call':
        return '(.call 0 %s %s %s)' % (lean_expr(x[2]), lean_exprs(x[3]), lean_exprs(x[4]))
    if k == 'keyword':
        return '(.keyword 0 %s %s %s)' % (S(x[2][0]) if x[2] else '""', _b(bool(x[2])), lean_expr(x[3]))
    if k == 'BoolOp':
        return '(.boolop 0 %s %s)' % (_b(x[2] == 'And'), lean_exprs(x[3]))
    if k == 'UnaryOp':
        return '(.unary 0 %s %s)' % (S(x[2]), lean_expr(x[3]))
    if k == 'BinOp':
        return '(.binop 0 %s %s %s)' % (S(x[2]), lean_expr(x[3]), lean_expr(x[4]))
    if k == 'Compare':
        return '(.compare 0 %s %s %s)' % (lean_expr(x[2]), _strs(x[3]), lean_exprs(x[4]))
    if k == 'IfExp':
        return '(.ifexp 0 %s %s %s)' % (lean_expr(x[2]), lean_expr(x[3]), lean_expr(x[4]))
    if k == 'Lambda':
        return '(.lambda 0 %s %s)' % (lean_expr(x[2]), lean_expr(x[3]))
    if k == 'Tuple':
        return '(.seq 0 .tuple %s %s)' % (lean_exprs(x[2]), _CTX[x[3]])
    if k == 'List':
        return '(.seq 0 .list %s %s)' % (lean_exprs(x[2]), _CTX[x[3]])
    if k == 'Set':
        return '(.seq 0 .set %s .load)' % lean_exprs(x[2])
    if k == 'Starred':
        return '(.starred 0 %s %s)' % (lean_expr(x[2]), _CTX[x[3]])
    if k == 'NamedExpr':
        return '(.namedexpr 0 %s %s)' % (lean_expr(x[2]), lean_expr(x[3]))
    if k in _COMP:
        return '(.comp 0 %s %s %s)' % (_COMP[k], lean_exprs(x[2]), lean_exprs(x[3]))
    if k == 'comprehension':
        return '(.comprehension 0 %s %s %s %s)' % (lean_expr(x[2]), lean_expr(x[3]), lean_exprs(x[4]), _b(x[5]))
    if k == 'arguments':
        return '(.arguments 0 %s)' % ' '.join(lean_exprs(x[i]) for i in range(2, 9))
    if k == 'arg':
        return '(.arg 0 %s %s)' % (S(x[2]), lean_exprs(x[3]))
    if k == 'withitem':
        return '(.withitem 0 %s %s)' % (lean_expr(x[2]), lean_exprs(x[3]))
    if k == 'Other':
        return '(.other 0 %s %s %s)' % (S(x[2]), _strs(x[3]), lean_exprs(x[4]))
    raise ValueError('no Lean form for expression kind %r' % (k,))


def _pairs(ps):
    return '[' + ', '.join('(%s, %s)' % (_lean_str(a), _lean_str(b)) for a, b in ps) + ']'


def lean_stmt(x):
    k = x[0]
    S = _lean_str
    if k == 'FunctionDef':
        return '(.functionDef 0 %s %s %s %s %s %s)' % (S(x[2]), lean_expr(x[3]), lean_stmts(x[4]), lean_exprs(x[5]),
                                                      lean_exprs(x[6]), _b(x[7]))
    if k == 'ClassDef':
        return '(.classDef 0 %s %s %s %s %s)' % (S(x[2]), lean_exprs(x[3]), lean_exprs(x[4]), lean_stmts(x[5]), lean_exprs(x[6]))
    if k == 'Return':
        return '(.ret 0 %s)' % lean_exprs(x[2])
    if k == 'Delete':
        return '(.delete 0 %s)' % lean_exprs(x[2])
    if k == 'Assign':
        return '(.assign 0 %s %s)' % (lean_exprs(x[2]), lean_expr(x[3]))
    if k == 'AugAssign':
        return '(.augAssign 0 %s %s %s)' % (lean_expr(x[2]), S(x[3]), lean_expr(x[4]))
    if k == 'AnnAssign':
        return '(.annAssign 0 %s %s %s %s)' % (lean_expr(x[2]), lean_expr(x[3]), lean_exprs(x[4]), _b(x[5]))
    if k == 'For':
        return '(.for_ 0 %s %s %s %s %s %s)' % (lean_expr(x[2]), lean_expr(x[3]), lean_stmts(x[4]), lean_stmts(x[5]),
                                               lean_exprs(x[6]), _b(x[7]))
    if k == 'While':
        return '(.while_ 0 %s %s %s)' % (lean_expr(x[2]), lean_stmts(x[3]), lean_stmts(x[4]))
    if k == 'If':
        return '(.if_ 0 %s %s %s)' % (lean_expr(x[2]), lean_stmts(x[3]), lean_stmts(x[4]))
    if k == 'With':
        return '(.with_ 0 %s %s %s)' % (lean_exprs(x[2]), lean_stmts(x[3]), _b(x[4]))
    if k == 'Raise':
        return '(.raise 0 %s %s)' % (lean_exprs(x[2]), lean_exprs(x[3]))
    if k == 'Try':
        return '(.try_ 0 %s %s %s %s)' % (lean_stmts(x[2]), lean_stmts(x[3]), lean_stmts(x[4]), lean_stmts(x[5]))
    if k == 'ExceptHandler':
        return '(.handler 0 %s %s %s)' % (lean_exprs(x[2]), _strs(x[3]), lean_stmts(x[4]))
    if k == 'Assert':
        return '(.assert_ 0 %s %s)' % (lean_expr(x[2]), lean_exprs(x[3]))
    if k == 'Import':
        return '(.import_ 0 %s)' % _pairs(x[2])
    if k == 'ImportFrom':
        return '(.importFrom 0 %s %s %d)' % (S(x[2]), _pairs(x[3]), int(x[4]))
    if k == 'Global':
        return '(.global 0 %s)' % _strs(x[2])
    if k == 'Nonlocal':
        return '(.nonlocal 0 %s)' % _strs(x[2])
    if k == 'Expr':
        return '(.expr 0 %s)' % lean_expr(x[2])
    if k == 'Pass':
        return '(.pass 0)'
    if k == 'Break':
        return '(.break_ 0)'
    if k == 'Continue':
        return '(.continue_ 0)'
    if k == 'OtherStmt':
        return '(.other 0 %s %s %s)' % (S(x[2]), lean_exprs(x[3]), lean_stmts(x[4]))
    raise ValueError('no Lean form for statement kind %r' % (k,))


def _zero_ids(x):
    import pyast
    return pyast.strip_ids(x)


def template_sexps(text):
    """Template text -> list of statement S-expressions (ids as assigned by pyast.Ser), as `templates.replace` parses it."""
    import pyast
    tree = ast.parse(textwrap.dedent(text))
    ser = pyast.Ser(None)
    return [ser.stmt(s) for s in tree.body]


def placeholder_occurrences(text, kws):
    """[(kw, #occurrences as ast.Name, #occurrences as ast.arg)] in the parsed template"""
    tree = ast.parse(textwrap.dedent(text))
    out = []
    for k in kws:
        n = sum(1 for x in ast.walk(tree) if isinstance(x, ast.Name) and x.id == k)
        a = sum(1 for x in ast.walk(tree) if isinstance(x, ast.arg) and x.arg == k)
        out.append((k, n, a))
    return out


class _Site(object):
    def __init__(self, rel, module, function, lineno, end_lineno, as_expr, kws, has_star_kw):
        self.rel, self.module, self.function = rel, module, function
        self.lineno, self.end_lineno, self.as_expr = lineno, end_lineno, as_expr
        self.kws, self.has_star_kw = kws, has_star_kw
        self.text = None
        self.why = None
        self.name = None


def _is_template_call(n):
    return (isinstance(n, ast.Call) and isinstance(n.func, ast.Attribute)
            and n.func.attr in ('replace', 'replace_as_expression')
            and isinstance(n.func.value, ast.Name) and n.func.value.id == 'templates')


def _own_nodes(fn):
    """Nodes lexically inside function `fn` but not inside a nested def/lambda/class."""
    stack = list(ast.iter_child_nodes(fn))
    while stack:
        n = stack.pop()
        yield n
        if isinstance(n, (ast.FunctionDef, ast.AsyncFunctionDef, ast.ClassDef, ast.Lambda)):
            continue
        stack.extend(ast.iter_child_nodes(n))


def _resolve(fn, call):
    """(text, None) or (None, reason)."""
    if not call.args:
        for k in call.keywords:
            if k.arg == 'template':
                arg = k.value
                break
        else:
            return None, 'no template argument'
    else:
        arg = call.args[0]
    if isinstance(arg, ast.Constant) and isinstance(arg.value, str):
        return arg.value, None
    if not isinstance(arg, ast.Name):
        return None, 'template argument is neither a string constant nor a local name: ' + ast.unparse(arg)[:80]
    var = arg.id
    # every binding of `var` in this function that lexically precedes the call
    cands = []
    for n in _own_nodes(fn):
        pos = (getattr(n, 'lineno', None), getattr(n, 'col_offset', None))
        if pos[0] is None or pos >= (call.lineno, call.col_offset):
            continue
        if isinstance(n, ast.Assign):
            for t in n.targets:
                for x in ast.walk(t):
                    if isinstance(x, ast.Name) and x.id == var:
                        cands.append((pos, n))
        elif isinstance(n, (ast.AugAssign, ast.AnnAssign)) and isinstance(n.target, ast.Name) and n.target.id == var:
            cands.append((pos, n))
        elif isinstance(n, (ast.For, ast.AsyncFor)):
            if any(isinstance(x, ast.Name) and x.id == var for x in ast.walk(n.target)):
                cands.append((pos, n))
        elif isinstance(n, ast.NamedExpr) and n.target.id == var:
            cands.append((pos, n))
        elif isinstance(n, (ast.With, ast.AsyncWith)):
            for it in n.items:
                if it.optional_vars is not None and any(isinstance(x, ast.Name) and x.id == var for x in ast.walk(it.optional_vars)):
                    cands.append((pos, n))
    if not cands:
        return None, 'no assignment to %r precedes the call in %s' % (var, fn.name)
    cands.sort(key=lambda c: c[0])
    last = cands[-1][1]
    if (isinstance(last, ast.Assign) and len(last.targets) == 1 and isinstance(last.targets[0], ast.Name)
            and isinstance(last.value, ast.Constant) and isinstance(last.value.value, str)):
        return last.value.value, None
    return None, 'last assignment to %r before the call (line %d) is not a string constant: %s' % (
        var, last.lineno, ast.unparse(last)[:80].replace('\n', ' '))


def find_sites(repo=None):
    repo = repo or REPO
    files = sorted(f for f in glob.glob(os.path.join(repo, 'malt', 'converters', '*.py')) if not f.endswith('_test.py'))
    files += [os.path.join(repo, f) for f in EXTRA_FILES]
    sites = []
    for path in files:
        rel = os.path.relpath(path, repo)
        module = os.path.splitext(os.path.basename(path))[0]
        with open(path) as f:
            tree = ast.parse(f.read())
        counters = {}

        def scan(node, fn):
            # source order walk so that k follows the text
            for child in ast.iter_child_nodes(node):
                if isinstance(child, (ast.FunctionDef, ast.AsyncFunctionDef)):
                    scan(child, child)
                    continue
                if _is_template_call(child):
                    pending.append((child, fn))
                scan(child, fn)
        pending = []
        scan(tree, None)
        pending.sort(key=lambda p: (p[0].lineno, p[0].col_offset))
        for call, fn in pending:
            fname = fn.name if fn is not None else 'module'
            k = counters.get(fname, 0)
            counters[fname] = k + 1
            s = _Site(rel, module, fname, call.lineno, call.end_lineno, call.func.attr == 'replace_as_expression',
                      [kw.arg for kw in call.keywords if kw.arg is not None and kw.arg != 'template'],
                      any(kw.arg is None for kw in call.keywords))
            s.name = '%s_%s_%d' % (module, fname.strip('_') or 'f', k)
            if fn is None:
                s.text, s.why = None, 'call at module level'
            else:
                s.text, s.why = _resolve(fn, call)
            sites.append(s)
    return sites


def gen_templates(problems):
    sites = find_sites()
    if not sites:
        problems.append('no templates.replace call site found')
    seen = {}
    out = []
    out.append('import MaltModel.Py.Ast')
    out.append('/- GENERATED by tools/extract_templates.py from the `templates.replace` / `templates.replace_as_expression` call')
    out.append('   sites of malt/converters/*.py, malt/pyct/transpiler.py, malt/core/converter.py,')
    out.append('   malt/pyct/common_transformers/anf.py, malt/pyct/transformer.py — do not edit; regenerated (content-compared)')
    out.append('   on every run of ./check C17.  Labels are 0; placeholders are ordinary `Name` nodes. -/')
    out.append('namespace Malt.Gen')
    out.append('open Malt.Py')
    out.append('')
    out.append('/-- marker for a call site whose template string the translator could not resolve statically -/')
    out.append('def unresolved : List Stmt := [.other 0 "unresolved" [] []]')
    out.append('')
    table, sitetab, unresolved, occtab = [], [], [], []
    for s in sites:
        if s.name in seen:
            problems.append('duplicate site name ' + s.name)
            continue
        seen[s.name] = s
        term = None
        if s.text is not None:
            try:
                sx = template_sexps(s.text)
                term = lean_stmts(_zero_ids(sx))
            except Exception as e:   # unparsable template text
                s.why = 'template does not parse: %r' % (e,)
        if s.has_star_kw:
            problems.append('%s (%s:%d): call passes **kwargs; keyword list incomplete' % (s.name, s.rel, s.lineno))
        out.append('/-- %s:%d-%d  %s.%s  templates.%s%s -/' % (s.rel, s.lineno, s.end_lineno, s.module, s.function,
                                                              'replace_as_expression' if s.as_expr else 'replace',
                                                              '' if term is not None else '   UNRESOLVED: ' + (s.why or '').replace('-/', '- /')))
        if term is None:
            out.append('def tmpl_%s : List Stmt := unresolved' % s.name)
            unresolved.append(s.name)
            problems.append('unresolved: %s (%s:%d): %s' % (s.name, s.rel, s.lineno, s.why))
        else:
            out.append('def tmpl_%s : List Stmt := %s' % (s.name, term))
        out.append('def tmplKw_%s : List String := %s' % (s.name, _strs(s.kws)))
        occ = placeholder_occurrences(s.text, s.kws) if term is not None else [(k, 0, 0) for k in s.kws]
        out.append('def tmplOcc_%s : List (String × Nat × Nat) := [%s]' % (
            s.name, ', '.join('(%s, %d, %d)' % (_lean_str(k), a, b) for k, a, b in occ)))
        occtab.append('  (%s, tmplOcc_%s)' % (_lean_str(s.name), s.name))
        out.append('')
        table.append('  (%s, tmpl_%s, tmplKw_%s)' % (_lean_str(s.name), s.name, s.name))
        sitetab.append('  (%s, %s, %d, %d, %s)' % (_lean_str(s.name), _lean_str(s.rel), s.lineno, s.end_lineno, _b(s.as_expr)))
    out.append('def allTemplates : List (String × List Stmt × List String) := [')
    out.append(',\n'.join(table))
    out.append(']')
    out.append('')
    out.append('/-- (site, file, first line, last line of the call, replace_as_expression?) -/')
    out.append('def templateSites : List (String × String × Nat × Nat × Bool) := [')
    out.append(',\n'.join(sitetab))
    out.append(']')
    out.append('')
    out.append('/-- per site and bound keyword: (keyword, occurrences as a `Name` placeholder, occurrences as a parameter name — the')
    out.append('one position where the bound nodes are inserted WITHOUT a copy) -/')
    out.append('def allOcc : List (String × List (String × Nat × Nat)) := [')
    out.append(',\n'.join(occtab))
    out.append(']')
    out.append('')
    out.append('def unresolvedSites : List String := %s' % _strs(unresolved))
    out.append('')
    out.append('end Malt.Gen')
    return '\n'.join(out) + '\n'


if __name__ == '__main__':
    import json
    for s in find_sites():
        print(json.dumps({'site': s.name, 'file': s.rel, 'line': s.lineno, 'end': s.end_lineno, 'expr': s.as_expr,
                          'kws': s.kws, 'resolved': s.text is not None, 'why': s.why}))
