"""Translator part for C13: the call-wrapper decision chain and the conversion rule table.

Reads (with `ast`, never executing them)
  malt/core/config.py        CONVERSION_RULES (rule kind + module prefix, in order)
  malt/core/config_lib.py    Rule.matches, Convert/DoNotConvert.get_action
  malt/impl/conversion.py    is_unsupported / is_allowlisted (ordered tests), cache helpers
  malt/impl/api.py           converted_call (ordered chain of checks, partial merge, builtin dispatch,
                             target selection, failure handlers), _call_unconverted, _fall_back_unconverted,
                             is_autograph_strict_conversion_mode
and emits `Generated/Policy.lean`.  The Lean model *interprets* these tables, so a reordering, a dropped
check, a changed `update_cache` flag, a changed partial merge or a changed fallback regenerates a
different table and the theorems are re-checked against it.  Anything not recognised is emitted as
`unresolved` and reported as a problem (a broken translator obligation), never skipped.
"""
import ast, os

REPO = os.environ.get('MALT_REPO', '/repo')


def _read(rel):
    with open(os.path.join(REPO, rel)) as f:
        return f.read()


def _lean_str(s):
    return '"' + s.replace('\\', '\\\\').replace('"', '\\"').replace('\n', '\\n').replace('\t', '\\t') + '"'


def _b(x):
    return 'true' if x else 'false'


def _idents(node):
    """All identifiers / attribute names / string constants mentioned below `node`."""
    out = set()
    for n in ast.walk(node):
        if isinstance(n, ast.Name):
            out.add(n.id)
        elif isinstance(n, ast.Attribute):
            out.add(n.attr)
        elif isinstance(n, ast.Constant) and isinstance(n.value, str):
            out.add(n.value)
    return out


def _func(tree, name):
    for n in tree.body:
        if isinstance(n, ast.FunctionDef) and n.name == name:
            return n
    return None


def _cls(tree, name):
    for n in tree.body:
        if isinstance(n, ast.ClassDef) and n.name == name:
            return n
    return None


def _strip_doc(body):
    if body and isinstance(body[0], ast.Expr) and isinstance(body[0].value, ast.Constant) and isinstance(body[0].value.value, str):
        return body[1:]
    return body


def _is_log(stmt):
    """`logging.log(...)` / `logging.warning(...)` expression statements."""
    return (isinstance(stmt, ast.Expr) and isinstance(stmt.value, ast.Call) and isinstance(stmt.value.func, ast.Attribute)
            and isinstance(stmt.value.func.value, ast.Name) and stmt.value.func.value.id == 'logging')


def _calls(node, fname):
    """Call nodes below `node` whose callee is the plain name or attribute `fname`."""
    out = []
    for n in ast.walk(node):
        if isinstance(n, ast.Call):
            f = n.func
            if (isinstance(f, ast.Name) and f.id == fname) or (isinstance(f, ast.Attribute) and f.attr == fname):
                out.append(n)
    return out


def _returns_const(body, value):
    """Does the statement list end by `return <value>` (ignoring logging)?"""
    body = [s for s in body if not _is_log(s)]
    return bool(body) and isinstance(body[-1], ast.Return) and isinstance(body[-1].value, ast.Constant) \
        and body[-1].value.value is value


# ------------------------------------------------------------------------------------------------

def _rules(problems):
    tree = ast.parse(_read('malt/core/config.py'))
    rules = None
    for n in tree.body:
        if isinstance(n, ast.Assign) and len(n.targets) == 1 and isinstance(n.targets[0], ast.Name) \
                and n.targets[0].id == 'CONVERSION_RULES':
            if not isinstance(n.value, (ast.Tuple, ast.List)):
                problems.append('CONVERSION_RULES is not a tuple/list literal')
                return []
            rules = []
            for e in n.value.elts:
                ok = (isinstance(e, ast.Call) and isinstance(e.func, ast.Name) and len(e.args) == 1 and not e.keywords
                      and isinstance(e.args[0], ast.Constant) and isinstance(e.args[0].value, str))
                if ok and e.func.id == 'Convert':
                    rules.append(('convert', e.args[0].value))
                elif ok and e.func.id == 'DoNotConvert':
                    rules.append(('doNotConvert', e.args[0].value))
                else:
                    problems.append('unrecognised rule: ' + ast.unparse(e))
                    rules.append(('unresolved', ast.unparse(e)))
    if rules is None:
        problems.append('CONVERSION_RULES not found')
        rules = []
    return rules


def _rule_semantics(problems):
    """config_lib: Rule.matches and the action each rule class returns on a match."""
    tree = ast.parse(_read('malt/core/config_lib.py'))
    match_kind = 'unresolved'
    rule = _cls(tree, 'Rule')
    if rule is not None:
        for st in rule.body:
            if isinstance(st, ast.FunctionDef) and st.name == 'matches':
                body = _strip_doc(st.body)
                want = "return module_name.startswith(self._prefix + '.') or module_name == self._prefix"
                if len(body) == 1 and ast.unparse(body[0]) == want:
                    match_kind = 'equalOrDottedPrefix'
    if match_kind == 'unresolved':
        problems.append('config_lib.Rule.matches has an unrecognised shape')
    actions = {}
    for cname in ('Convert', 'DoNotConvert'):
        c = _cls(tree, cname)
        act = None
        if c is not None:
            for st in c.body:
                if isinstance(st, ast.FunctionDef) and st.name == 'get_action':
                    body = _strip_doc(st.body)
                    if (len(body) == 2 and isinstance(body[0], ast.If) and ast.unparse(body[0].test) == 'self.matches(module.__name__)'
                            and len(body[0].body) == 1 and isinstance(body[0].body[0], ast.Return)
                            and ast.unparse(body[1]) == 'return Action.NONE'):
                        act = ast.unparse(body[0].body[0].value)
        actions[cname] = {'Action.CONVERT': 'convert', 'Action.DO_NOT_CONVERT': 'doNotConvert'}.get(act, 'unresolved')
        if actions[cname] == 'unresolved':
            problems.append('config_lib.%s.get_action has an unrecognised shape' % cname)
    return match_kind, actions


def _unsupported(tree, problems):
    fn = _func(tree, 'is_unsupported')
    tests, known_modules = [], []
    if fn is None:
        problems.append('conversion.is_unsupported not found')
        return [('unresolved', False)], []
    body = [s for s in _strip_doc(fn.body) if not _is_log(s)]
    for st in body[:-1]:
        if not isinstance(st, ast.If) or st.orelse:
            problems.append('is_unsupported: unrecognised statement: ' + ast.unparse(st)[:80])
            tests.append(('unresolved', False)); continue
        ids = _idents(st.test)
        warns = any(_is_log(s) and s.value.func.attr == 'warning' for s in st.body)
        if not _returns_const(st.body, True):
            problems.append('is_unsupported: branch does not return True: ' + ast.unparse(st.test)[:80])
            tests.append(('unresolved', warns)); continue
        if 'wrapt' in ids:
            tests.append(('wrapt', warns))
        elif '_lru_cache_wrapper' in ids:
            tests.append(('lruCache', warns))
        elif 'isconstructor' in ids:
            tests.append(('constructor', warns))
        elif '_is_of_known_loaded_module' in ids:
            tests.append(('knownModule', warns))
            for n in ast.walk(st.test):
                if isinstance(n, ast.Tuple) and n.elts and all(isinstance(e, ast.Constant) and isinstance(e.value, str) for e in n.elts):
                    known_modules = [e.value for e in n.elts]
            if not known_modules:
                problems.append('is_unsupported: module tuple of the known-module test not found')
        elif '_IS_TENSORFLOW_PLUGIN' in ids:
            tests.append(('tfPlugin', warns))
        else:
            problems.append('is_unsupported: unrecognised test: ' + ast.unparse(st.test)[:80])
            tests.append(('unresolved', warns))
    if not (body and _returns_const(body[-1:], False)):
        problems.append('is_unsupported: does not end with `return False`')
        tests.append(('unresolved', False))
    return tests, known_modules


def _kwconst(call, name, default):
    for kw in call.keywords:
        if kw.arg == name and isinstance(kw.value, ast.Constant):
            return kw.value.value
    return default


def _allowlisted(tree, problems):
    fn = _func(tree, 'is_allowlisted')
    out = {'tests': [], 'convert_result': None, 'donot_result': None, 'defaults': {}, 'owner_kw': {}, 'call_kw': {},
           'testcase': False, 'nt_plain': None, 'nt_sub_requires_no_nt_base': None}
    if fn is None:
        problems.append('conversion.is_allowlisted not found')
        out['tests'] = ['unresolved']
        return out
    names = [a.arg for a in fn.args.args]
    dvals = [d.value if isinstance(d, ast.Constant) else None for d in fn.args.defaults]
    out['defaults'] = dict(zip(names[len(names) - len(dvals):], dvals))
    body = [s for s in _strip_doc(fn.body) if not _is_log(s)]
    for st in body[:-1]:
        if isinstance(st, ast.Assign) and ast.unparse(st) == 'owner_class = None':
            continue
        if not isinstance(st, ast.If):
            problems.append('is_allowlisted: unrecognised statement: ' + ast.unparse(st)[:80])
            out['tests'].append('unresolved'); continue
        ids = _idents(st.test)
        src = ast.unparse(st.test)
        if src == 'isinstance(o, functools.partial)':
            # module selection: m = functools | inspect.getmodule(o)
            if 'getmodule' not in _idents(st):
                problems.append('is_allowlisted: module selection no longer uses inspect.getmodule')
            continue
        if src == "hasattr(m, '__name__')" and 'CONVERSION_RULES' in _idents(st):
            out['tests'].append('moduleRules')
            # explicit walk: `if action == CONVERT: return X  elif action == DO_NOT_CONVERT: return Y`
            for sub in ast.walk(st):
                if isinstance(sub, ast.If):
                    t = ast.unparse(sub.test)
                    val = True if _returns_const(sub.body, True) else (False if _returns_const(sub.body, False) else None)
                    if t == 'action == config.Action.CONVERT':
                        out['convert_result'] = val
                    elif t == 'action == config.Action.DO_NOT_CONVERT':
                        out['donot_result'] = val
            if out['convert_result'] is None or out['donot_result'] is None:
                problems.append('is_allowlisted: results of the rule loop not recognised')
        elif 'isgeneratorfunction' in ids and _returns_const(st.body, True):
            if src != "hasattr(o, '__code__') and inspect.isgeneratorfunction(o)":
                problems.append('is_allowlisted: generator test changed: ' + src)
            out['tests'].append('generator')
        elif 'check_call_override' in ids:
            want = "check_call_override and (not inspect.isclass(o)) and hasattr(o, '__call__')"
            inner = [s for s in st.body if isinstance(s, ast.If)]
            ok = src == want and len(inner) == 1 and _returns_const(inner[0].body, True) \
                and ast.unparse(inner[0].test) == 'type(o) != type(o.__call__) and is_allowlisted(o.__call__)'
            if not ok:
                problems.append('is_allowlisted: __call__ override test changed: ' + src)
                out['tests'].append('unresolved')
            else:
                out['tests'].append('callOverride')
                c = _calls(inner[0].test, 'is_allowlisted')[0]
                out['call_kw'] = {'check_call_override': _kwconst(c, 'check_call_override', out['defaults'].get('check_call_override')),
                                  'allow_namedtuple_subclass': _kwconst(c, 'allow_namedtuple_subclass', out['defaults'].get('allow_namedtuple_subclass'))}
        elif src == 'inspect.ismethod(o)':
            out['tests'].append('methodOwner')
            rec = _calls(st, 'is_allowlisted')
            if len(rec) != 1 or ast.unparse(rec[0].args[0]) != 'owner_class':
                problems.append('is_allowlisted: owner-class recursion not recognised')
            else:
                out['owner_kw'] = {'check_call_override': _kwconst(rec[0], 'check_call_override', out['defaults'].get('check_call_override')),
                                   'allow_namedtuple_subclass': _kwconst(rec[0], 'allow_namedtuple_subclass', out['defaults'].get('allow_namedtuple_subclass'))}
            for sub in ast.walk(st):
                if isinstance(sub, ast.If) and 'TestCase' in _idents(sub.test) and _returns_const(sub.body, True):
                    out['testcase'] = True
            if 'getmethodclass' not in _idents(st) or 'getdefiningclass' not in _idents(st):
                problems.append('is_allowlisted: owner resolution no longer uses getmethodclass/getdefiningclass')
        elif src == 'inspect_utils.isnamedtuple(o)':
            out['tests'].append('namedtuple')
            inner = [s for s in st.body if isinstance(s, ast.If)]
            ok = False
            if len(inner) == 1 and ast.unparse(inner[0].test) == 'allow_namedtuple_subclass':
                sub_body, else_body = inner[0].body, inner[0].orelse
                g = [s for s in sub_body if isinstance(s, ast.If)]
                if len(g) == 1 and _returns_const(g[0].body, True) and \
                        ast.unparse(g[0].test) == 'not any((inspect_utils.isnamedtuple(base) for base in o.__bases__))' \
                        and _returns_const(else_body, True):
                    ok = True
            if not ok:
                problems.append('is_allowlisted: namedtuple branch changed')
                out['tests'][-1] = 'unresolved'
        else:
            problems.append('is_allowlisted: unrecognised test: ' + src[:80])
            out['tests'].append('unresolved')
    if not (body and _returns_const(body[-1:], False)):
        problems.append('is_allowlisted: does not end with `return False`')
        out['tests'].append('unresolved')
    return out


def _update_cache_arg(call, default):
    """update_cache argument of a `_call_unconverted(f, args, kwargs, options[, update_cache])` call."""
    if len(call.args) >= 5:
        a = call.args[4]
        return a.value if isinstance(a, ast.Constant) and isinstance(a.value, bool) else None
    for kw in call.keywords:
        if kw.arg == 'update_cache':
            return kw.value.value if isinstance(kw.value, ast.Constant) and isinstance(kw.value.value, bool) else None
    return default


def _forwarded_plainly(call, first='f'):
    """the call forwards (f, args, kwargs, options) unchanged"""
    return [ast.unparse(a) for a in call.args[:4]] == [first, 'args', 'kwargs', 'options']


def _handler_info(handler, problems, where):
    """except-handler of the two try blocks: strict-mode re-raise first, then fallback."""
    strict, fallback = False, False
    body = [s for s in handler.body if not _is_log(s)]
    seen_return = False
    for s in body:
        if isinstance(s, ast.If) and ast.unparse(s.test) == 'is_autograph_strict_conversion_mode()' \
                and len(s.body) == 1 and isinstance(s.body[0], ast.Raise) and s.body[0].exc is None and not seen_return:
            strict = True
        elif isinstance(s, ast.Return) and ast.unparse(s.value) == '_fall_back_unconverted(f, args, kwargs, options, e)':
            fallback = True
            seen_return = True
        else:
            problems.append('%s: unrecognised statement in except handler: %s' % (where, ast.unparse(s)[:80]))
    broad = handler.type is not None and ast.unparse(handler.type) == 'Exception' and handler.name == 'e'
    if not broad:
        problems.append('%s: handler is not `except Exception as e`' % where)
    return strict, fallback and broad


def _converted_call(tree, cu_default, problems):
    fn = _func(tree, 'converted_call')
    R = {'chain': [], 'user_requested_guard': None, 'partial': {}, 'builtin': {}, 'kind': {}, 'convert': {}, 'invoke': {}}
    if fn is None:
        problems.append('api.converted_call not found')
        R['chain'] = [('unresolved', False)]
        return R
    body = [s for s in _strip_doc(fn.body) if not _is_log(s)]
    # preamble: options defaulting from the caller scope
    if body and isinstance(body[0], ast.If) and ast.unparse(body[0].test) == 'options is None':
        body = body[1:]
    else:
        problems.append('converted_call: options preamble not recognised')

    def skip_step(name, st, first='f'):
        """an `if <test>: return _call_unconverted(...)` step"""
        inner = [s for s in st.body if not _is_log(s)]
        ok = len(inner) == 1 and isinstance(inner[0], ast.Return) and isinstance(inner[0].value, ast.Call) \
            and isinstance(inner[0].value.func, ast.Name) and inner[0].value.func.id == '_call_unconverted' \
            and _forwarded_plainly(inner[0].value, first)
        if not ok:
            problems.append('converted_call: branch `%s` is not a plain `return _call_unconverted(f, args, kwargs, options, …)`' % name)
            R['chain'].append(('unresolved', False))
            return
        upd = _update_cache_arg(inner[0].value, cu_default)
        if upd is None:
            problems.append('converted_call: update_cache of branch `%s` is not a literal' % name)
            R['chain'].append(('unresolved', False))
            return
        R['chain'].append((name, upd))

    seen_kind = False
    for st in body:
        if isinstance(st, ast.If):
            src = ast.unparse(st.test)
            if src == 'conversion.is_in_allowlist_cache(f, options)' and not st.orelse:
                skip_step('cacheHit', st)
            elif src == 'ag_ctx.control_status_ctx().status == ag_ctx.Status.DISABLED' and not st.orelse:
                skip_step('ctxDisabled', st)
            elif src == 'is_autograph_artifact(f)' and not st.orelse:
                skip_step('artifact', st)
            elif src == 'isinstance(f, functools.partial)' and not st.orelse:
                R['chain'].append(('partialUnwrap', False))
                R['partial'] = _partial_branch(st, problems)
            elif src == 'inspect_utils.isbuiltin(f)' and not st.orelse:
                R['chain'].append(('builtin', False))
                R['builtin'] = _builtin_branch(st, problems)
            elif src == 'conversion.is_unsupported(f)' and not st.orelse:
                skip_step('unsupported', st)
            elif src in ('not options.user_requested and conversion.is_allowlisted(f)', 'conversion.is_allowlisted(f)') and not st.orelse:
                R['user_requested_guard'] = src.startswith('not options.user_requested')
                skip_step('allowlisted', st)
            elif src == 'not options.internal_convert_user_code' and not st.orelse:
                skip_step('notInternal', st)
            elif src == "not hasattr(target_entity, '__code__')":
                if not seen_kind:
                    problems.append('converted_call: __code__ test precedes the target selection')
                skip_step('noCode', ast.If(test=st.test, body=st.body, orelse=[]))
                rest = st.orelse
                if rest:
                    if len(rest) == 1 and isinstance(rest[0], ast.If) and not rest[0].orelse and ast.unparse(rest[0].test) == \
                            "hasattr(target_entity.__code__, 'co_filename') and target_entity.__code__.co_filename == '<string>'":
                        skip_step('stringFile', rest[0])
                    else:
                        problems.append('converted_call: unrecognised elif after the __code__ test')
                        R['chain'].append(('unresolved', False))
            elif src == "hasattr(target_entity.__code__, 'co_filename') and target_entity.__code__.co_filename == '<string>'" and not st.orelse:
                skip_step('stringFile', st)
            else:
                problems.append('converted_call: unrecognised check: ' + src[:100])
                R['chain'].append(('unresolved', False))
        elif isinstance(st, ast.Try):
            ids = _idents(ast.Module(body=st.body, type_ignores=[]))
            if 'NotImplementedError' in ids and 'target_entity' in ids:
                seen_kind = True
                R['chain'].append(('kindDispatch', False))
                R['kind'] = _kind_branch(st, problems)
            elif '_convert_actual' in ids:
                R['chain'].append(('convert', False))
                if len(st.handlers) != 1 or st.orelse or st.finalbody:
                    problems.append('converted_call: conversion try block has an unexpected shape')
                    R['convert'] = {'strict': False, 'fallback': False}
                else:
                    s, f = _handler_info(st.handlers[0], problems, 'converted_call/convert')
                    R['convert'] = {'strict': s, 'fallback': f}
                tgt = [c for c in _calls(st, '_convert_actual')]
                if len(tgt) != 1 or ast.unparse(tgt[0].args[0]) != 'target_entity':
                    problems.append('converted_call: _convert_actual is not applied to target_entity')
            elif 'converted_f' in ids and 'effective_args' in ids:
                R['chain'].append(('invoke', False))
                R['invoke'] = _invoke_branch(st, problems)
            else:
                problems.append('converted_call: unrecognised try block')
                R['chain'].append(('unresolved', False))
        elif isinstance(st, ast.Return) and ast.unparse(st) == 'return result':
            continue
        else:
            problems.append('converted_call: unrecognised statement: ' + ast.unparse(st)[:80])
            R['chain'].append(('unresolved', False))
    return R


def _partial_branch(st, problems):
    """new_kwargs = {} ; if f.keywords is not None: new_kwargs = f.keywords.copy() ; if kwargs is not None:
    new_kwargs.update(kwargs) ; new_args = f.args + args ; return converted_call(f.func, new_args, new_kwargs, …)"""
    P = {'kw_base': 'unresolved', 'kw_update': 'unresolved', 'args_first': 'unresolved', 'args_second': 'unresolved',
         'recurses_on_func': False}
    body = [s for s in st.body if not _is_log(s)]
    srcs = [ast.unparse(s) for s in body]
    base, updates = 'unresolved', []
    for s in body:
        u = ast.unparse(s)
        if u == 'new_kwargs = {}':
            base = 'empty'
        elif isinstance(s, ast.If) and ast.unparse(s.test) == 'f.keywords is not None' and len(s.body) == 1 and not s.orelse:
            b = ast.unparse(s.body[0])
            if b in ('new_kwargs = f.keywords.copy()', 'new_kwargs = dict(f.keywords)'):
                base = 'stored'
            elif b == 'new_kwargs.update(f.keywords)':
                updates.append('stored')
            else:
                problems.append('partial branch: unrecognised use of f.keywords: ' + b)
                base = 'unresolved'
        elif isinstance(s, ast.If) and ast.unparse(s.test) == 'kwargs is not None' and len(s.body) == 1 and not s.orelse:
            b = ast.unparse(s.body[0])
            if b == 'new_kwargs.update(kwargs)':
                updates.append('callsite')
            elif b in ('new_kwargs = kwargs.copy()', 'new_kwargs = dict(kwargs)'):
                base = 'callsite'; updates = []
            else:
                problems.append('partial branch: unrecognised use of kwargs: ' + b)
                base = 'unresolved'
        elif isinstance(s, ast.Assign) and ast.unparse(s.targets[0]) == 'new_args':
            v = s.value
            m = {'f.args': 'stored', 'args': 'callsite'}
            if isinstance(v, ast.BinOp) and isinstance(v.op, ast.Add) and ast.unparse(v.left) in m and ast.unparse(v.right) in m:
                P['args_first'], P['args_second'] = m[ast.unparse(v.left)], m[ast.unparse(v.right)]
            elif ast.unparse(v) in m:
                P['args_first'], P['args_second'] = m[ast.unparse(v)], 'empty'
            else:
                problems.append('partial branch: unrecognised new_args: ' + ast.unparse(v))
        elif isinstance(s, ast.Return):
            c = s.value
            if isinstance(c, ast.Call) and ast.unparse(c.func) == 'converted_call' and \
                    [ast.unparse(a) for a in c.args] == ['f.func', 'new_args', 'new_kwargs'] and \
                    sorted((k.arg, ast.unparse(k.value)) for k in c.keywords) == [('caller_fn_scope', 'caller_fn_scope'), ('options', 'options')]:
                P['recurses_on_func'] = True
            else:
                problems.append('partial branch: unrecognised forwarding call: ' + ast.unparse(s)[:100])
        else:
            problems.append('partial branch: unrecognised statement: ' + u[:80])
    P['kw_base'] = base
    P['kw_update'] = updates[0] if len(updates) == 1 else ('empty' if not updates else 'unresolved')
    if len(updates) > 1:
        problems.append('partial branch: more than one update of new_kwargs')
    for k in ('kw_base', 'kw_update', 'args_first', 'args_second'):
        if P[k] == 'unresolved':
            problems.append('partial branch: %s unresolved' % k)
    return P


def _builtin_branch(st, problems):
    B = {'specials': [], 'truthy_guard': False, 'uses_overload': False}
    body = [s for s in st.body if not _is_log(s)]
    for s in body:
        if isinstance(s, ast.If) and isinstance(s.test, ast.Compare) and len(s.test.ops) == 1 and isinstance(s.test.ops[0], ast.Is) \
                and ast.unparse(s.test.left) == 'f' and isinstance(s.test.comparators[0], ast.Name):
            B['specials'].append(s.test.comparators[0].id)
        elif isinstance(s, ast.If) and ast.unparse(s.test) == 'kwargs' and len(s.body) == 1 and len(s.orelse) == 1:
            a, b = ast.unparse(s.body[0]), ast.unparse(s.orelse[0])
            if a == 'return py_builtins.overload_of(f)(*args, **kwargs)' and b == 'return py_builtins.overload_of(f)(*args)':
                B['truthy_guard'] = True
                B['uses_overload'] = True
            else:
                problems.append('builtin branch: unrecognised dispatch: %s / %s' % (a, b))
        else:
            problems.append('builtin branch: unrecognised statement: ' + ast.unparse(s)[:80])
    if not B['uses_overload']:
        problems.append('builtin branch: overload dispatch not recognised')
    return B


def _kind_branch(st, problems):
    K = {'fn_or_method': False, 'self_prepended': False, 'callable_obj': False, 'obj_prepended': False, 'else_raises': False,
         'strict': False, 'fallback': False}
    if len(st.body) == 1 and isinstance(st.body[0], ast.If):
        i = st.body[0]
        if ast.unparse(i.test) == 'inspect.ismethod(f) or inspect.isfunction(f)':
            srcs = [ast.unparse(s) for s in i.body]
            K['fn_or_method'] = 'target_entity = f' in srcs and 'effective_args = args' in srcs
            K['self_prepended'] = "f_self = getattr(f, '__self__', None)" in srcs and \
                'if f_self is not None:\n    effective_args = (f_self,) + effective_args' in srcs
        if len(i.orelse) == 1 and isinstance(i.orelse[0], ast.If):
            j = i.orelse[0]
            if ast.unparse(j.test) == "hasattr(f, '__class__') and hasattr(f.__class__, '__call__')":
                srcs = [ast.unparse(s) for s in j.body]
                K['callable_obj'] = 'target_entity = f.__class__.__call__' in srcs
                K['obj_prepended'] = 'effective_args = (f,) + args' in srcs
            K['else_raises'] = any(isinstance(s, ast.Raise) and 'NotImplementedError' in ast.unparse(s) for s in j.orelse)
    if len(st.handlers) == 1 and not st.orelse and not st.finalbody:
        K['strict'], K['fallback'] = _handler_info(st.handlers[0], problems, 'converted_call/target selection')
    for k, v in K.items():
        if not v and k not in ('strict',):
            problems.append('target selection: `%s` not recognised' % k)
    return K


def _invoke_branch(st, problems):
    V = {'none_guard': False}
    if len(st.body) == 1 and isinstance(st.body[0], ast.If) and ast.unparse(st.body[0].test) == 'kwargs is not None':
        a = ast.unparse(st.body[0].body[0]) if len(st.body[0].body) == 1 else ''
        b = ast.unparse(st.body[0].orelse[0]) if len(st.body[0].orelse) == 1 else ''
        if a == 'result = converted_f(*effective_args, **kwargs)' and b == 'result = converted_f(*effective_args)':
            V['none_guard'] = True
    if not V['none_guard']:
        problems.append('invoke: call of converted_f not recognised')
    ok = len(st.handlers) == 1 and any(isinstance(s, ast.Raise) and s.exc is None for s in st.handlers[0].body)
    if not ok:
        problems.append('invoke: errors of the converted function are not re-raised')
    return V


def _call_unconverted(tree, problems):
    fn = _func(tree, '_call_unconverted')
    C = {'default_update': None, 'updates_when_flag': False, 'none_guard': False}
    if fn is None:
        problems.append('api._call_unconverted not found')
        return C
    names = [a.arg for a in fn.args.args]
    if names != ['f', 'args', 'kwargs', 'options', 'update_cache'] or len(fn.args.defaults) != 1 \
            or not isinstance(fn.args.defaults[0], ast.Constant) or not isinstance(fn.args.defaults[0].value, bool):
        problems.append('_call_unconverted: signature changed')
    else:
        C['default_update'] = fn.args.defaults[0].value
    body = _strip_doc(fn.body)
    srcs = [ast.unparse(s) for s in body]
    C['updates_when_flag'] = 'if update_cache:\n    conversion.cache_allowlisted(f, options)' in srcs
    C['none_guard'] = 'if kwargs is not None:\n    return f(*args, **kwargs)' in srcs and srcs[-1] == 'return f(*args)'
    if len(body) != 3:
        problems.append('_call_unconverted: unexpected statements')
    if not C['updates_when_flag']:
        problems.append('_call_unconverted: cache update not recognised')
    if not C['none_guard']:
        problems.append('_call_unconverted: forwarding of args/kwargs not recognised')
    return C


def _fall_back(tree, cu_default, problems):
    fn = _func(tree, '_fall_back_unconverted')
    F = {'inaccessible': 'unresolved', 'unsupported': 'unresolved', 'other': 'unresolved', 'update': None}
    if fn is None:
        problems.append('api._fall_back_unconverted not found')
        return F
    body = [s for s in _strip_doc(fn.body)]

    def warn_cond(stmts):
        stmts = [s for s in stmts if not (isinstance(s, ast.Assign))]
        if len(stmts) == 1 and _is_log(stmts[0]) and stmts[0].value.func.attr == 'warning':
            return 'always'
        if len(stmts) == 1 and isinstance(stmts[0], ast.If) and not stmts[0].orelse and len(stmts[0].body) == 1 \
                and _is_log(stmts[0].body[0]) and stmts[0].body[0].value.func.attr == 'warning':
            t = ast.unparse(stmts[0].test)
            if t == 'ag_ctx.INSPECT_SOURCE_SUPPORTED':
                return 'ifInspectSupported'
            if t == 'not conversion.is_in_allowlist_cache(f, options)':
                return 'ifNotCached'
        if not stmts:
            return 'never'
        return 'unresolved'
    for s in body:
        if isinstance(s, ast.If) and 'isinstance(exc, errors.InaccessibleSourceCodeError)' == ast.unparse(s.test):
            F['inaccessible'] = warn_cond(s.body)
            rest = s.orelse
            if len(rest) == 1 and isinstance(rest[0], ast.If) and ast.unparse(rest[0].test) == 'isinstance(exc, errors.UnsupportedLanguageElementError)':
                F['unsupported'] = warn_cond(rest[0].body)
                F['other'] = warn_cond(rest[0].orelse)
        elif isinstance(s, ast.Return):
            c = s.value
            if isinstance(c, ast.Call) and ast.unparse(c.func) == '_call_unconverted' and _forwarded_plainly(c):
                F['update'] = _update_cache_arg(c, cu_default)
    for k in ('inaccessible', 'unsupported', 'other'):
        if F[k] == 'unresolved':
            problems.append('_fall_back_unconverted: warning condition for %s errors not recognised' % k)
    if F['update'] is None:
        problems.append('_fall_back_unconverted: final _call_unconverted not recognised')
    return F


def _cache_helpers(tree, problems):
    """is_in_allowlist_cache / cache_allowlisted: keyed by (entity, options); TypeError swallowed."""
    ok = True
    a = _func(tree, 'is_in_allowlist_cache')
    b = _func(tree, 'cache_allowlisted')
    if a is None or 'return _ALLOWLIST_CACHE.has(entity, options)' not in ast.unparse(a):
        ok = False
    if b is None or '_ALLOWLIST_CACHE[entity][options] = True' not in ast.unparse(b):
        ok = False
    if not ok:
        problems.append('conversion: negative-cache helpers not recognised')
    swallow = all(f is not None and any(isinstance(n, ast.ExceptHandler) and n.type is not None and ast.unparse(n.type) == 'TypeError'
                                        for n in ast.walk(f)) for f in (a, b))
    return ok, swallow


def _cache_key(problems):
    """pyct/cache.py UnboundInstanceCache._get_key: a bound method is keyed by its __func__ (the receiver is dropped)."""
    tree = ast.parse(_read('malt/pyct/cache.py'))
    c = _cls(tree, 'UnboundInstanceCache')
    if c is not None:
        for st in c.body:
            if isinstance(st, ast.FunctionDef) and st.name == '_get_key':
                body = [ast.unparse(x) for x in _strip_doc(st.body)]
                if body == ['if inspect.ismethod(entity):\n    return entity.__func__', 'return entity']:
                    return True
                if body == ['return entity']:
                    return False
    problems.append('cache.UnboundInstanceCache._get_key has an unrecognised shape')
    return False


def _allowlist_cache_class(ctree, problems):
    """conversion.py: `_ALLOWLIST_CACHE = cache.<Class>()` — which cache class keys the remembered verdicts;
    pyct/cache.py CodeObjectCache._get_key must be the code-object rule when that class is used."""
    kind = 'unresolved'
    for n in ctree.body:
        if isinstance(n, ast.Assign) and len(n.targets) == 1 and isinstance(n.targets[0], ast.Name) and n.targets[0].id == '_ALLOWLIST_CACHE':
            src = ast.unparse(n.value)
            kind = {'cache.UnboundInstanceCache()': 'unboundInstance', 'cache.CodeObjectCache()': 'codeObject'}.get(src, 'unresolved')
    if kind == 'unresolved':
        problems.append('conversion._ALLOWLIST_CACHE: cache class not recognised')
    if kind == 'codeObject':
        tree = ast.parse(_read('malt/pyct/cache.py'))
        c = _cls(tree, 'CodeObjectCache')
        ok = False
        if c is not None:
            for st in c.body:
                if isinstance(st, ast.FunctionDef) and st.name == '_get_key':
                    body = [ast.unparse(x) for x in _strip_doc(st.body)]
                    ok = body == ["if hasattr(entity, '__code__'):\n    return entity.__code__\nelse:\n    return entity"]
        if not ok:
            problems.append('cache.CodeObjectCache._get_key has an unrecognised shape')
            kind = 'unresolved'
    return kind


def _ctx_storage(problems):
    """core/ag_ctx.py: where the conversion-status stack lives.  Recognised shape: a plain module-level `threading.local()`
    instance whose `control_status` attribute is created lazily PER THREAD by `_control_ctx`; `control_status_ctx()` reads the
    top of the calling thread's stack; ControlStatusCtx pushes on enter and pops on exit."""
    tree = ast.parse(_read('malt/core/ag_ctx.py'))
    ok_local = any(isinstance(n, ast.Assign) and ast.unparse(n) == 'stacks = threading.local()' for n in tree.body)
    cc = _func(tree, '_control_ctx')
    ok_lazy = cc is not None and [ast.unparse(x) for x in _strip_doc(cc.body)] == [
        "if not hasattr(stacks, 'control_status'):\n    stacks.control_status = [_default_control_status_ctx()]",
        'return stacks.control_status']
    cur = _func(tree, 'control_status_ctx')
    ok_top = cur is not None and [ast.unparse(x) for x in _strip_doc(cur.body)] == ['ret = _control_ctx()[-1]', 'return ret']
    dflt = _func(tree, '_default_control_status_ctx')
    ok_default = dflt is not None and [ast.unparse(x) for x in _strip_doc(dflt.body)] == ['return ControlStatusCtx(status=Status.UNSPECIFIED)']
    c = _cls(tree, 'ControlStatusCtx')
    ok_push = ok_pop = False
    if c is not None:
        for st in c.body:
            if isinstance(st, ast.FunctionDef) and st.name == '__enter__':
                ok_push = [ast.unparse(x) for x in st.body] == ['_control_ctx().append(self)', 'return self']
            if isinstance(st, ast.FunctionDef) and st.name == '__exit__':
                ok_pop = [ast.unparse(x) for x in st.body] == ['assert _control_ctx()[-1] is self', '_control_ctx().pop()']
    for ok, what in ((ok_local, '`stacks` is not a plain module-level threading.local() instance'),
                     (ok_lazy, '_control_ctx does not create the stack lazily per thread'),
                     (ok_top, 'control_status_ctx does not read the top of the stack'),
                     (ok_default, 'the default context is not UNSPECIFIED'),
                     (ok_push and ok_pop, 'ControlStatusCtx.__enter__/__exit__ are not push/pop')):
        if not ok:
            problems.append('ag_ctx: ' + what)
    return ('threadLocalLazy' if (ok_local and ok_lazy and ok_top and ok_push and ok_pop) else 'unresolved'), ok_default


def _strict(tree, problems):
    fn = _func(tree, 'is_autograph_strict_conversion_mode')
    want = "return int(os.environ.get('AUTOGRAPH_STRICT_CONVERSION', '0')) > 0"
    if fn is None or [ast.unparse(s) for s in _strip_doc(fn.body)] != [want]:
        problems.append('is_autograph_strict_conversion_mode: unrecognised definition')
        return 'unresolved'
    return 'AUTOGRAPH_STRICT_CONVERSION'


def _artifact(tree, problems):
    fn = _func(tree, 'is_autograph_artifact')
    want = "return hasattr(entity, 'autograph_info__')"
    if fn is None or [ast.unparse(s) for s in _strip_doc(fn.body)] != [want]:
        problems.append('is_autograph_artifact: unrecognised definition')
        return False
    return True


CHECKS = ['cacheHit', 'ctxDisabled', 'artifact', 'partialUnwrap', 'builtin', 'unsupported', 'allowlisted', 'notInternal',
          'kindDispatch', 'noCode', 'stringFile', 'convert', 'invoke', 'unresolved']


def gen_policy(problems):
    rules = _rules(problems)
    match_kind, actions = _rule_semantics(problems)
    ctree = ast.parse(_read('malt/impl/conversion.py'))
    atree = ast.parse(_read('malt/impl/api.py'))
    unsup, known_modules = _unsupported(ctree, problems)
    allow = _allowlisted(ctree, problems)
    cu = _call_unconverted(atree, problems)
    cu_default = cu['default_update']
    cc = _converted_call(atree, cu_default, problems)
    fb = _fall_back(atree, cu_default, problems)
    cache_ok, cache_swallow = _cache_helpers(ctree, problems)
    strict_var = _strict(atree, problems)
    artifact_ok = _artifact(atree, problems)
    key_drops_receiver = _cache_key(problems)
    cache_class = _allowlist_cache_class(ctree, problems)
    ctx_storage, ctx_default_unspecified = _ctx_storage(problems)

    # the rule kind an entry of CONVERSION_RULES *acts as* (class -> action returned by get_action)
    def acts_as(kind):
        if kind == 'convert':
            return actions['Convert']
        if kind == 'doNotConvert':
            return actions['DoNotConvert']
        return 'unresolved'

    def optb(v):
        return 'none' if v is None else 'some ' + _b(v)

    L = []
    A = L.append
    A('/- GENERATED by tools/extract.py (extract_policy.py) from malt/core/config.py, malt/core/config_lib.py,')
    A('   malt/impl/conversion.py and malt/impl/api.py — do not edit. -/')
    A('namespace Malt.Gen.Policy')
    A('')
    A('/-- What a rule of `CONVERSION_RULES` does when it matches (the `Action` its `get_action` returns). -/')
    A('inductive RuleKind where')
    A('  | convert | doNotConvert | unresolved')
    A('  deriving DecidableEq, Repr, Inhabited')
    A('')
    A('/-- One entry of `config.CONVERSION_RULES`; the module prefix is split at the dots. -/')
    A('structure Rule where')
    A('  kind : RuleKind')
    A('  pfx : List String')
    A('  deriving DecidableEq, Repr')
    A('')
    A('/-- `config.CONVERSION_RULES`, in source order. -/')
    A('def conversionRules : List Rule := [')
    for i, (k, p) in enumerate(rules):
        comps = '[' + ', '.join(_lean_str(c) for c in p.split('.')) + ']'
        A('  ⟨.%s, %s⟩%s' % (acts_as(k), comps, ',' if i + 1 < len(rules) else ''))
    A(']')
    A('')
    A('/-- `config_lib.Rule.matches`: `name.startswith(prefix + \'.\') or name == prefix`. -/')
    A('inductive MatchKind where')
    A('  | equalOrDottedPrefix | unresolved')
    A('  deriving DecidableEq, Repr')
    A('def ruleMatch : MatchKind := .%s' % match_kind)
    A('')
    A('/-- What `is_allowlisted` returns when a rule with the given action matches (`none` = not recognised). -/')
    A('def allowOnConvert : Option Bool := %s' % optb(allow['convert_result']))
    A('def allowOnDoNotConvert : Option Bool := %s' % optb(allow['donot_result']))
    A('')
    A('/-- The checks of `api.converted_call`, named after what they test. -/')
    A('inductive Check where')
    A('  | ' + ' | '.join(CHECKS))
    A('  deriving DecidableEq, Repr, Inhabited')
    A('')
    A('/-- One top-level step of `converted_call`; `updateCache` is the `update_cache` argument of the')
    A('`_call_unconverted` call in that branch (meaningless for steps that do not call it). -/')
    A('structure Step where')
    A('  check : Check')
    A('  updateCache : Bool')
    A('  deriving DecidableEq, Repr')
    A('')
    A('/-- Top-level statements of `converted_call` after the options preamble, in source order. -/')
    A('def chain : List Step := [')
    for i, (c, u) in enumerate(cc['chain']):
        A('  ⟨.%s, %s⟩%s' % (c, _b(u), ',' if i + 1 < len(cc['chain']) else ''))
    A(']')
    A('')
    A('/-- Is the allow-list test guarded by `not options.user_requested`? -/')
    A('def allowlistSkippedWhenUserRequested : Bool := %s' % _b(bool(cc['user_requested_guard'])))
    A('')
    A('/-- The tests of `conversion.is_unsupported`, in source order; each returns True when it holds. -/')
    A('inductive UnsupTest where')
    A('  | wrapt | lruCache | constructor | knownModule | tfPlugin | unresolved')
    A('  deriving DecidableEq, Repr')
    A('structure UnsupStep where')
    A('  test : UnsupTest')
    A('  warns : Bool')
    A('  deriving DecidableEq, Repr')
    A('def unsupportedTests : List UnsupStep := [' + ', '.join('⟨.%s, %s⟩' % (t, _b(w)) for t, w in unsup) + ']')
    A('def knownLoadedModules : List String := [' + ', '.join(_lean_str(m) for m in known_modules) + ']')
    A('')
    A('/-- The tests of `conversion.is_allowlisted`, in source order. -/')
    A('inductive AllowTest where')
    A('  | moduleRules | generator | callOverride | methodOwner | namedtuple | unresolved')
    A('  deriving DecidableEq, Repr')
    A('def allowTests : List AllowTest := [' + ', '.join('.' + t for t in allow['tests']) + ']')
    d = allow['defaults']
    A('/-- Defaults of `is_allowlisted(o, check_call_override, allow_namedtuple_subclass)` and the values passed by')
    A('its two recursive calls (on `o.__call__` and on the class that defines a method). -/')
    A('def allowDefaultCheckCall : Bool := %s' % _b(d.get('check_call_override', True)))
    A('def allowDefaultNamedtupleSub : Bool := %s' % _b(d.get('allow_namedtuple_subclass', False)))
    A('def callRecCheckCall : Bool := %s' % _b(allow['call_kw'].get('check_call_override', True)))
    A('def callRecNamedtupleSub : Bool := %s' % _b(allow['call_kw'].get('allow_namedtuple_subclass', False)))
    A('def ownerRecCheckCall : Bool := %s' % _b(allow['owner_kw'].get('check_call_override', True)))
    A('def ownerRecNamedtupleSub : Bool := %s' % _b(allow['owner_kw'].get('allow_namedtuple_subclass', False)))
    A('def methodsOfTestCaseAllowed : Bool := %s' % _b(allow['testcase']))
    A('')
    A('/-- Where a piece of the merged call of a `functools.partial` comes from. -/')
    A('inductive Src where')
    A('  | stored | callsite | empty | unresolved')
    A('  deriving DecidableEq, Repr')
    P = cc['partial'] or {'kw_base': 'unresolved', 'kw_update': 'unresolved', 'args_first': 'unresolved', 'args_second': 'unresolved', 'recurses_on_func': False}
    A('/-- partial branch: `new_kwargs = <base>.copy(); new_kwargs.update(<update>); new_args = <first> + <second>`. -/')
    A('def partialKwBase : Src := .%s' % P['kw_base'])
    A('def partialKwUpdate : Src := .%s' % P['kw_update'])
    A('def partialArgsFirst : Src := .%s' % P['args_first'])
    A('def partialArgsSecond : Src := .%s' % P['args_second'])
    A('def partialRecursesOnFunc : Bool := %s' % _b(P['recurses_on_func']))
    A('')
    B = cc['builtin'] or {'specials': [], 'truthy_guard': False, 'uses_overload': False}
    A('/-- builtin branch: builtins evaluated in the caller\'s frame, then `overload_of(f)(*args[, **kwargs])`. -/')
    A('def builtinSpecials : List String := [' + ', '.join(_lean_str(s) for s in B['specials']) + ']')
    A('def builtinKwargsOnlyWhenTruthy : Bool := %s' % _b(B['truthy_guard']))
    A('def builtinUsesOverload : Bool := %s' % _b(B['uses_overload']))
    A('')
    K = cc['kind'] or {}
    A('/-- target selection: functions/methods are converted themselves with `__self__` prepended; other objects')
    A('through `type(f).__call__` with the object prepended; anything else raises NotImplementedError. -/')
    A('def kindSelfPrepended : Bool := %s' % _b(K.get('self_prepended', False) and K.get('fn_or_method', False)))
    A('def kindObjectPrepended : Bool := %s' % _b(K.get('obj_prepended', False) and K.get('callable_obj', False)))
    A('def kindElseRaises : Bool := %s' % _b(K.get('else_raises', False)))
    A('def kindStrictReraises : Bool := %s' % _b(K.get('strict', False)))
    A('def kindFallsBack : Bool := %s' % _b(K.get('fallback', False)))
    A('')
    CV = cc['convert'] or {}
    A('/-- conversion try block: `except Exception`: strict mode re-raises, otherwise `_fall_back_unconverted`. -/')
    A('def convertStrictReraises : Bool := %s' % _b(CV.get('strict', False)))
    A('def convertFallsBack : Bool := %s' % _b(CV.get('fallback', False)))
    A('def strictEnvVar : String := %s' % _lean_str(strict_var))
    A('')
    A('/-- `converted_f(*effective_args, **kwargs)` with `kwargs is None` handled. -/')
    A('def invokeHandlesNoneKwargs : Bool := %s' % _b((cc['invoke'] or {}).get('none_guard', False)))
    A('')
    A('/-- `_call_unconverted`: default of `update_cache`, `cache_allowlisted` under the flag, `kwargs is None` handled. -/')
    A('def callUnconvertedDefaultUpdate : Bool := %s' % _b(bool(cu['default_update'])))
    A('def callUnconvertedUpdatesCache : Bool := %s' % _b(cu['updates_when_flag']))
    A('def callUnconvertedHandlesNoneKwargs : Bool := %s' % _b(cu['none_guard']))
    A('')
    A('/-- When `_fall_back_unconverted` emits its warning, per class of the conversion error. -/')
    A('inductive WarnCond where')
    A('  | always | ifInspectSupported | ifNotCached | never | unresolved')
    A('  deriving DecidableEq, Repr')
    A('def fallbackWarnInaccessibleSource : WarnCond := .%s' % fb['inaccessible'])
    A('def fallbackWarnUnsupportedElement : WarnCond := .%s' % fb['unsupported'])
    A('def fallbackWarnOther : WarnCond := .%s' % fb['other'])
    A('def fallbackUpdatesCache : Bool := %s' % _b(bool(fb['update'])))
    A('')
    A('/-- negative cache helpers recognised: keyed by (entity, options); TypeError (unhashable / no weakref) swallowed. -/')
    A('def cacheKeyedByEntityAndOptions : Bool := %s' % _b(cache_ok))
    A('def cacheSwallowsTypeError : Bool := %s' % _b(cache_swallow))
    A('def artifactIsAttributeTest : Bool := %s' % _b(artifact_ok))
    A('/-- `UnboundInstanceCache._get_key`: a bound method is keyed by its `__func__`. -/')
    A('def cacheKeyDropsReceiver : Bool := %s' % _b(key_drops_receiver))
    A('/-- The cache class of `conversion._ALLOWLIST_CACHE` (what a remembered verdict is keyed by). -/')
    A('inductive CacheKind where')
    A('  | unboundInstance | codeObject | unresolved')
    A('  deriving DecidableEq, Repr')
    A('def allowlistCacheKind : CacheKind := .%s' % cache_class)
    A('/-- Where `ag_ctx` keeps the conversion-status stack: a plain `threading.local()` instance whose stack is created lazily')
    A('per thread (each thread has its own stack, starting with the default context), or something not recognised. -/')
    A('inductive CtxStorage where')
    A('  | threadLocalLazy | unresolved')
    A('  deriving DecidableEq, Repr')
    A('def ctxStorage : CtxStorage := .%s' % ctx_storage)
    A('def ctxDefaultIsUnspecified : Bool := %s' % _b(ctx_default_unspecified))
    A('')
    A('end Malt.Gen.Policy')
    return '\n'.join(L) + '\n'
