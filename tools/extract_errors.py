"""Translator part for C12: error_utils.KNOWN_STRING_CONSTRUCTOR_ERRORS, the malt error classes
api._ErrorMetadata.create_exception passes through, and the shape of the create_exception decision
chain -> lean/MaltModel/Generated/Errors.lean.   Reads the sources with `ast` only."""
import ast, os

REPO = os.environ.get('MALT_REPO', '/repo')


def _read(rel):
    with open(os.path.join(REPO, rel)) as f:
        return f.read()


def _lean_str(s):
    return '"' + s.replace('\\', '\\\\').replace('"', '\\"').replace('\n', '\\n') + '"'


def _name_of(node):
    """`X` or `mod.X` -> 'X'."""
    if isinstance(node, ast.Name):
        return node.id
    if isinstance(node, ast.Attribute):
        return node.attr
    return None


def _find_method(tree, cls, meth):
    for node in tree.body:
        if isinstance(node, ast.ClassDef) and node.name == cls:
            for st in node.body:
                if isinstance(st, ast.FunctionDef) and st.name == meth:
                    return st
    return None


def gen_errors(problems):
    eu = ast.parse(_read('malt/pyct/error_utils.py'))
    api = ast.parse(_read('malt/impl/api.py'))
    known = None
    for node in eu.body:
        if isinstance(node, ast.Assign) and len(node.targets) == 1 and isinstance(node.targets[0], ast.Name) \
                and node.targets[0].id == 'KNOWN_STRING_CONSTRUCTOR_ERRORS':
            if isinstance(node.value, (ast.Tuple, ast.List, ast.Set)):
                known = [_name_of(e) for e in node.value.elts]
                if None in known:
                    problems.append('KNOWN_STRING_CONSTRUCTOR_ERRORS has a non-name element')
                    known = [k for k in known if k]
            else:
                problems.append('KNOWN_STRING_CONSTRUCTOR_ERRORS is not a literal tuple')
    if known is None:
        problems.append('KNOWN_STRING_CONSTRUCTOR_ERRORS not found')
        known = []

    # api._ErrorMetadata.create_exception: `if preferred_type in (A, B, ...): return preferred_type(msg)`
    passthrough = None
    fallback = None
    ce = _find_method(api, '_ErrorMetadata', 'create_exception')
    if ce is None:
        problems.append('api._ErrorMetadata.create_exception not found')
    else:
        for st in ast.walk(ce):
            if isinstance(st, ast.If) and isinstance(st.test, ast.Compare) and len(st.test.ops) == 1 \
                    and isinstance(st.test.ops[0], ast.In) and isinstance(st.test.comparators[0], ast.Tuple):
                passthrough = [_name_of(e) for e in st.test.comparators[0].elts]
        rets = [st for st in ce.body if isinstance(st, ast.Return)]
        if rets and isinstance(rets[-1].value, ast.Call):
            fallback = _name_of(rets[-1].value.func)
    if passthrough is None:
        problems.append('pass-through tuple of api._ErrorMetadata.create_exception not found')
        passthrough = []
    if fallback is None:
        problems.append('fallback type of api._ErrorMetadata.create_exception not found')
        fallback = 'unresolved'

    # error_utils.ErrorMetadataBase.create_exception: the order of the tests, as a list of tags
    base = _find_method(eu, 'ErrorMetadataBase', 'create_exception')
    chain = []
    if base is None:
        problems.append('error_utils.ErrorMetadataBase.create_exception not found')
    else:
        def tag(test):
            if isinstance(test, ast.Compare) and len(test.ops) == 1:
                op, l, r = test.ops[0], test.left, test.comparators[0]
                if isinstance(op, ast.Is) and isinstance(l, ast.Attribute) and l.attr == '__init__' \
                        and isinstance(r, ast.Attribute) and r.attr == '__init__' and _name_of(r.value) == 'Exception':
                    return 'initIsExceptionInit'
                if isinstance(op, ast.In) and _name_of(r) == 'KNOWN_STRING_CONSTRUCTOR_ERRORS':
                    return 'inKnown'
                if isinstance(op, ast.Is) and _name_of(r) == 'KeyError':
                    return 'isKeyError'
            return 'unresolved'
        for st in base.body:
            if isinstance(st, ast.If):
                cur, first = st, True
                while True:
                    chain.append(('if' if first else 'elif', tag(cur.test)))
                    first = False
                    if len(cur.orelse) == 1 and isinstance(cur.orelse[0], ast.If):
                        cur = cur.orelse[0]
                    else:
                        break
    expected_chain = [('if', 'initIsExceptionInit'), ('if', 'inKnown'), ('elif', 'isKeyError'), ('if', 'unresolved')]
    chain_ok = chain == expected_chain
    if not chain_ok:
        problems.append('ErrorMetadataBase.create_exception no longer has the modelled shape: %r' % (chain,))

    # the slice `[1:]` of the traceback handed to the metadata in api._attach_error_metadata
    dropped = None
    for node in api.body:
        if isinstance(node, ast.FunctionDef) and node.name == '_attach_error_metadata':
            for st in ast.walk(node):
                if isinstance(st, ast.Assign) and isinstance(st.value, ast.Subscript) and isinstance(st.value.slice, ast.Slice):
                    sl = st.value.slice
                    if sl.upper is None and sl.step is None and isinstance(sl.lower, ast.Constant):
                        dropped = sl.lower.value
    if dropped is None:
        problems.append('traceback slice in api._attach_error_metadata not found')
        dropped = 0

    # does ErrorMetadataBase.to_exception flag the re-created exception with `ag_pass_through`?  does
    # api._attach_error_metadata honour that flag (`if hasattr(e, 'ag_pass_through'): return`)?
    te = _find_method(eu, 'ErrorMetadataBase', 'to_exception')
    sets_pass = None
    if te is None:
        problems.append('error_utils.ErrorMetadataBase.to_exception not found')
    else:
        sets_pass = False
        attrs_set = []
        for st in ast.walk(te):
            if isinstance(st, (ast.Assign, ast.AugAssign, ast.AnnAssign)):
                tg = st.targets if isinstance(st, ast.Assign) else [st.target]
                for t in tg:
                    if isinstance(t, ast.Attribute):
                        attrs_set.append(t.attr)
            if isinstance(st, ast.Call) and _name_of(st.func) == 'setattr' and len(st.args) >= 2 and isinstance(st.args[1], ast.Constant):
                attrs_set.append(st.args[1].value)
        sets_pass = 'ag_pass_through' in attrs_set
        unknown = [a for a in attrs_set if a not in ('__suppress_context__', 'ag_error_metadata', 'ag_pass_through')]
        if unknown:
            problems.append('ErrorMetadataBase.to_exception sets attributes the model does not know: %r' % unknown)
    honours = False
    for node in api.body:
        if isinstance(node, ast.FunctionDef) and node.name == '_attach_error_metadata':
            for st in node.body:
                if isinstance(st, ast.If) and isinstance(st.test, ast.Call) and _name_of(st.test.func) == 'hasattr' \
                        and len(st.test.args) == 2 and isinstance(st.test.args[1], ast.Constant) \
                        and st.test.args[1].value == 'ag_pass_through' and len(st.body) == 1 and isinstance(st.body[0], ast.Return):
                    honours = True

    # the test by which _stack_trace_inside_mapped_code recognises the converter module's own frames
    full_path = False
    for node in eu.body:
        if isinstance(node, ast.FunctionDef) and node.name == '_stack_trace_inside_mapped_code':
            tests = [st.test for st in ast.walk(node) if isinstance(st, ast.If)
                     and any(isinstance(n, ast.Name) and n.id == 'converter_filename' for n in ast.walk(st.test))]
            if len(tests) == 1:
                t = tests[0]
                if isinstance(t, ast.Compare) and len(t.ops) == 1 and isinstance(t.ops[0], ast.Eq) \
                        and isinstance(t.left, ast.Name) and isinstance(t.comparators[0], ast.Name) \
                        and {t.left.id, t.comparators[0].id} == {'filename', 'converter_filename'}:
                    full_path = True
    if not full_path:
        problems.append('_stack_trace_inside_mapped_code no longer recognises converter frames by `filename == converter_filename`')

    L = []
    L.append('/- GENERATED by tools/extract.py (extract_errors.py) from malt/pyct/error_utils.py and malt/impl/api.py — do not edit. -/')
    L.append('namespace Malt.Gen.Errors')
    L.append('')
    L.append('/-- `error_utils.KNOWN_STRING_CONSTRUCTOR_ERRORS` (builtin exception type names, in source order). -/')
    L.append('def knownStringConstructorErrors : List String := [' + ', '.join(_lean_str(k) for k in known) + ']')
    L.append('')
    L.append('/-- Types `api._ErrorMetadata.create_exception` re-creates as themselves before consulting the base class. -/')
    L.append('def maltPassThroughErrors : List String := [' + ', '.join(_lean_str(k) for k in passthrough) + ']')
    L.append('')
    L.append('/-- The type `api._ErrorMetadata.create_exception` falls back to. -/')
    L.append('def fallbackError : String := ' + _lean_str(fallback))
    L.append('')
    L.append('/-- Does `ErrorMetadataBase.create_exception` still test, in this order: `T.__init__ is Exception.__init__`;')
    L.append('    then `T in KNOWN_STRING_CONSTRUCTOR_ERRORS` / `elif T is KeyError`; then `to_ret is not None`? -/')
    L.append('def createExceptionChainAsModelled : Bool := ' + ('true' if chain_ok else 'false'))
    L.append('')
    L.append('/-- Number of outermost traceback entries `_attach_error_metadata` drops (`extract_tb(...)[n:]`). -/')
    L.append('def attachDropsFrames : Nat := %d' % dropped)
    L.append('')
    L.append('/-- Does `ErrorMetadataBase.to_exception` set `ag_pass_through` on the exception it creates? -/')
    L.append('def toExceptionSetsPassThrough : Bool := ' + ('true' if sets_pass else 'false'))
    L.append('')
    L.append('/-- Does `api._attach_error_metadata` return at once for an exception carrying `ag_pass_through`? -/')
    L.append('def attachHonoursPassThrough : Bool := ' + ('true' if honours else 'false'))
    L.append('')
    L.append('/-- Does `_stack_trace_inside_mapped_code` recognise the converter module\'s own frames by FILE IDENTITY')
    L.append('    (`filename == converter_filename`, full path equality)? -/')
    L.append('def frameFilterComparesFullPath : Bool := ' + ('true' if full_path else 'false'))
    L.append('')
    L.append('/-- That test, as read from the source (left opaque when it is not the plain path comparison). -/')
    if full_path:
        L.append('def converterFrameTest (filename converterFilename : String) : Bool := decide (filename = converterFilename)')
    else:
        L.append('opaque converterFrameTest (filename converterFilename : String) : Bool')
    L.append('')
    L.append('end Malt.Gen.Errors')
    return '\n'.join(L) + '\n'
