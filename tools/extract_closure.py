"""Translator part for C09: the *shape* of the code that builds and instantiates the function factory
-> lean/MaltModel/Generated/Closure.lean.   Reads the sources with `ast` only (never runs them).

What is extracted (each as a small enum / Bool / Nat the model is compared against in
`Props/C09.lean: C09_source_shape`):

* `_wrap_into_factory`: where the dummy closure definitions, the entity definitions and the two `return`s sit
  in the factory template; what a dummy definition is (`var_name = None`)
* `_PythonFnFactory.instantiate`: how closure cells are matched (dict of zip(self._freevars, closure) looked up by
  the names in the factory code's co_freevars), the length check, which argument is handed to
  `types.FunctionType` as `globals` / `closure` / `argdefs`, the guards of the two re-attachments
* `PyToPy.transform_function`: what is passed to `_PythonFnFactory(...)` and to `instantiate(...)`
* `GenericTranspiler._erase_arg_defaults` and its position before `transform_ast`
* `converters/functions.py`: the level up to which decorators are dropped; the artifact decorator appended otherwise
* `impl/api.py converted_call`: the instance of a bound method is prepended to the arguments

Anything not recognised is emitted as `unknown` (and reported as a problem): the shape theorem then fails.
"""
import ast, os, textwrap

REPO = os.environ.get('MALT_REPO', '/repo')


def _read(rel):
    with open(os.path.join(REPO, rel)) as f:
        return f.read()


def _lean_str(s):
    return '"' + s.replace('\\', '\\\\').replace('"', '\\"').replace('\n', '\\n') + '"'


def _find(tree, path):
    node = tree
    for name in path:
        nxt = None
        for st in node.body:
            if isinstance(st, (ast.ClassDef, ast.FunctionDef)) and st.name == name:
                nxt = st
        if nxt is None:
            return None
        node = nxt
    return node


def _u(node):
    return ast.unparse(node) if node is not None else None


def _templates_in(fn):
    """String constants assigned to `template` in a function, in order."""
    out = []
    for n in ast.walk(fn):
        if isinstance(n, ast.Assign) and len(n.targets) == 1 and isinstance(n.targets[0], ast.Name) \
                and n.targets[0].id == 'template' and isinstance(n.value, ast.Constant) and isinstance(n.value.value, str):
            out.append((n.lineno, n.value.value))
    return [t for _, t in sorted(out)]


def _guard_kind(test, pname):
    """Classify the guard of `if <test>: new_fn.__x__ = <pname>`."""
    if isinstance(test, ast.Name) and test.id == pname:
        return 'truthy'
    if isinstance(test, ast.Compare) and isinstance(test.left, ast.Name) and test.left.id == pname \
            and len(test.ops) == 1 and isinstance(test.ops[0], ast.IsNot) \
            and isinstance(test.comparators[0], ast.Constant) and test.comparators[0].value is None:
        return 'isNotNone'
    return 'unknown'


def gen_closure(problems):
    tp = ast.parse(_read('malt/pyct/transpiler.py'))
    facts = {}

    # ---------------------------------------------------------------- _wrap_into_factory
    wrap = _find(tp, ['_wrap_into_factory'])
    facts.update(dummyIsNoneAssign=False, dummiesInOuterBeforeInner=False, entityInInner=False, innerReturnsEntity=False,
                 outerReturnsInner=False, outerNiladic=False, innerParamsAreFactoryArgs=False, dummiesPerClosureVar=False)
    if wrap is None:
        problems.append('_wrap_into_factory not found')
    else:
        ts = _templates_in(wrap)
        if len(ts) != 2:
            problems.append('_wrap_into_factory: expected 2 templates, found %d' % len(ts))
        else:
            try:
                d = ast.parse(textwrap.dedent(ts[0])).body
                facts['dummyIsNoneAssign'] = (len(d) == 1 and isinstance(d[0], ast.Assign) and len(d[0].targets) == 1
                                              and isinstance(d[0].targets[0], ast.Name) and d[0].targets[0].id == 'var_name'
                                              and isinstance(d[0].value, ast.Constant) and d[0].value.value is None)
                m = ast.parse(textwrap.dedent(ts[1])).body
                outer = next((s for s in m if isinstance(s, ast.FunctionDef)), None)

                def is_ph(st, name):
                    return isinstance(st, ast.Expr) and isinstance(st.value, ast.Name) and st.value.id == name
                if outer is not None and outer.name == 'outer_factory_name':
                    a = outer.args
                    facts['outerNiladic'] = not (a.posonlyargs or a.args or a.vararg or a.kwonlyargs or a.kwarg)
                    ob = outer.body
                    inner_idx = next((k for k, s in enumerate(ob) if isinstance(s, ast.FunctionDef)), None)
                    dummy_idx = next((k for k, s in enumerate(ob) if is_ph(s, 'dummy_closure_defs')), None)
                    if inner_idx is not None:
                        inner = ob[inner_idx]
                        facts['dummiesInOuterBeforeInner'] = dummy_idx is not None and dummy_idx < inner_idx and \
                            not any(is_ph(s, 'dummy_closure_defs') for s in ast.walk(inner) if isinstance(s, ast.Expr))
                        ia = inner.args
                        facts['innerParamsAreFactoryArgs'] = ([x.arg for x in ia.args] == ['factory_args'] and not
                                                              (ia.posonlyargs or ia.vararg or ia.kwonlyargs or ia.kwarg))
                        ib = inner.body
                        facts['entityInInner'] = any(is_ph(s, 'entity_defs') for s in ib)
                        facts['innerReturnsEntity'] = (isinstance(ib[-1], ast.Return) and isinstance(ib[-1].value, ast.Name)
                                                       and ib[-1].value.id == 'entity_name')
                        facts['outerReturnsInner'] = (isinstance(ob[-1], ast.Return) and isinstance(ob[-1].value, ast.Name)
                                                      and ob[-1].value.id == inner.name == 'inner_factory_name')
            except SyntaxError as e:
                problems.append('_wrap_into_factory: template does not parse: %r' % e)
        # `for var_name in closure_vars: ... dummy_closure_defs.extend(templates.replace(template, var_name=var_name))`
        for n in ast.walk(wrap):
            if isinstance(n, ast.For) and isinstance(n.iter, ast.Name) and n.iter.id == 'closure_vars' \
                    and isinstance(n.target, ast.Name):
                calls = [c for c in ast.walk(n) if isinstance(c, ast.Call) and _u(c.func) == 'dummy_closure_defs.extend']
                facts['dummiesPerClosureVar'] = bool(calls) and any(
                    kw.arg == 'var_name' and _u(kw.value) == n.target.id
                    for c in calls for inner in ast.walk(c) if isinstance(inner, ast.Call) for kw in inner.keywords)

    # ---------------------------------------------------------------- _PythonFnFactory.create / instantiate
    create = _find(tp, ['_PythonFnFactory', 'create'])
    facts.update(createDeclaresSelfFreevars=False, createArgsAreExtraLocalKeys=False)
    if create is None:
        problems.append('_PythonFnFactory.create not found')
    else:
        for n in ast.walk(create):
            if isinstance(n, ast.Call) and _u(n.func) == '_wrap_into_factory' and len(n.args) >= 6:
                facts['createDeclaresSelfFreevars'] = _u(n.args[4]) == 'self._freevars'
                facts['createArgsAreExtraLocalKeys'] = _u(n.args[5]) == 'self._extra_locals.keys()'
    inst = _find(tp, ['_PythonFnFactory', 'instantiate'])
    stmts = []
    facts.update(cellMatch='unknown', lengthCheck=False, ftGlobals='unknown', ftClosure='unknown', ftArgdefs='unknown',
                 ftCode='unknown', callsWithExtraLocals=False, defaultsGuard='unknown', kwdefaultsGuard='unknown',
                 defaultsValue='unknown', kwdefaultsValue='unknown')
    if inst is None:
        problems.append('_PythonFnFactory.instantiate not found')
    else:
        assigns = {}
        for st in inst.body:
            if isinstance(st, ast.Assign) and len(st.targets) == 1 and isinstance(st.targets[0], ast.Name):
                assigns[st.targets[0].id] = st.value
        cm, fc = assigns.get('closure_map'), assigns.get('factory_closure')
        by_name = (cm is not None and _u(cm) == 'dict(zip(self._freevars, closure))' and fc is not None
                   and isinstance(fc, ast.Call) and _u(fc.func) == 'tuple' and len(fc.args) == 1
                   and isinstance(fc.args[0], ast.GeneratorExp)
                   and _u(fc.args[0].elt) == 'closure_map[%s]' % _u(fc.args[0].generators[0].target)
                   and _u(fc.args[0].generators[0].iter) in ('factory_code.co_freevars', 'factory_freevars')
                   and _u(assigns.get('factory_code')) == 'self._unbound_factory.__code__')
        facts['cellMatch'] = 'byName' if by_name else 'unknown'
        for st in inst.body:
            if isinstance(st, ast.If) and _u(st.test) == 'len(factory_closure) != len(closure)' \
                    and any(isinstance(x, ast.Raise) for x in st.body):
                facts['lengthCheck'] = True
            if isinstance(st, ast.If) and len(st.body) == 1 and isinstance(st.body[0], ast.Assign) and not st.orelse:
                tgt, val = _u(st.body[0].targets[0]), st.body[0].value
                if tgt == 'new_fn.__defaults__':
                    facts['defaultsGuard'] = _guard_kind(st.test, 'defaults')
                    facts['defaultsValue'] = 'param' if _u(val) == 'defaults' else 'unknown'
                if tgt == 'new_fn.__kwdefaults__':
                    facts['kwdefaultsGuard'] = _guard_kind(st.test, 'kwdefaults')
                    facts['kwdefaultsValue'] = 'param' if _u(val) == 'kwdefaults' else 'unknown'
        ft = assigns.get('bound_factory')
        if isinstance(ft, ast.Call) and _u(ft.func) == 'types.FunctionType':
            kw = {k.arg: _u(k.value) for k in ft.keywords}
            facts['ftGlobals'] = 'param' if kw.get('globals') == 'globals_' else 'unknown'
            facts['ftClosure'] = 'factoryClosure' if kw.get('closure') == 'factory_closure' else 'unknown'
            facts['ftArgdefs'] = 'empty' if kw.get('argdefs') == '()' else 'unknown'
            facts['ftCode'] = 'factoryCode' if kw.get('code') == 'factory_code' else 'unknown'
        nf = assigns.get('new_fn')
        facts['callsWithExtraLocals'] = _u(nf) == 'bound_factory(**self._extra_locals)'
        # ---- the body of instantiate as a statement list, in source order (interpreted by the model: `runStmts`)
        for st in inst.body:
            if isinstance(st, ast.Expr) and isinstance(st.value, ast.Constant) and isinstance(st.value.value, str):
                continue                                               # docstring
            u = _u(st)
            if isinstance(st, ast.If) and _u(st.test) == 'self._unbound_factory is None' and \
                    any(isinstance(x, ast.Raise) for x in st.body):
                stmts.append('.guardCreated')
            elif u in ('factory_code = self._unbound_factory.__code__', 'factory_freevars = factory_code.co_freevars'):
                stmts.append('.bookkeeping')
            elif u == 'closure_map = dict(zip(self._freevars, closure))':
                stmts.append('.closureMap')
            elif isinstance(st, ast.Assign) and _u(st.targets[0]) == 'factory_closure':
                stmts.append('.matchCells ' + ('.byName' if by_name else '.unknown'))
            elif isinstance(st, ast.If) and _u(st.test) == 'len(factory_closure) != len(closure)' and \
                    any(isinstance(x, ast.Raise) for x in st.body):
                stmts.append('.lengthCheck')
            elif isinstance(st, ast.Assign) and _u(st.targets[0]) == 'bound_factory':
                stmts.append('.bindFactory .%s .%s .%s .%s' % (facts['ftCode'], facts['ftGlobals'], facts['ftArgdefs'], facts['ftClosure']))
            elif isinstance(st, ast.Assign) and _u(st.targets[0]) == 'new_fn':
                stmts.append('.callFactory %s' % ('true' if facts['callsWithExtraLocals'] else 'false'))
            elif isinstance(st, ast.If) and len(st.body) == 1 and isinstance(st.body[0], ast.Assign) and not st.orelse \
                    and _u(st.body[0].targets[0]) == 'new_fn.__defaults__':
                stmts.append('.restoreDefaults .%s .%s' % (facts['defaultsGuard'], facts['defaultsValue']))
            elif isinstance(st, ast.If) and len(st.body) == 1 and isinstance(st.body[0], ast.Assign) and not st.orelse \
                    and _u(st.body[0].targets[0]) == 'new_fn.__kwdefaults__':
                stmts.append('.restoreKwdefaults .%s .%s' % (facts['kwdefaultsGuard'], facts['kwdefaultsValue']))
            elif isinstance(st, ast.Return) and _u(st.value) == 'new_fn':
                stmts.append('.returnNewFn')
            else:
                stmts.append('.unknown ' + _lean_str(u[:80]))
                problems.append('instantiate: statement not recognised: ' + u[:80])

    # ---------------------------------------------------------------- PyToPy.transform_function
    tf = _find(tp, ['PyToPy', 'transform_function'])
    facts.update(factoryFreevarsFromCode=False, factoryNameIsCtxName=False, instGlobals=False, instClosure=False,
                 instDefaults=False, instKwdefaults=False)
    if tf is None:
        problems.append('PyToPy.transform_function not found')
    else:
        for n in ast.walk(tf):
            if isinstance(n, ast.Call) and _u(n.func) == '_PythonFnFactory' and len(n.args) == 3:
                facts['factoryNameIsCtxName'] = _u(n.args[0]) == 'ctx.info.name'
                facts['factoryFreevarsFromCode'] = _u(n.args[1]) == 'fn.__code__.co_freevars'
            if isinstance(n, ast.Call) and _u(n.func) == 'factory.instantiate':
                kw = {k.arg: _u(k.value) for k in n.keywords}
                facts['instGlobals'] = kw.get('globals_') == 'fn.__globals__'
                facts['instClosure'] = kw.get('closure') == 'fn.__closure__ or ()'
                facts['instDefaults'] = kw.get('defaults') == 'fn.__defaults__'
                facts['instKwdefaults'] = kw.get('kwdefaults') == "getattr(fn, '__kwdefaults__', None)"

    # ---------------------------------------------------------------- _erase_arg_defaults
    er = _find(tp, ['GenericTranspiler', '_erase_arg_defaults'])
    facts.update(erasePositionalAll=False, eraseKwonlyPresent=False, eraseBeforeTransformAst=False)
    if er is None:
        problems.append('_erase_arg_defaults not found')
    else:
        for st in er.body:
            if isinstance(st, ast.For) and _u(st.iter) == 'range(len(args.defaults))' and len(st.body) == 1:
                facts['erasePositionalAll'] = _u(st.body[0]) == "args.defaults[i] = parser.parse_expression('None')"
            if isinstance(st, ast.For) and _u(st.iter) == 'enumerate(args.kw_defaults)' and len(st.body) == 1 \
                    and isinstance(st.body[0], ast.If):
                i = st.body[0]
                facts['eraseKwonlyPresent'] = (_u(i.test) == 'd is not None' and len(i.body) == 1 and not i.orelse and
                                               _u(i.body[0]) == "args.kw_defaults[i] = parser.parse_expression('None')")
    gtf = _find(tp, ['GenericTranspiler', 'transform_function'])
    if gtf is not None:
        order = [_u(st) for st in gtf.body]
        try:
            facts['eraseBeforeTransformAst'] = order.index('node = self._erase_arg_defaults(node)') < \
                order.index('result = self.transform_ast(node, context)')
        except ValueError:
            problems.append('GenericTranspiler.transform_function: erase / transform_ast statements not recognised')

    # ---------------------------------------------------------------- converters/functions.py
    fx = ast.parse(_read('malt/converters/functions.py'))
    vf = _find(fx, ['FunctionTransformer', 'visit_FunctionDef'])
    facts.update(decoratorDropLevel=None, nestedAppendsArtifact=False)
    if vf is None:
        problems.append('FunctionTransformer.visit_FunctionDef not found')
    else:
        for n in ast.walk(vf):
            if isinstance(n, ast.If) and isinstance(n.test, ast.Compare) and _u(n.test.left) == 'fn_scope.level' \
                    and len(n.test.ops) == 1 and isinstance(n.test.ops[0], ast.LtE) \
                    and isinstance(n.test.comparators[0], ast.Constant):
                if len(n.body) == 1 and _u(n.body[0]) == 'node.decorator_list = []':
                    facts['decoratorDropLevel'] = n.test.comparators[0].value
                    facts['nestedAppendsArtifact'] = any(
                        _u(s) == "node.decorator_list.append(parser.parse_expression('ag__.autograph_artifact'))"
                        for s in n.orelse)
    if facts['decoratorDropLevel'] is None:
        problems.append('visit_FunctionDef: `if fn_scope.level <= K: node.decorator_list = []` not recognised')

    # ---------------------------------------------------------------- impl/api.py converted_call
    api = ast.parse(_read('malt/impl/api.py'))
    cc = _find(api, ['converted_call'])
    facts.update(methodSelfPrepended=False, transformAcceptsMethods=False)
    if cc is None:
        problems.append('api.converted_call not found')
    else:
        for n in ast.walk(cc):
            if isinstance(n, ast.If) and _u(n.test) == 'f_self is not None':
                facts['methodSelfPrepended'] = any(_u(s) == 'effective_args = (f_self,) + effective_args' for s in n.body)
    tr = _find(tp, ['GenericTranspiler', 'transform'])
    if tr is not None:
        for n in ast.walk(tr):
            if isinstance(n, ast.If) and _u(n.test) == 'inspect.isfunction(obj) or inspect.ismethod(obj)':
                facts['transformAcceptsMethods'] = any(_u(s) == 'return self.transform_function(obj, user_context)' for s in n.body)

    for k, v in facts.items():
        if v == 'unknown' or v is False or v is None:
            problems.append('shape fact %s = %r (the model assumes otherwise)' % (k, v))

    # ---------------------------------------------------------------- emit
    L = ['/- GENERATED by tools/extract_closure.py from malt/pyct/transpiler.py, malt/converters/functions.py,',
         '   malt/impl/api.py — do not edit. -/',
         'namespace Malt.Gen.Closure',
         '',
         '/-- How `instantiate` finds the cell of each free variable of the factory code. -/',
         'inductive CellMatch where | byName | unknown deriving DecidableEq, Repr',
         '/-- Guard of a re-attachment `if <guard>: new_fn.__defaults__ = defaults`. -/',
         'inductive Guard where | truthy | isNotNone | unknown deriving DecidableEq, Repr',
         '/-- Where an argument of `types.FunctionType` / an assigned value comes from. -/',
         'inductive Source where | param | factoryClosure | factoryCode | empty | unknown deriving DecidableEq, Repr',
         '',
         'structure Shape where']
    fields = []
    for k, v in facts.items():
        if k == 'cellMatch':
            fields.append((k, 'CellMatch', '.' + v))
        elif k in ('defaultsGuard', 'kwdefaultsGuard'):
            fields.append((k, 'Guard', '.' + v))
        elif k in ('ftGlobals', 'ftClosure', 'ftArgdefs', 'ftCode', 'defaultsValue', 'kwdefaultsValue'):
            fields.append((k, 'Source', '.' + v))
        elif k == 'decoratorDropLevel':
            fields.append((k, 'Nat', str(v if isinstance(v, int) else 0)))
        else:
            fields.append((k, 'Bool', 'true' if v else 'false'))
    for k, t, _ in fields:
        L.append('  %s : %s' % (k, t))
    L.append('  deriving DecidableEq, Repr')
    L.append('')
    L.append('/-- One statement of `_PythonFnFactory.instantiate`. -/')
    L.append('inductive Stmt where')
    L.append('  | guardCreated                      -- if self._unbound_factory is None: raise ValueError')
    L.append('  | bookkeeping                       -- factory_code = … / factory_freevars = …')
    L.append('  | closureMap                        -- closure_map = dict(zip(self._freevars, closure))')
    L.append('  | matchCells (how : CellMatch)      -- factory_closure = tuple(closure_map[name] for name in factory_code.co_freevars)')
    L.append('  | lengthCheck                       -- if len(factory_closure) != len(closure): raise ValueError')
    L.append('  | bindFactory (code globals argdefs closure : Source)   -- bound_factory = types.FunctionType(…)')
    L.append('  | callFactory (extraLocals : Bool)  -- new_fn = bound_factory(**self._extra_locals)')
    L.append('  | restoreDefaults (g : Guard) (v : Source)     -- if defaults: new_fn.__defaults__ = defaults')
    L.append('  | restoreKwdefaults (g : Guard) (v : Source)   -- if kwdefaults: new_fn.__kwdefaults__ = kwdefaults')
    L.append('  | returnNewFn')
    L.append('  | unknown (text : String)')
    L.append('  deriving DecidableEq, Repr')
    L.append('')
    L.append('/-- The body of `instantiate`, statement by statement, in source order. -/')
    L.append('def instantiateStmts : List Stmt :=')
    L.append('  [' + ',\n   '.join(stmts) + ']')
    L.append('')
    L.append('/-- The shape read off the working tree. -/')
    L.append('def shape : Shape :=')
    L.append('  { ' + '\n    '.join('%s := %s' % (k, v) for k, _, v in fields) + ' }')
    L.append('')
    L.append('end Malt.Gen.Closure')
    return '\n'.join(L) + '\n'
