#!/bin/bash
# usage: verify_seed.sh <dir with patch.diff demo.py>  — confirms: demo passes on pristine, fails with change, baseline passes with change
d="$(readlink -f "$1")"
w="$(mktemp -d /tmp/vseed_XXXX)"; trap 'rm -rf "$w"' EXIT
rsync -a --exclude .git /repo/ "$w/repo/"
PYTHONPATH=/repo timeout 300 /venv/bin/python "$d/demo.py" >/dev/null 2>&1; echo "demo on pristine: rc=$?"
( cd "$w/repo" && patch -p1 -s < "$d/patch.diff" ) || { echo PATCH-FAILED; exit 2; }
( cd "$w" && PYTHONPATH="$w/repo" timeout 300 /venv/bin/python "$d/demo.py" >/dev/null 2>&1; echo "demo with change: rc=$?" )
/venv/bin/python /tmp/seedtools/baseline_check.py "$w/repo" | head -3
