import sys
sys.path.insert(0, __import__('os').path.dirname(__import__('os').path.abspath(__file__)))
from table import *

def pat(cname, fs, typ='Expr'):
    return '.%s _ %s' % (cname, ' '.join(vn(f) for f in fs)) if fs else '.%s _' % cname

def wf_field(f, prop=True):
    k = kind(f)
    c = fctx(f) if k != 'Ss' else None
    if k == 'E':
        return ('WfE %s %s' if prop else 'okE %s %s') % (c, vn(f))
    if k in ('Es', 'EsSame', 'EsLe'):
        return ('WfEs %s %s' if prop else 'okEs %s %s') % (c, vn(f))
    if k == 'Ss':
        return ('WfSs %s' if prop else 'okSs %s') % vn(f)

def conj(parts, prop=True):
    if not parts:
        return 'True' if prop else 'true'
    return (' ∧ ' if prop else ' && ').join(parts)

out = []
A = out.append
A('''import MaltModel.Py.Ast
/-
Expression contexts (C17).  `WfE c e` : expression `e` is well-formed when it stands at a position that expects
context `c` — the rule CPython's own AST validator applies (Python/ast.c `validate_expr(exp, ctx)`): `Name`,
`Attribute`, `Subscript`, `Starred`, `List`, `Tuple` must carry exactly the expected context; `Starred`, `List`, `Tuple`
pass it on to their children; the value/slice of an attribute or subscript is read (`Load`); every other expression kind
is only legal in a `Load` position and reads its children, except the binding positions: `NamedExpr.target`,
`comprehension.target`, `withitem.optional_vars` expect `Store`.  Statements: assignment / augmented assignment /
annotated assignment / `for` targets expect `Store`, `del` targets `Del`, everything else `Load`.
`Set` has no context in Python; the shared AST stores `.load` for it and that is what is required here.

`okE`/`okS`/`ctxOk` is the executable checker with the same reading; `Proofs/C17Ctx.lean` proves `ok… = true ↔ Wf…`.
-/
set_option linter.unusedVariables false
set_option linter.unusedSimpArgs false
namespace Malt.Conv
open Malt.Py

mutual
/-- `e` is context-well-formed at a position expecting context `c`. -/
def WfE : Ctx → Expr → Prop
  | _, .noneMarker => True
  | c, .name _ _ c' => c' = c
  | c, .attr _ v _ c' => c' = c ∧ WfE .load v
  | c, .subscript _ v s c' => c' = c ∧ WfE .load v ∧ WfE .load s
  | c, .seq _ k es c' => c' = c ∧ (k ≠ .set ∨ c = .load) ∧ WfEs c es
  | c, .starred _ v c' => c' = c ∧ WfE c v''')
for cname, fs in EXPR_GENERIC:
    parts = ['c = .load'] + [wf_field(f) for f in rec_fields(fs)]
    A('  | c, %s => %s' % (pat(cname, fs), conj(parts)))
A('''def WfEs : Ctx → List Expr → Prop
  | _, [] => True
  | c, e :: es => WfE c e ∧ WfEs c es
/-- statement `s` is context-well-formed. -/
def WfS : Stmt → Prop''')
for cname, fs in STMT:
    A('  | %s => %s' % (pat(cname, fs), conj([wf_field(f) for f in rec_fields(fs)])))
A('''def WfSs : List Stmt → Prop
  | [] => True
  | s :: ss => WfS s ∧ WfSs ss
end

/-- Every expression context of the statement list matches its position. -/
def CtxWellFormed (t : List Stmt) : Prop := WfSs t

mutual
def okE : Ctx → Expr → Bool
  | _, .noneMarker => true
  | c, .name _ _ c' => c' == c
  | c, .attr _ v _ c' => c' == c && okE .load v
  | c, .subscript _ v s c' => c' == c && okE .load v && okE .load s
  | c, .seq _ k es c' => c' == c && (k != .set || c == .load) && okEs c es
  | c, .starred _ v c' => c' == c && okE c v''')
for cname, fs in EXPR_GENERIC:
    parts = ['c == .load'] + [wf_field(f, False) for f in rec_fields(fs)]
    A('  | c, %s => %s' % (pat(cname, fs), conj(parts, False)))
A('''def okEs : Ctx → List Expr → Bool
  | _, [] => true
  | c, e :: es => okE c e && okEs c es
def okS : Stmt → Bool''')
for cname, fs in STMT:
    A('  | %s => %s' % (pat(cname, fs), conj([wf_field(f, False) for f in rec_fields(fs)], False)))
A('''def okSs : List Stmt → Bool
  | [] => true
  | s :: ss => okS s && okSs ss
end

/-- The verified checker run on the real transformed tree. -/
def ctxOk (t : List Stmt) : Bool := okSs t

end Malt.Conv
''')
open(__import__('os').path.join(__import__('os').path.dirname(__import__('os').path.abspath(__file__)), '..', '..', 'lean') + '/MaltModel/Conv/CtxWf.lean', 'w').write('\n'.join(out))

# ---------------- proofs: ok ↔ Wf
out = []
A = out.append
A('''import MaltModel.Conv.CtxWf
/- C17 helper lemmas: the executable context checker decides `WfE`/`WfS` (both directions). -/
set_option linter.unusedVariables false
set_option linter.unusedSimpArgs false
namespace Malt.Conv
open Malt.Py

mutual
theorem okE_iff : ∀ (e : Expr) (c : Ctx), okE c e = true ↔ WfE c e
  | .noneMarker, c => by simp [okE, WfE]
  | .name _ _ c', c => by simp [okE, WfE]
  | .attr _ v _ c', c => by
      have h1 := okE_iff v .load
      simp [okE, WfE, h1]
  | .subscript _ v s c', c => by
      have h1 := okE_iff v .load
      have h2 := okE_iff s .load
      simp [okE, WfE, h1, h2, and_assoc]
  | .seq _ k es c', c => by
      have h1 := okEs_iff es c
      simp [okE, WfE, h1, and_assoc]
  | .starred _ v c', c => by
      have h1 := okE_iff v c
      simp [okE, WfE, h1]''')
def iff_case(cname, fs, stmt=False):
    rf = rec_fields(fs)
    lines = []
    hs = []
    for i, f in enumerate(rf):
        k = kind(f)
        if k == 'E':
            lines.append('      have h%d := okE_iff %s %s' % (i, vn(f), fctx(f)))
        elif k in ('Es', 'EsSame', 'EsLe'):
            lines.append('      have h%d := okEs_iff %s %s' % (i, vn(f), fctx(f)))
        else:
            lines.append('      have h%d := okSs_iff %s' % (i, vn(f)))
        hs.append('h%d' % i)
    p = pat(cname, fs)
    simp = '      simp [%s, %s%s, and_assoc]' % ('okS' if stmt else 'okE', 'WfS' if stmt else 'WfE', ''.join(', ' + h for h in hs))
    head = '  | %s%s => by' % (p, '' if stmt else ', c')
    return '\n'.join([head] + lines + [simp])
for cname, fs in EXPR_GENERIC:
    A(iff_case(cname, fs))
A('''theorem okEs_iff : ∀ (es : List Expr) (c : Ctx), okEs c es = true ↔ WfEs c es
  | [], c => by simp [okEs, WfEs]
  | e :: es, c => by
      have h1 := okE_iff e c
      have h2 := okEs_iff es c
      simp [okEs, WfEs, h1, h2]
theorem okS_iff : ∀ (s : Stmt), okS s = true ↔ WfS s''')
for cname, fs in STMT:
    A(iff_case(cname, fs, True))
A('''theorem okSs_iff : ∀ (ss : List Stmt), okSs ss = true ↔ WfSs ss
  | [] => by simp [okSs, WfSs]
  | s :: ss => by
      have h1 := okS_iff s
      have h2 := okSs_iff ss
      simp [okSs, WfSs, h1, h2]
end

instance (c : Ctx) (e : Expr) : Decidable (WfE c e) := decidable_of_iff _ (okE_iff e c)
instance (s : Stmt) : Decidable (WfS s) := decidable_of_iff _ (okS_iff s)
instance (ss : List Stmt) : Decidable (WfSs ss) := decidable_of_iff _ (okSs_iff ss)
instance (c : Ctx) (es : List Expr) : Decidable (WfEs c es) := decidable_of_iff _ (okEs_iff es c)
instance (t : List Stmt) : Decidable (CtxWellFormed t) := decidable_of_iff _ (okSs_iff t)

end Malt.Conv
''')
open(__import__('os').path.join(__import__('os').path.dirname(__import__('os').path.abspath(__file__)), '..', '..', 'lean') + '/MaltModel/Proofs/C17Ctx.lean', 'w').write('\n'.join(out))
