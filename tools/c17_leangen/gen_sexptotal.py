# generator for Conv/SexpTotal.lean (total reader/printer for Py.Ast, same wire format as Py/SexpAst.lean) and its round-trip proof
import os
# (constructor, tag, fields) ; field kinds: i=id, s=string atom, c=ctx, E=expr, Es=expr list, Ss=stmt list, b=bool, strs=list of strings,
#   pairs=list of string pairs, n=nat
EXPR = [
  ('name', 'Name', ['s', 'c']),
  ('const', 'Constant', ['s', 's']),
  ('attr', 'Attribute', ['E', 's', 'c']),
  ('subscript', 'Subscript', ['E', 'E', 'c']),
  ('call', 'Call', ['E', 'Es', 'Es']),
  ('unary', 'UnaryOp', ['s', 'E']),
  ('binop', 'BinOp', ['s', 'E', 'E']),
  ('compare', 'Compare', ['E', 'strs', 'Es']),
  ('ifexp', 'IfExp', ['E', 'E', 'E']),
  ('lambda', 'Lambda', ['E', 'E']),
  ('starred', 'Starred', ['E', 'c']),
  ('namedexpr', 'NamedExpr', ['E', 'E']),
  ('comprehension', 'comprehension', ['E', 'E', 'Es', 'b']),
  ('arguments', 'arguments', ['Es'] * 7),
  ('arg', 'arg', ['s', 'Es']),
  ('withitem', 'withitem', ['E', 'Es']),
  ('other', 'Other', ['s', 'strs', 'Es']),
]
STMT = [
  ('functionDef', 'FunctionDef', ['s', 'E', 'Ss', 'Es', 'Es', 'b']),
  ('classDef', 'ClassDef', ['s', 'Es', 'Es', 'Ss', 'Es']),
  ('ret', 'Return', ['Es']),
  ('delete', 'Delete', ['Es']),
  ('assign', 'Assign', ['Es', 'E']),
  ('augAssign', 'AugAssign', ['E', 's', 'E']),
  ('annAssign', 'AnnAssign', ['E', 'E', 'Es', 'b']),
  ('for_', 'For', ['E', 'E', 'Ss', 'Ss', 'Es', 'b']),
  ('while_', 'While', ['E', 'Ss', 'Ss']),
  ('if_', 'If', ['E', 'Ss', 'Ss']),
  ('with_', 'With', ['Es', 'Ss', 'b']),
  ('raise', 'Raise', ['Es', 'Es']),
  ('try_', 'Try', ['Ss', 'Ss', 'Ss', 'Ss']),
  ('handler', 'ExceptHandler', ['Es', 'strs', 'Ss']),
  ('assert_', 'Assert', ['E', 'Es']),
  ('import_', 'Import', ['pairs']),
  ('importFrom', 'ImportFrom', ['s', 'pairs', 'n']),
  ('global', 'Global', ['strs']),
  ('nonlocal', 'Nonlocal', ['strs']),
  ('expr', 'Expr', ['E']),
  ('pass', 'Pass', []),
  ('break_', 'Break', []),
  ('continue_', 'Continue', []),
  ('other', 'OtherStmt', ['s', 'Es', 'Ss']),
]
def pr(k, v):
    return {'s': '.atom %s', 'c': 'pCtx %s', 'E': 'printE %s', 'Es': '.list (printEs %s)', 'Ss': '.list (printSs %s)', 'b': 'Sexp.ofBool %s',
            'strs': '.list (%s.map Sexp.atom)', 'pairs': 'pPairs %s', 'n': '.atom (toString %s)'}[k] % v
def rd_pat(k, v):
    return {'s': '.atom %s', 'c': '%s', 'E': '%s', 'Es': '.list %s', 'Ss': '.list %s', 'b': '%s', 'strs': '%s', 'pairs': '%s', 'n': '%s'}[k] % v
def rd_bind(k, v):
    """(bind line or None, value expression)"""
    if k == 's': return None, v
    if k == 'c': return 'rCtx %s' % v, None
    if k == 'E': return 'readE %s' % v, None
    if k == 'Es': return 'readEs %s' % v, None
    if k == 'Ss': return 'readSs %s' % v, None
    if k == 'b': return 'Sexp.bool? %s' % v, None
    if k == 'strs': return 'rStrs %s' % v, None
    if k == 'pairs': return 'rPairs %s' % v, None
    if k == 'n': return 'Sexp.nat? %s' % v, None

out = []
A = out.append
A('''import MaltModel.Py.Ast
/-
Total (structurally recursive, fuel-free) reader / printer between S-expression TREES and `Py.Ast`, in exactly the wire
format of `Py/SexpAst.lean` / harness/pyast.py.  `Py/SexpAst.lean` is `partial`; this file exists so that the round trip
`read (print t) = some t` is a theorem (Proofs/C17Roundtrip.lean) about the functions the C17 driver actually runs.
The text layer below it (`Sexp.parse` / `toString`, escaping) stays outside: it is exercised by harness/selftest_ast.py.
-/
set_option linter.unusedVariables false
namespace Malt.Conv.SexpTotal
open Malt Malt.Py

def pCtx : Ctx → Sexp
  | .load => .atom "Load" | .store => .atom "Store" | .del => .atom "Del"

def rCtx : Sexp → Option Ctx
  | .atom a => if a = "Load" then some .load else if a = "Store" then some .store else if a = "Del" then some .del else none
  | _ => none

def pPairs (ps : List (String × String)) : Sexp := .list (ps.map fun p => .list [.atom p.1, .atom p.2])

def rStrsL : List Sexp → Option (List String)
  | [] => some []
  | .atom a :: r => (rStrsL r).map (a :: ·)
  | _ :: _ => none

def rStrs : Sexp → Option (List String)
  | .list xs => rStrsL xs
  | _ => none

def rPairsL : List Sexp → Option (List (String × String))
  | [] => some []
  | .list [.atom a, .atom b] :: r => (rPairsL r).map ((a, b) :: ·)
  | _ :: _ => none

def rPairs : Sexp → Option (List (String × String))
  | .list xs => rPairsL xs
  | _ => none

mutual
def printE : Expr → Sexp
  | .noneMarker => .atom "NoneMarker"
  | .keyword i arg has v => .list [.atom "keyword", .atom (toString i), .list (if has then [.atom arg] else []), printE v]
  | .boolop i isAnd vs => .list [.atom "BoolOp", .atom (toString i), .atom (if isAnd then "And" else "Or"), .list (printEs vs)]
  | .seq i .tuple es c => .list [.atom "Tuple", .atom (toString i), .list (printEs es), pCtx c]
  | .seq i .list es c => .list [.atom "List", .atom (toString i), .list (printEs es), pCtx c]
  | .seq i .set es _ => .list [.atom "Set", .atom (toString i), .list (printEs es)]
  | .comp i .listComp es gs => .list [.atom "ListComp", .atom (toString i), .list (printEs es), .list (printEs gs)]
  | .comp i .setComp es gs => .list [.atom "SetComp", .atom (toString i), .list (printEs es), .list (printEs gs)]
  | .comp i .genExp es gs => .list [.atom "GeneratorExp", .atom (toString i), .list (printEs es), .list (printEs gs)]
  | .comp i .dictComp es gs => .list [.atom "DictComp", .atom (toString i), .list (printEs es), .list (printEs gs)]''')
for cn, tag, fs in EXPR:
    vs = ['x%d' % k for k in range(len(fs))]
    A('  | .%s i %s => .list [.atom "%s", .atom (toString i)%s]' % (cn, ' '.join(vs), tag, ''.join(', ' + pr(k, v) for k, v in zip(fs, vs))))
A('''def printEs : List Expr → List Sexp
  | [] => []
  | e :: es => printE e :: printEs es
end

mutual
def printS : Stmt → Sexp''')
for cn, tag, fs in STMT:
    vs = ['x%d' % k for k in range(len(fs))]
    A('  | .%s i %s => .list [.atom "%s", .atom (toString i)%s]' % (cn, ' '.join(vs), tag, ''.join(', ' + pr(k, v) for k, v in zip(fs, vs))))
A('''def printSs : List Stmt → List Sexp
  | [] => []
  | s :: ss => printS s :: printSs ss
end

mutual
def readE : Sexp → Option Expr
  | .atom a => if a = "NoneMarker" then some .noneMarker else none
  | .list [] => none
  | .list [_] => none
  | .list (.list _ :: _ :: _) => none
  | .list (.atom tag :: ix :: rest) =>
    match Sexp.nat? ix with
    | none => none
    | some i =>
    if tag = "keyword" then
      match rest with
      | [.list [], v] => (readE v).map (.keyword i "" false)
      | [.list [.atom a], v] => (readE v).map (.keyword i a true)
      | _ => none
    else if tag = "BoolOp" then
      match rest with
      | [.atom op, .list vs] =>
          if op = "And" then (readEs vs).map (.boolop i true) else if op = "Or" then (readEs vs).map (.boolop i false) else none
      | _ => none
    else if tag = "Tuple" then
      match rest with
      | [.list es, c] => (readEs es).bind fun es' => (rCtx c).map fun c' => .seq i .tuple es' c'
      | _ => none
    else if tag = "List" then
      match rest with
      | [.list es, c] => (readEs es).bind fun es' => (rCtx c).map fun c' => .seq i .list es' c'
      | _ => none
    else if tag = "Set" then
      match rest with
      | [.list es] => (readEs es).map fun es' => .seq i .set es' .load
      | _ => none
    else if tag = "ListComp" then
      match rest with
      | [.list es, .list gs] => (readEs es).bind fun es' => (readEs gs).map fun gs' => .comp i .listComp es' gs'
      | _ => none
    else if tag = "SetComp" then
      match rest with
      | [.list es, .list gs] => (readEs es).bind fun es' => (readEs gs).map fun gs' => .comp i .setComp es' gs'
      | _ => none
    else if tag = "GeneratorExp" then
      match rest with
      | [.list es, .list gs] => (readEs es).bind fun es' => (readEs gs).map fun gs' => .comp i .genExp es' gs'
      | _ => none
    else if tag = "DictComp" then
      match rest with
      | [.list es, .list gs] => (readEs es).bind fun es' => (readEs gs).map fun gs' => .comp i .dictComp es' gs'
      | _ => none''')
def reader_case(cn, tag, fs, indent='    '):
    vs = ['x%d' % k for k in range(len(fs))]
    pats = ', '.join(rd_pat(k, v) for k, v in zip(fs, vs))
    body = '.%s i %s' % (cn, ' '.join((v if k == 's' else v + "'") for k, v in zip(fs, vs)))
    # build nested binds
    expr = 'some (%s)' % body
    for k, v in reversed(list(zip(fs, vs))):
        b, _ = rd_bind(k, v)
        if b is not None:
            expr = '(%s).bind fun %s\' => %s' % (b, v, expr)
    lines = []
    lines.append('%selse if tag = "%s" then' % (indent, tag))
    lines.append('%s  match rest with' % indent)
    lines.append('%s  | [%s] => %s' % (indent, pats, expr))
    if fs:
        lines.append('%s  | _ => none' % indent)
    else:
        lines[-1] = '%s  | [] => %s' % (indent, expr)
        lines.append('%s  | _ => none' % indent)
    return '\n'.join(lines)
for cn, tag, fs in EXPR:
    A(reader_case(cn, tag, fs))
A('''    else none
def readEs : List Sexp → Option (List Expr)
  | [] => some []
  | x :: xs => (readE x).bind fun e => (readEs xs).map fun es => e :: es
end

mutual
def readS : Sexp → Option Stmt
  | .atom _ => none
  | .list [] => none
  | .list [.list _] => none
  | .list (.list _ :: _ :: _) => none
  | .list [.atom _] => none
  | .list (.atom tag :: ix :: rest) =>
    match Sexp.nat? ix with
    | none => none
    | some i =>
    if tag = "" then none''')
for cn, tag, fs in STMT:
    A(reader_case(cn, tag, fs).replace('readEs', 'readEs'))
A('''    else none
def readSs : List Sexp → Option (List Stmt)
  | [] => some []
  | x :: xs => (readS x).bind fun s => (readSs xs).map fun ss => s :: ss
end

mutual
/-- trees the printer does not lose information on: a `Set` display carries `.load` (Python has no ctx there) and a
keyword without a name (`**kw`) carries the empty string -/
def printableE : Expr → Bool
  | .noneMarker => true
  | .keyword _ arg has v => (has || arg == "") && printableE v
  | .boolop _ _ vs => printableEs vs
  | .seq _ k es c => (k != .set || c == .load) && printableEs es
  | .comp _ _ es gs => printableEs es && printableEs gs''')
for cn, tag, fs in EXPR:
    vs = ['x%d' % k for k in range(len(fs))]
    parts = [('printableE ' if k == 'E' else 'printableEs ') + v for k, v in zip(fs, vs) if k in ('E', 'Es')]
    A('  | .%s _ %s => %s' % (cn, ' '.join(vs), ' && '.join(parts) if parts else 'true'))
A('''def printableEs : List Expr → Bool
  | [] => true
  | e :: es => printableE e && printableEs es
end
mutual
def printableS : Stmt → Bool''')
for cn, tag, fs in STMT:
    vs = ['x%d' % k for k in range(len(fs))]
    parts = [('printableE ' if k == 'E' else 'printableEs ' if k == 'Es' else 'printableSs ') + v for k, v in zip(fs, vs) if k in ('E', 'Es', 'Ss')]
    A('  | .%s _ %s => %s' % (cn, ' '.join(vs), ' && '.join(parts) if parts else 'true'))
A('''def printableSs : List Stmt → Bool
  | [] => true
  | s :: ss => printableS s && printableSs ss
end

end Malt.Conv.SexpTotal
''')
open(os.path.join(os.path.dirname(os.path.abspath(__file__)), '..', '..', 'lean', 'MaltModel', 'Conv', 'SexpTotal.lean'), 'w').write('\n'.join(out))
