import re
import os
exec(open(os.path.join(os.path.dirname(os.path.abspath(__file__)), 'gen_sexptotal.py')).read().split("out = []")[0])
out = []
A = out.append
A('''import Std.Data.String.ToNat
import MaltModel.Conv.SexpTotal
/- C17: `read (print t) = some t` for the total reader/printer of `Py.Ast` (tree level). -/
set_option linter.unusedSimpArgs false
set_option linter.unusedVariables false
namespace Malt.Conv.SexpTotal
open Malt Malt.Py

theorem nat_rt (i : Nat) : Sexp.nat? (.atom (toString i)) = some i := by
  simp [Sexp.nat?]

theorem nat_rt2 (i : Nat) : Sexp.nat? (.atom i.repr) = some i := by
  simp [Sexp.nat?]

theorem ctx_rt (c : Ctx) : rCtx (pCtx c) = some c := by
  cases c <;> simp [pCtx, rCtx]

theorem bool_rt (b : Bool) : Sexp.bool? (Sexp.ofBool b) = some b := by
  cases b <;> simp [Sexp.ofBool, Sexp.bool?]

theorem strsL_rt : ∀ (l : List String), rStrsL (l.map Sexp.atom) = some l
  | [] => by simp [rStrsL]
  | a :: l => by simp [rStrsL, strsL_rt l]

theorem strs_rt (l : List String) : rStrs (.list (l.map Sexp.atom)) = some l := by
  simp [rStrs, strsL_rt]

theorem pairsL_rt : ∀ (l : List (String × String)), rPairsL (l.map fun p => Sexp.list [.atom p.1, .atom p.2]) = some l
  | [] => by simp [rPairsL]
  | (a, b) :: l => by simp [rPairsL, pairsL_rt l]

theorem pairs_rt (l : List (String × String)) : rPairs (pPairs l) = some l := by
  simp [rPairs, pPairs, pairsL_rt]

mutual
theorem readE_printE : ∀ (e : Expr), printableE e = true → readE (printE e) = some e
  | .noneMarker, _ => by simp [printE, readE]
  | .keyword i arg has v, h => by
      simp only [printableE, Bool.and_eq_true, Bool.or_eq_true, beq_iff_eq] at h
      have ih := readE_printE v h.2
      cases has with
      | true => simp [printE, readE, nat_rt, nat_rt2, ih]
      | false =>
          have : arg = "" := by simpa using h.1
          subst this
          simp [printE, readE, nat_rt, nat_rt2, ih]
  | .boolop i isAnd vs, h => by
      simp only [printableE] at h
      have ih := readEs_printEs vs h
      cases isAnd <;> simp [printE, readE, nat_rt, nat_rt2, ih]
  | .seq i k es c, h => by
      simp only [printableE, Bool.and_eq_true, Bool.or_eq_true, bne_iff_ne, ne_eq, beq_iff_eq] at h
      have ih := readEs_printEs es h.2
      cases k with
      | tuple => simp [printE, readE, nat_rt, nat_rt2, ih, ctx_rt]
      | list => simp [printE, readE, nat_rt, nat_rt2, ih, ctx_rt]
      | set =>
          have : c = .load := by simpa using h.1
          subst this
          simp [printE, readE, nat_rt, nat_rt2, ih]
  | .comp i k es gs, h => by
      simp only [printableE, Bool.and_eq_true] at h
      have ih1 := readEs_printEs es h.1
      have ih2 := readEs_printEs gs h.2
      cases k <;> simp [printE, readE, nat_rt, nat_rt2, ih1, ih2]''')
def acc(i, k):
    if k == 1: return ''
    return ('.1' * (k - 1 - i) + ('.2' if i > 0 else '')) if False else None
def conj_access(i, k):
    # `a && b && c` is left nested: ((a ∧ b) ∧ c)
    if k == 1: return ''
    if i == 0: return '.1' * (k - 1)
    return '.1' * (k - 1 - i) + '.2'
def proof_case(cn, tag, fs, stmt=False):
    vs = ['x%d' % k for k in range(len(fs))]
    rec = [(k, v) for k, v in zip(fs, vs) if k in ('E', 'Es', 'Ss')]
    lines = ['  | .%s i %s, h => by' % (cn, ' '.join(vs))]
    if rec:
        lines.append('      simp only [%s, Bool.and_eq_true] at h' % ('printableS' if stmt else 'printableE'))
    ihs = []
    for j, (k, v) in enumerate(rec):
        fn = {'E': 'readE_printE', 'Es': 'readEs_printEs', 'Ss': 'readSs_printSs'}[k]
        lines.append('      have ih%d := %s %s h%s' % (j, fn, v, conj_access(j, len(rec))))
        ihs.append('ih%d' % j)
    lines.append('      simp [%s, %s, nat_rt, nat_rt2, ctx_rt, bool_rt, strs_rt, pairs_rt%s]' % ('printS' if stmt else 'printE', 'readS' if stmt else 'readE', ''.join(', ' + x for x in ihs)))
    return '\n'.join(lines)
for cn, tag, fs in EXPR:
    A(proof_case(cn, tag, fs))
A('''theorem readEs_printEs : ∀ (es : List Expr), printableEs es = true → readEs (printEs es) = some es
  | [], _ => by simp [printEs, readEs]
  | e :: es, h => by
      simp only [printableEs, Bool.and_eq_true] at h
      simp [printEs, readEs, readE_printE e h.1, readEs_printEs es h.2]
end

mutual
theorem readS_printS : ∀ (s : Stmt), printableS s = true → readS (printS s) = some s''')
for cn, tag, fs in STMT:
    A(proof_case(cn, tag, fs, True))
A('''theorem readSs_printSs : ∀ (ss : List Stmt), printableSs ss = true → readSs (printSs ss) = some ss
  | [], _ => by simp [printSs, readSs]
  | s :: ss, h => by
      simp only [printableSs, Bool.and_eq_true] at h
      simp [printSs, readSs, readS_printS s h.1, readSs_printSs ss h.2]
end

end Malt.Conv.SexpTotal
''')
open(os.path.join(os.path.dirname(os.path.abspath(__file__)), '..', '..', 'lean', 'MaltModel', 'Proofs', 'C17Roundtrip.lean'), 'w').write('\n'.join(out))
