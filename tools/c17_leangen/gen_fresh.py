import sys
sys.path.insert(0, __import__('os').path.dirname(__import__('os').path.abspath(__file__)))
from table import *
from gen_template import pat, INST_SPECIAL_E

out = []
A = out.append
A('''import MaltModel.Conv.Template
/- C17 helper lemmas: copy discipline.  `Fresh a l b`: the label list `l` is exactly `a, a+1, …, b-1`. -/
set_option linter.unusedSimpArgs false
set_option linter.unusedVariables false
namespace Malt.Conv.Template
open Malt.Py

def Fresh (a : Nat) (l : List Nat) (b : Nat) : Prop := a ≤ b ∧ l = List.range' a (b - a)

theorem Fresh.nil (a : Nat) : Fresh a [] a := by simp [Fresh]

theorem Fresh.cons {a b : Nat} {l : List Nat} (h : Fresh (a + 1) l b) : Fresh a (a :: l) b := by
  obtain ⟨h1, h2⟩ := h
  refine ⟨by omega, ?_⟩
  have : b - a = (b - (a + 1)) + 1 := by omega
  rw [this, List.range'_succ, h2]

theorem Fresh.append {a b c : Nat} {l1 l2 : List Nat} (h1 : Fresh a l1 b) (h2 : Fresh b l2 c) : Fresh a (l1 ++ l2) c := by
  obtain ⟨ha, hl1⟩ := h1
  obtain ⟨hb, hl2⟩ := h2
  refine ⟨by omega, ?_⟩
  have e : c - a = (b - a) + (c - b) := by omega
  have e2 : b = a + 1 * (b - a) := by omega
  rw [hl1, hl2, e]
  conv => lhs; rhs; rw [e2]
  rw [List.range'_append]
  congr 1
  omega

theorem Fresh.le {a b : Nat} {l : List Nat} (h : Fresh a l b) : a ≤ b := h.1

theorem Fresh.bounds {a b : Nat} {l : List Nat} (h : Fresh a l b) : ∀ x ∈ l, a ≤ x ∧ x < b := by
  intro x hx
  rw [h.2, List.mem_range'_1] at hx
  omega

theorem Fresh.nodup {a b : Nat} {l : List Nat} (h : Fresh a l b) : l.Nodup := by
  rw [h.2]
  exact List.nodup_range'

theorem Fresh.single (a : Nat) : Fresh a [a] (a + 1) := Fresh.cons (Fresh.nil _)

/-! ### copy_clean hands out exactly the next labels -/
''')
def chain(hs):
    if not hs:
        return '(Fresh.nil _)'
    if len(hs) == 1:
        return hs[0]
    return '(Fresh.append %s %s)' % (hs[0], chain(hs[1:]))

A('mutual')
A('theorem copyE_fresh : ∀ (e : Expr) (n : Nat), Fresh n (labelsE (copyE e n).1) (copyE e n).2')
A('  | .noneMarker, n => by simp only [copyE, labelsE]; exact Fresh.nil _')
def copy_case(cname, fs, stmt=False):
    rf = rec_fields(fs)
    hs = []
    for f in rf:
        fn = {'E': 'copyE_fresh', 'Es': 'copyEs_fresh', 'EsSame': 'copyEs_fresh', 'EsLe': 'copyEs_fresh', 'Ss': 'copySs_fresh'}[kind(f)]
        hs.append('(%s %s _)' % (fn, vn(f)))
    return '  | %s, n => by\n      simp only [%s, %s]\n      exact Fresh.cons %s' % (
        pat(cname, fs), 'copyS' if stmt else 'copyE', 'labelsS' if stmt else 'labelsE', chain(hs))
for cname, fs in EXPR_ALL:
    A(copy_case(cname, fs))
A('''theorem copyEs_fresh : ∀ (es : List Expr) (n : Nat), Fresh n (labelsEs (copyEs es n).1) (copyEs es n).2
  | [], n => by simp only [copyEs, labelsEs]; exact Fresh.nil _
  | e :: es, n => by
      simp only [copyEs, labelsEs]
      exact Fresh.append (copyE_fresh e _) (copyEs_fresh es _)
end
mutual
theorem copyS_fresh : ∀ (s : Stmt) (n : Nat), Fresh n (labelsS (copyS s n).1) (copyS s n).2''')
for cname, fs in STMT:
    A(copy_case(cname, fs, True).replace('copyE_fresh', 'copyE_fresh').replace('[copyE, labelsE]', '[copyS, labelsS]'))
A('''theorem copySs_fresh : ∀ (ss : List Stmt) (n : Nat), Fresh n (labelsSs (copySs ss n).1) (copySs ss n).2
  | [], n => by simp only [copySs, labelsSs]; exact Fresh.nil _
  | s :: ss, n => by
      simp only [copySs, labelsSs]
      exact Fresh.append (copyS_fresh s _) (copySs_fresh ss _)
end

/-! ### the adjuster does not touch identities -/
mutual
theorem adjust_labels : ∀ (c : Ctx) (e : Expr), labelsE (adjust c e) = labelsE e
  | c, .noneMarker => by simp [adjust]
  | c, .name .. => by simp [adjust, labelsE]
  | c, .attr _ v _ _ => by simp [adjust, labelsE, adjust_labels .load v]
  | c, .subscript _ v s _ => by simp [adjust, labelsE, adjust_labels .load v, adjust_labels .load s]
  | c, .seq _ k es _ => by simp [adjust, labelsE, adjustEs_labels c es]
  | c, .starred _ v _ => by simp [adjust, labelsE, adjust_labels c v]
  | c, .const .. => by simp [adjust]
  | c, .call .. => by simp [adjust]
  | c, .lambda .. => by simp [adjust]
  | c, .comprehension .. => by simp [adjust]
  | c, .keyword _ _ _ v => by simp [adjust, labelsE, adjust_labels c v]
  | c, .boolop _ _ vs => by simp [adjust, labelsE, adjustEs_labels c vs]
  | c, .unary _ _ e => by simp [adjust, labelsE, adjust_labels c e]
  | c, .binop _ _ l r => by simp [adjust, labelsE, adjust_labels c l, adjust_labels c r]
  | c, .compare _ l _ rs => by simp [adjust, labelsE, adjust_labels c l, adjustEs_labels c rs]
  | c, .ifexp _ t b e => by simp [adjust, labelsE, adjust_labels c t, adjust_labels c b, adjust_labels c e]
  | c, .namedexpr _ t v => by simp [adjust, labelsE, adjust_labels c t, adjust_labels c v]
  | c, .comp _ _ es gs => by simp [adjust, labelsE, adjustEs_labels c es, adjustEs_labels c gs]
  | c, .arguments _ po ar va ko kd kw df => by
      simp [adjust, labelsE, adjustEs_labels c po, adjustEs_labels c ar, adjustEs_labels c va, adjustEs_labels c ko,
        adjustEs_labels c kd, adjustEs_labels c kw, adjustEs_labels c df]
  | c, .arg _ _ an => by simp [adjust, labelsE, adjustEs_labels c an]
  | c, .withitem _ ce ov => by simp [adjust, labelsE, adjust_labels c ce, adjustEs_labels c ov]
  | c, .other _ k _ kids => by
      by_cases hk : k = "Dict"
      · simp [adjust, hk]
      · simp [adjust, hk, labelsE, adjustEs_labels c kids]
theorem adjustEs_labels : ∀ (c : Ctx) (es : List Expr), labelsEs (adjustEs c es) = labelsEs es
  | c, [] => by simp [adjustEs]
  | c, e :: es => by simp [adjustEs, labelsEs, adjust_labels c e, adjustEs_labels c es]
end

theorem adjTop_labels (c : Ctx) (e : Expr) : labelsE (adjTop c e) = labelsE e := by
  unfold adjTop
  split
  · exact adjust_labels c e
  · rfl

theorem map_adjTop_labels (c : Ctx) : ∀ (es : List Expr), labelsEs (es.map (adjTop c)) = labelsEs es
  | [] => rfl
  | e :: es => by simp [labelsEs, adjTop_labels, map_adjTop_labels c es]

theorem argRepl_fresh : ∀ (es : List Expr) (n : Nat), es.all isName = true →
    Fresh n (labelsEs (argRepl es n).1) (argRepl es n).2
  | [], n, _ => by simp only [argRepl, labelsEs]; exact Fresh.nil _
  | .name _ id _ :: r, n, h => by
      have hr : r.all isName = true := by simpa [isName] using h
      simp only [argRepl, labelsEs, labelsE, List.nil_append, List.cons_append]
      exact Fresh.cons (argRepl_fresh r (n + 1) hr)
  | .noneMarker :: r, n, h => by simp [isName] at h
  | .const .. :: r, n, h => by simp [isName] at h
  | .attr .. :: r, n, h => by simp [isName] at h
  | .subscript .. :: r, n, h => by simp [isName] at h
  | .call .. :: r, n, h => by simp [isName] at h
  | .keyword .. :: r, n, h => by simp [isName] at h
  | .boolop .. :: r, n, h => by simp [isName] at h
  | .unary .. :: r, n, h => by simp [isName] at h
  | .binop .. :: r, n, h => by simp [isName] at h
  | .compare .. :: r, n, h => by simp [isName] at h
  | .ifexp .. :: r, n, h => by simp [isName] at h
  | .lambda .. :: r, n, h => by simp [isName] at h
  | .seq .. :: r, n, h => by simp [isName] at h
  | .starred .. :: r, n, h => by simp [isName] at h
  | .namedexpr .. :: r, n, h => by simp [isName] at h
  | .comp .. :: r, n, h => by simp [isName] at h
  | .comprehension .. :: r, n, h => by simp [isName] at h
  | .arguments .. :: r, n, h => by simp [isName] at h
  | .arg .. :: r, n, h => by simp [isName] at h
  | .withitem .. :: r, n, h => by simp [isName] at h
  | .other .. :: r, n, h => by simp [isName] at h

/-! ### destructuring the result monad -/
theorem R.bind_ok {α β : Type} (x : R α) (f : α → Nat → R β) (p : β × Nat) :
    R.bind x f = .ok p ↔ ∃ a n, x = .ok (a, n) ∧ f a n = .ok p := by
  cases x with
  | error e => simp [R.bind]
  | ok v =>
    obtain ⟨a, n⟩ := v
    simp only [R.bind]
    constructor
    · intro h; exact ⟨a, n, rfl, h⟩
    · rintro ⟨a', n', h1, h2⟩
      simp only [Except.ok.injEq, Prod.mk.injEq] at h1
      obtain ⟨rfl, rfl⟩ := h1
      exact h2

theorem single_ok (x : R (List Expr)) (a : Expr) (n : Nat) : single x = .ok (a, n) ↔ x = .ok ([a], n) := by
  unfold single
  rw [R.bind_ok]
  constructor
  · rintro ⟨l, m, hx, h⟩
    match l, h with
    | [a'], h => simp only [Except.ok.injEq, Prod.mk.injEq] at h; obtain ⟨rfl, rfl⟩ := h; exact hx
    | [], h => simp at h
    | _ :: _ :: _, h => simp at h
  · intro h
    exact ⟨[a], n, h, rfl⟩

theorem sameLen_ok (o : List Expr) (x : R (List Expr)) (l : List Expr) (n : Nat) :
    sameLen o x = .ok (l, n) ↔ x = .ok (l, n) ∧ l.length = o.length := by
  unfold sameLen
  rw [R.bind_ok]
  constructor
  · rintro ⟨l', m, hx, h⟩
    by_cases hl : l'.length = o.length
    · simp only [hl, if_true, Except.ok.injEq, Prod.mk.injEq] at h
      obtain ⟨rfl, rfl⟩ := h
      exact ⟨hx, hl⟩
    · simp [hl] at h
  · rintro ⟨hx, hl⟩
    exact ⟨l, n, hx, by simp [hl]⟩

theorem atMost_ok (o : List Expr) (x : R (List Expr)) (l : List Expr) (n : Nat) :
    atMost o x = .ok (l, n) ↔ x = .ok (l, n) ∧ l.length ≤ o.length := by
  unfold atMost
  rw [R.bind_ok]
  constructor
  · rintro ⟨l', m, hx, h⟩
    by_cases hl : l'.length ≤ o.length
    · simp only [hl, if_true, Except.ok.injEq, Prod.mk.injEq] at h
      obtain ⟨rfl, rfl⟩ := h
      exact ⟨hx, hl⟩
    · simp [hl] at h
  · rintro ⟨hx, hl⟩
    exact ⟨l, n, hx, by simp [hl]⟩

/-! ### `ReplaceTransformer`: every node of the result carries a label handed out during this call -/
mutual
theorem instE_fresh (b : Bindings) : ∀ (e : Expr) (n : Nat) (r : List Expr) (n' : Nat),
    argsOkE b e = true → instE b e n = .ok (r, n') → Fresh n (labelsEs r) n'
  | .noneMarker, n, r, n', _, h => by
      simp only [instE, Except.ok.injEq, Prod.mk.injEq] at h
      obtain ⟨rfl, rfl⟩ := h
      simp only [labelsEs, labelsE, List.append_nil]; exact Fresh.nil _
  | .name _ s c, n, r, n', _, h => by
      simp only [instE] at h
      split at h
      · simp only [Except.ok.injEq, Prod.mk.injEq] at h
        obtain ⟨rfl, rfl⟩ := h
        simp only [labelsEs, labelsE, List.append_nil]; exact Fresh.single _
      · simp only [Except.ok.injEq, Prod.mk.injEq] at h
        obtain ⟨rfl, rfl⟩ := h
        simp only [labelsEs, List.append_nil, adjTop_labels]; exact copyE_fresh _ _
      · simp only [Except.ok.injEq, Prod.mk.injEq] at h
        obtain ⟨rfl, rfl⟩ := h
        rw [map_adjTop_labels]; exact copyEs_fresh _ _
      · simp only [Except.ok.injEq, Prod.mk.injEq] at h
        obtain ⟨rfl, rfl⟩ := h
        exact Fresh.nil _
      · simp at h
  | .attr _ f_value f_attr f_ctx, n, r, n', ha, h => by
      simp only [argsOkE] at ha
      simp only [instE, R.bind_ok, single_ok] at h
      obtain ⟨v', n1, h1, h2⟩ := h
      have i1 := instE_fresh b f_value _ _ _ ha h1
      split at h2
      · simp only [Except.ok.injEq, Prod.mk.injEq] at h2
        obtain ⟨rfl, rfl⟩ := h2
        simp only [labelsEs, labelsE, List.append_nil] at i1 ⊢
        exact Fresh.cons i1
      · simp at h2
  | .keyword _ f_arg f_hasArg f_value, n, r, n', ha, h => by
      simp only [argsOkE] at ha
      simp only [instE] at h
      split at h
      · split at h
        · simp only [Except.ok.injEq, Prod.mk.injEq] at h
          obtain ⟨rfl, rfl⟩ := h
          exact copyEs_fresh _ _
        · simp at h
      · rename_i hnone
        rw [hnone] at ha
        simp only [R.bind_ok, single_ok] at h
        obtain ⟨v', n1, h1, h2⟩ := h
        have i1 := instE_fresh b f_value _ _ _ ha h1
        simp only [Except.ok.injEq, Prod.mk.injEq] at h2
        obtain ⟨rfl, rfl⟩ := h2
        simp only [labelsEs, labelsE, List.append_nil] at i1 ⊢
        exact Fresh.cons i1
  | .arg _ f_name f_annotation, n, r, n', ha, h => by
      simp only [argsOkE] at ha
      simp only [instE] at h
      split at h
      · simp only [Except.ok.injEq, Prod.mk.injEq] at h
        obtain ⟨rfl, rfl⟩ := h
        simp only [labelsEs, labelsE, List.append_nil]
        exact Fresh.cons (copyEs_fresh _ _)
      · rename_i e hl
        rw [hl] at ha
        simp only [Except.ok.injEq, Prod.mk.injEq] at h
        obtain ⟨rfl, rfl⟩ := h
        exact argRepl_fresh _ _ (by simpa [Binding.exprs] using ha)
      · rename_i es hl
        rw [hl] at ha
        simp only [Except.ok.injEq, Prod.mk.injEq] at h
        obtain ⟨rfl, rfl⟩ := h
        exact argRepl_fresh _ _ (by simpa [Binding.exprs] using ha)
      · simp only [Except.ok.injEq, Prod.mk.injEq] at h
        obtain ⟨rfl, rfl⟩ := h
        exact Fresh.nil _
      · simp at h''')

def acc(i, k):
    """accessor of the i-th of k right-nested conjuncts"""
    if k == 1:
        return ''
    s = '.2' * i
    if i < k - 1:
        s += '.1'
    return s

def inst_case(cname, fs, stmt=False):
    rf = rec_fields(fs)
    k = len(rf)
    lines = []
    lines.append('  | %s, n, r, n\', ha, h => by' % pat(cname, fs))
    okfn = 'argsOkS' if stmt else 'argsOkE'
    lines.append('      simp only [%s, Bool.and_eq_true] at ha' % okfn)
    lines.append('      simp only [%s, R.bind_ok, single_ok, sameLen_ok, atMost_ok] at h' % ('instS' if stmt else 'instE'))
    if k:
        pats = []
        for i, f in enumerate(rf):
            if kind(f) in ('EsSame', 'EsLe'):
                pats += ["x%d" % i, "m%d" % i, "⟨h%d, _⟩" % i]
            else:
                pats += ["x%d" % i, "m%d" % i, "h%d" % i]
        pats.append('hres')
        lines.append('      obtain ⟨%s⟩ := h' % ', '.join(pats))
    else:
        lines.append('      have hres := h')
    lines.append('      simp only [Except.ok.injEq, Prod.mk.injEq] at hres')
    lines.append('      obtain ⟨rfl, rfl⟩ := hres')
    hs = []
    for i, f in enumerate(rf):
        fn = {'E': 'instE_fresh', 'Es': 'instEs_fresh', 'EsSame': 'instEs_fresh', 'EsLe': 'instEs_fresh', 'Ss': 'instSs_fresh'}[kind(f)]
        lines.append('      have i%d := %s b %s _ _ _ ha%s h%d' % (i, fn, vn(f), acc(i, k), i))
        hs.append('i%d' % i)
    at = (' at ' + ' '.join(hs) + ' ⊢') if hs else ''
    lab = 'labelsSs, labelsS, labelsEs, labelsE' if stmt else 'labelsEs, labelsE'
    lines.append('      simp only [%s, List.append_nil]%s' % (lab, at))
    from gen_fresh_chain import chain
    lines.append('      exact Fresh.cons %s' % chain(hs))
    return '\n'.join(lines)
import types
m = types.ModuleType('gen_fresh_chain'); m.chain = chain; sys.modules['gen_fresh_chain'] = m
for cname, fs in EXPR_ALL:
    if cname in INST_SPECIAL_E:
        continue
    A(inst_case(cname, fs))
A('''theorem instEs_fresh (b : Bindings) : ∀ (es : List Expr) (n : Nat) (r : List Expr) (n' : Nat),
    argsOkEs b es = true → instEs b es n = .ok (r, n') → Fresh n (labelsEs r) n'
  | [], n, r, n', _, h => by
      simp only [instEs, Except.ok.injEq, Prod.mk.injEq] at h
      obtain ⟨rfl, rfl⟩ := h
      exact Fresh.nil _
  | e :: es, n, r, n', ha, h => by
      simp only [argsOkEs, Bool.and_eq_true] at ha
      simp only [instEs, R.bind_ok] at h
      obtain ⟨l, n1, h1, t, n2, h2, hres⟩ := h
      simp only [Except.ok.injEq, Prod.mk.injEq] at hres
      obtain ⟨rfl, rfl⟩ := hres
      have i1 := instE_fresh b e _ _ _ ha.1 h1
      have i2 := instEs_fresh b es _ _ _ ha.2 h2
      rw [labelsEs_append]
      exact Fresh.append i1 i2
end''')
# the mutual block above needs labelsEs_append before it: patch by inserting the lemma earlier
txt = '\n'.join(out)
lemma = '''theorem labelsEs_append : ∀ (l r : List Expr), labelsEs (l ++ r) = labelsEs l ++ labelsEs r
  | [], r => by simp [labelsEs]
  | e :: l, r => by simp [labelsEs, labelsEs_append l r]

theorem labelsSs_append : ∀ (l r : List Stmt), labelsSs (l ++ r) = labelsSs l ++ labelsSs r
  | [], r => by simp [labelsSs]
  | e :: l, r => by simp [labelsSs, labelsSs_append l r]

'''
txt = txt.replace('/-! ### destructuring the result monad -/', lemma + '/-! ### destructuring the result monad -/')
out = [txt]
A = out.append
A('''
mutual
theorem instS_fresh (b : Bindings) : ∀ (s : Stmt) (n : Nat) (r : List Stmt) (n' : Nat),
    argsOkS b s = true → instS b s n = .ok (r, n') → Fresh n (labelsSs r) n'
  | .expr _ f_value, n, r, n', ha, h => by
      simp only [instS] at h
      split at h
      · split at h
        · simp only [Except.ok.injEq, Prod.mk.injEq] at h
          obtain ⟨rfl, rfl⟩ := h
          simp only [labelsSs, labelsS, labelsE, List.append_nil]
          exact Fresh.cons (Fresh.single _)
        · simp only [Except.ok.injEq, Prod.mk.injEq] at h
          obtain ⟨rfl, rfl⟩ := h
          simp only [labelsSs, List.append_nil]
          exact copyS_fresh _ _
        · simp only [Except.ok.injEq, Prod.mk.injEq] at h
          obtain ⟨rfl, rfl⟩ := h
          exact copySs_fresh _ _
        · simp only [Except.ok.injEq, Prod.mk.injEq] at h
          obtain ⟨rfl, rfl⟩ := h
          exact Fresh.nil _
        · simp at h
      · rename_i hnn
        simp only [R.bind_ok, single_ok] at h
        obtain ⟨v', n1, h1, h2⟩ := h
        have ha' : argsOkE b f_value = true := by
          cases f_value <;> first | (simp only [argsOkS] at ha; exact ha) | (exact absurd rfl (hnn _ _ _))
        have i1 := instE_fresh b f_value _ _ _ ha' h1
        simp only [Except.ok.injEq, Prod.mk.injEq] at h2
        obtain ⟨rfl, rfl⟩ := h2
        simp only [labelsSs, labelsS, labelsEs, List.append_nil] at i1 ⊢
        exact Fresh.cons i1
  | .functionDef _ f_name f_args f_body f_decorators f_returns f_isAsync, n, r, n', ha, h => by
      simp only [argsOkS, Bool.and_eq_true] at ha
      simp only [instS, R.bind_ok, single_ok, sameLen_ok, atMost_ok] at h
      obtain ⟨x0, m0, h0, x1, m1, h1, x2, m2, h2, x3, m3, ⟨h3, _⟩, hres⟩ := h
      have i0 := instE_fresh b f_args _ _ _ ha.1 h0
      have i1 := instSs_fresh b f_body _ _ _ ha.2.1 h1
      have i2 := instEs_fresh b f_decorators _ _ _ ha.2.2.1 h2
      have i3 := instEs_fresh b f_returns _ _ _ ha.2.2.2 h3
      split at hres
      · simp only [Except.ok.injEq, Prod.mk.injEq] at hres
        obtain ⟨rfl, rfl⟩ := hres
        simp only [labelsSs, labelsS, labelsEs, labelsE, List.append_nil] at i0 i1 i2 i3 ⊢
        exact Fresh.cons (Fresh.append i0 (Fresh.append i1 (Fresh.append i2 i3)))
      · simp at hres''')
for cname, fs in STMT:
    if cname in ('expr', 'functionDef'):
        continue
    A(inst_case(cname, fs, True))
A('''theorem instSs_fresh (b : Bindings) : ∀ (ss : List Stmt) (n : Nat) (r : List Stmt) (n' : Nat),
    argsOkSs b ss = true → instSs b ss n = .ok (r, n') → Fresh n (labelsSs r) n'
  | [], n, r, n', _, h => by
      simp only [instSs, Except.ok.injEq, Prod.mk.injEq] at h
      obtain ⟨rfl, rfl⟩ := h
      exact Fresh.nil _
  | s :: ss, n, r, n', ha, h => by
      simp only [argsOkSs, Bool.and_eq_true] at ha
      simp only [instSs, R.bind_ok] at h
      obtain ⟨l, n1, h1, t, n2, h2, hres⟩ := h
      simp only [Except.ok.injEq, Prod.mk.injEq] at hres
      obtain ⟨rfl, rfl⟩ := hres
      have i1 := instS_fresh b s _ _ _ ha.1 h1
      have i2 := instSs_fresh b ss _ _ _ ha.2 h2
      rw [labelsSs_append]
      exact Fresh.append i1 i2
end

end Malt.Conv.Template
''')
open(__import__('os').path.join(__import__('os').path.dirname(__import__('os').path.abspath(__file__)), '..', '..', 'lean') + '/MaltModel/Proofs/C17Fresh.lean', 'w').write('\n'.join(out))
