import sys, os
sys.path.insert(0, os.path.dirname(os.path.abspath(__file__)))
from table import *

def pat(cname, fs, lab='_'):
    return ('.%s %s %s' % (cname, lab, ' '.join(vn(f) for f in fs))).rstrip()

out = []
A = out.append
A('''import MaltModel.Py.Ast
/-
C17: decidable predicates on the SOURCE function that name the two `Feature.LISTS` converter defects found by the
verified context checker (they are finding classes; see Props/C17.lean §5):
* `hasStoreListDisplay`      a list display `[a, b]` in a Store/Del position (`[x, y] = v`, `for [i, j] in …`,
                             `with cm as [x, *y]`): lists.py `visit_List` rewrites EVERY `List` node into the call
                             `ag__.new_list([...])`, also where a target is expected.
* `appendInExprPosition`     an `X.append(e)` call that is not itself an expression statement: lists.py replaces the
                             call by the *statement* `X = ag__.list_append(X, e)`, also inside a larger expression.
`subE`/`subS` list every sub-expression (preorder); `stmtVals` lists the values of all expression statements.
-/
set_option linter.unusedVariables false
namespace Malt.Conv.SrcClass
open Malt.Py

mutual
def subE : Expr → List Expr
  | .noneMarker => []''')
for cname, fs in EXPR_ALL:
    rf = rec_fields(fs)
    parts = [('subE ' if kind(f) == 'E' else 'subEs ') + vn(f) for f in rf]
    A('  | e@(%s) => e :: (%s)' % (pat(cname, fs), ' ++ '.join(parts) if parts else '[]'))
A('''def subEs : List Expr → List Expr
  | [] => []
  | e :: es => subE e ++ subEs es
end
mutual
def subS : Stmt → List Expr''')
for cname, fs in STMT:
    rf = rec_fields(fs)
    parts = [('subE ' if kind(f) == 'E' else 'subSs ' if kind(f) == 'Ss' else 'subEs ') + vn(f) for f in rf]
    A('  | %s => %s' % (pat(cname, fs), ' ++ '.join(parts) if parts else '[]'))
A('''def subSs : List Stmt → List Expr
  | [] => []
  | s :: ss => subS s ++ subSs ss
end
mutual
/-- values of all expression statements (at any nesting depth of statements) -/
def stmtVals : Stmt → List Expr''')
for cname, fs in STMT:
    rf = [f for f in fs if kind(f) == 'Ss']
    if cname == 'expr':
        A('  | .expr _ f_value => [f_value]')
        continue
    parts = ['stmtValsSs ' + vn(f) for f in rf]
    A('  | %s => %s' % (pat(cname, fs), ' ++ '.join(parts) if parts else '[]'))
A('''def stmtValsSs : List Stmt → List Expr
  | [] => []
  | s :: ss => stmtVals s ++ stmtValsSs ss
end

/-- lists.py visit_Call: `isinstance(func, Attribute) and func.attr == 'append' and len(args) == 1` -/
def isAppendCall : Expr → Bool
  | .call _ (.attr _ _ "append" _) [_] _ => true
  | _ => false

def isStoreListDisplay : Expr → Bool
  | .seq _ .list _ c => c != .load
  | _ => false

def hasStoreListDisplay (s : Stmt) : Bool := (subS s).any isStoreListDisplay

def appendInExprPosition (s : Stmt) : Bool :=
  ((subS s).filter isAppendCall).length > ((stmtVals s).filter isAppendCall).length

end Malt.Conv.SrcClass
''')
open(os.path.join(os.path.dirname(os.path.abspath(__file__)), '..', '..', 'lean', 'MaltModel', 'Conv', 'SrcClass.lean'), 'w').write('\n'.join(out))
