import sys
sys.path.insert(0, __import__('os').path.dirname(__import__('os').path.abspath(__file__)))
from table import *
from gen_template import pat, INST_SPECIAL_E

out = []
A = out.append
A('''import MaltModel.Proofs.C17Ctx
import MaltModel.Proofs.C17Fresh
/- C17 helper lemmas: context well-formedness is preserved by copy_clean, established by the ContextAdjuster under
`exposedOk`, and preserved by template instantiation under `usesOk`. -/
set_option linter.unusedSimpArgs false
set_option linter.unusedVariables false
namespace Malt.Conv.Template
open Malt.Py Malt.Conv

/-! ### copies -/
mutual
theorem copyE_wf : ∀ (e : Expr) (c : Ctx) (n : Nat), WfE c e → WfE c (copyE e n).1
  | .noneMarker, c, n, h => by simp [copyE, WfE]
  | .name _ _ _, c, n, h => by simp only [WfE] at h; simp [copyE, WfE, h]
  | .attr _ v _ _, c, n, h => by
      simp only [WfE] at h
      have i1 := copyE_wf v .load (n + 1) h.2
      simp [copyE, WfE, h.1, i1]
  | .subscript _ v s _, c, n, h => by
      simp only [WfE] at h
      have i1 := copyE_wf v .load (n + 1) h.2.1
      have i2 := copyE_wf s .load (copyE v (n + 1)).2 h.2.2
      simp [copyE, WfE, h.1, i1, i2]
  | .seq _ k es _, c, n, h => by
      simp only [WfE] at h
      have i1 := copyEs_wf es c (n + 1) h.2.2
      simp [copyE, WfE, h.1, h.2.1, i1]
  | .starred _ v _, c, n, h => by
      simp only [WfE] at h
      have i1 := copyE_wf v c (n + 1) h.2
      simp [copyE, WfE, h.1, i1]''')

def acc(i, k):
    if k == 1:
        return ''
    s = '.2' * i
    if i < k - 1:
        s += '.1'
    return s

def copy_case(cname, fs, stmt=False):
    rf = rec_fields(fs)
    k = len(rf)
    lines = ['  | %s, %sn, h => by' % (pat(cname, fs), '' if stmt else 'c, ')]
    lines.append('      simp only [%s] at h' % ('WfS' if stmt else 'WfE'))
    hs = []
    tot = k if stmt else k + 1
    for i, f in enumerate(rf):
        j = i if stmt else i + 1
        fn = {'E': 'copyE_wf', 'Es': 'copyEs_wf', 'EsSame': 'copyEs_wf', 'EsLe': 'copyEs_wf', 'Ss': 'copySs_wf'}[kind(f)]
        cx = '' if kind(f) == 'Ss' else ' ' + fctx(f)
        lines.append('      have i%d := %s %s%s _ h%s' % (i, fn, vn(f), cx, acc(j, tot)))
        hs.append('i%d' % i)
    extra = ([] if stmt else ['h' + acc(0, tot)]) + hs
    # the counters in the goal are concrete terms; `_` above is unified when the have is used by simp? no: give simp the
    # universally quantified versions instead
    return None

# simpler and robust: use the IH as rewriting facts for *every* counter
def copy_case2(cname, fs, stmt=False):
    rf = rec_fields(fs)
    k = len(rf)
    lines = ['  | %s, %sn, h => by' % (pat(cname, fs), '' if stmt else 'c, ')]
    lines.append('      simp only [%s] at h' % ('WfS' if stmt else 'WfE'))
    hs = []
    tot = k if stmt else k + 1
    for i, f in enumerate(rf):
        j = i if stmt else i + 1
        fn = {'E': 'copyE_wf', 'Es': 'copyEs_wf', 'EsSame': 'copyEs_wf', 'EsLe': 'copyEs_wf', 'Ss': 'copySs_wf'}[kind(f)]
        cx = '' if kind(f) == 'Ss' else ' ' + fctx(f)
        lines.append('      have i%d := fun m => %s %s%s m h%s' % (i, fn, vn(f), cx, acc(j, tot)))
        hs.append('i%d' % i)
    extra = ([] if stmt else ['h' + acc(0, tot)]) + hs
    lines.append('      simp [%s, %s%s]' % ('copyS' if stmt else 'copyE', 'WfS' if stmt else 'WfE', ''.join(', ' + x for x in extra)))
    return '\n'.join(lines)
for cname, fs in EXPR_GENERIC:
    A(copy_case2(cname, fs))
A('''theorem copyEs_wf : ∀ (es : List Expr) (c : Ctx) (n : Nat), WfEs c es → WfEs c (copyEs es n).1
  | [], c, n, h => by simp [copyEs, WfEs]
  | e :: es, c, n, h => by
      simp only [WfEs] at h
      have i1 := copyE_wf e c n h.1
      have i2 := copyEs_wf es c (copyE e n).2 h.2
      simp [copyEs, WfEs, i1, i2]
end
mutual
theorem copyS_wf : ∀ (s : Stmt) (n : Nat), WfS s → WfS (copyS s n).1''')
for cname, fs in STMT:
    A(copy_case2(cname, fs, True))
A('''theorem copySs_wf : ∀ (ss : List Stmt) (n : Nat), WfSs ss → WfSs (copySs ss n).1
  | [], n, h => by simp [copySs, WfSs]
  | s :: ss, n, h => by
      simp only [WfSs] at h
      have i1 := copyS_wf s n h.1
      have i2 := copySs_wf ss (copyS s n).2 h.2
      simp [copySs, WfSs, i1, i2]
end

/-! ### the copy has the same shape as far as the adjuster's preconditions are concerned -/
mutual
theorem copy_exposedOk : ∀ (e : Expr) (c : Ctx) (n : Nat), exposedOk c (copyE e n).1 = exposedOk c e
  | .noneMarker, c, n => by simp [copyE]''')
for cname, fs in EXPR_ALL:
    rf = rec_fields(fs)
    hs = []
    for f in rf:
        fn = 'copy_exposedOk' if kind(f) == 'E' else 'copy_exposedOkEs'
        hs.append('%s %s' % (fn, vn(f)))
    extra = ''
    if cname == 'withitem':
        extra = ', copyEs_isEmpty'
    A('  | %s, c, n => by simp [copyE, exposedOk%s%s]' % (pat(cname, fs), ''.join(', ' + h for h in hs), extra))
A('''theorem copy_exposedOkEs : ∀ (es : List Expr) (c : Ctx) (n : Nat), exposedOkEs c (copyEs es n).1 = exposedOkEs c es
  | [], c, n => by simp [copyEs]
  | e :: es, c, n => by simp [copyEs, exposedOkEs, copy_exposedOk e, copy_exposedOkEs es]
end
''')
txt = '\n'.join(out)
txt = txt.replace('''/-! ### the copy has the same shape as far as''', '''theorem copyEs_isEmpty : ∀ (es : List Expr) (n : Nat), (copyEs es n).1.isEmpty = es.isEmpty
  | [], n => by simp [copyEs]
  | e :: es, n => by simp [copyEs]

/-! ### the copy has the same shape as far as''')
out = [txt]
A = out.append
A('''theorem copy_hasCtxField (e : Expr) (n : Nat) : hasCtxField (copyE e n).1 = hasCtxField e := by
  cases e <;> simp [copyE, hasCtxField]

theorem copy_isName (e : Expr) (n : Nat) : isName (copyE e n).1 = isName e := by
  cases e <;> simp [copyE, isName]

theorem copy_useOk (c : Ctx) (e : Expr) (n : Nat) : useOk c (copyE e n).1 = useOk c e := by
  simp [useOk, copy_hasCtxField, copy_exposedOk]

/-! ### ContextAdjuster -/
mutual
theorem adjust_wf : ∀ (e : Expr) (c0 c : Ctx), WfE c0 e → exposedOk c e = true → WfE c (adjust c e)
  | .noneMarker, _, _, _, _ => by simp [adjust, WfE]
  | .name .., _, _, _, _ => by simp [adjust, WfE]
  | .attr _ v _ _, c0, c, hw, hx => by
      simp only [WfE] at hw
      simp only [exposedOk] at hx
      have i1 := adjust_wf v _ _ hw.2 hx
      simp [adjust, WfE, i1]
  | .subscript _ v s _, c0, c, hw, hx => by
      simp only [WfE] at hw
      simp only [exposedOk, Bool.and_eq_true] at hx
      have i1 := adjust_wf v _ _ hw.2.1 hx.1
      have i2 := adjust_wf s _ _ hw.2.2 hx.2
      simp [adjust, WfE, i1, i2]
  | .seq _ k es c', c0, c, hw, hx => by
      simp only [WfE] at hw
      simp only [exposedOk, Bool.and_eq_true, Bool.or_eq_true, bne_iff_ne, ne_eq, beq_iff_eq] at hx
      have i1 := adjustEs_wf es _ _ hw.2.2 hx.2
      by_cases hk : k = .set
      · have hc : c = .load := by
          cases hx.1 with
          | inl h => exact absurd hk h
          | inr h => exact h
        have hc0 : c0 = .load := by
          cases hw.2.1 with
          | inl h => exact absurd hk h
          | inr h => exact h
        have hc' : c' = .load := by rw [hw.1, hc0]
        simp [adjust, WfE, hk, hc, hc'] at i1 ⊢
        exact i1
      · simp [adjust, WfE, hk, i1]
  | .starred _ v c', c0, c, hw, hx => by
      simp only [WfE] at hw
      simp only [exposedOk, Bool.and_eq_true, beq_iff_eq] at hx
      have i1 := adjust_wf v _ _ hw.2 hx.2
      simp [adjust, WfE, hx.1, i1]
  | .const .., c0, c, hw, hx => by
      simp only [exposedOk, beq_iff_eq] at hx
      simp [adjust, WfE, hx]
  | .call _ f as ks, c0, c, hw, hx => by
      simp only [WfE] at hw
      simp only [exposedOk, beq_iff_eq] at hx
      simp [adjust, WfE, hx, hw.2]
  | .lambda _ a b, c0, c, hw, hx => by
      simp only [WfE] at hw
      simp only [exposedOk, beq_iff_eq] at hx
      simp [adjust, WfE, hx, hw.2]
  | .comprehension _ t it ifs a, c0, c, hw, hx => by
      simp only [WfE] at hw
      simp only [exposedOk, beq_iff_eq] at hx
      simp [adjust, WfE, hx, hw.2]
  | .keyword _ _ _ v, c0, c, hw, hx => by
      simp only [WfE] at hw
      simp only [exposedOk, Bool.and_eq_true, beq_iff_eq, and_assoc] at hx
      obtain ⟨rfl, h1⟩ := hx
      have i1 := adjust_wf v _ _ hw.2 h1
      simp [adjust, WfE, i1]
  | .boolop _ _ vs, c0, c, hw, hx => by
      simp only [WfE] at hw
      simp only [exposedOk, Bool.and_eq_true, beq_iff_eq, and_assoc] at hx
      obtain ⟨rfl, h1⟩ := hx
      have i1 := adjustEs_wf vs _ _ hw.2 h1
      simp [adjust, WfE, i1]
  | .unary _ _ e, c0, c, hw, hx => by
      simp only [WfE] at hw
      simp only [exposedOk, Bool.and_eq_true, beq_iff_eq, and_assoc] at hx
      obtain ⟨rfl, h1⟩ := hx
      have i1 := adjust_wf e _ _ hw.2 h1
      simp [adjust, WfE, i1]
  | .binop _ _ l r, c0, c, hw, hx => by
      simp only [WfE] at hw
      simp only [exposedOk, Bool.and_eq_true, beq_iff_eq, and_assoc] at hx
      obtain ⟨rfl, h1, h2⟩ := hx
      have i1 := adjust_wf l _ _ hw.2.1 h1
      have i2 := adjust_wf r _ _ hw.2.2 h2
      simp [adjust, WfE, i1, i2]
  | .compare _ l _ rs, c0, c, hw, hx => by
      simp only [WfE] at hw
      simp only [exposedOk, Bool.and_eq_true, beq_iff_eq, and_assoc] at hx
      obtain ⟨rfl, h1, h2⟩ := hx
      have i1 := adjust_wf l _ _ hw.2.1 h1
      have i2 := adjustEs_wf rs _ _ hw.2.2 h2
      simp [adjust, WfE, i1, i2]
  | .ifexp _ t b e, c0, c, hw, hx => by
      simp only [WfE] at hw
      simp only [exposedOk, Bool.and_eq_true, beq_iff_eq, and_assoc] at hx
      obtain ⟨rfl, h1, h2, h3⟩ := hx
      have i1 := adjust_wf t _ _ hw.2.1 h1
      have i2 := adjust_wf b _ _ hw.2.2.1 h2
      have i3 := adjust_wf e _ _ hw.2.2.2 h3
      simp [adjust, WfE, i1, i2, i3]
  | .namedexpr .., _, _, _, hx => by simp [exposedOk] at hx
  | .comp _ _ es gs, c0, c, hw, hx => by
      simp only [WfE] at hw
      simp only [exposedOk, Bool.and_eq_true, beq_iff_eq, and_assoc] at hx
      obtain ⟨rfl, h1, h2⟩ := hx
      have i1 := adjustEs_wf es _ _ hw.2.1 h1
      have i2 := adjustEs_wf gs _ _ hw.2.2 h2
      simp [adjust, WfE, i1, i2]
  | .arguments _ po ar va ko kd kw df, c0, c, hw, hx => by
      simp only [WfE] at hw
      simp only [exposedOk, Bool.and_eq_true, beq_iff_eq, and_assoc] at hx
      obtain ⟨rfl, h1, h2, h3, h4, h5, h6, h7⟩ := hx
      have i1 := adjustEs_wf po _ _ hw.2.1 h1
      have i2 := adjustEs_wf ar _ _ hw.2.2.1 h2
      have i3 := adjustEs_wf va _ _ hw.2.2.2.1 h3
      have i4 := adjustEs_wf ko _ _ hw.2.2.2.2.1 h4
      have i5 := adjustEs_wf kd _ _ hw.2.2.2.2.2.1 h5
      have i6 := adjustEs_wf kw _ _ hw.2.2.2.2.2.2.1 h6
      have i7 := adjustEs_wf df _ _ hw.2.2.2.2.2.2.2 h7
      simp [adjust, WfE, i1, i2, i3, i4, i5, i6, i7]
  | .arg _ _ an, c0, c, hw, hx => by
      simp only [WfE] at hw
      simp only [exposedOk, Bool.and_eq_true, beq_iff_eq, and_assoc] at hx
      obtain ⟨rfl, h1⟩ := hx
      have i1 := adjustEs_wf an _ _ hw.2 h1
      simp [adjust, WfE, i1]
  | .withitem _ ce ov, c0, c, hw, hx => by
      simp only [WfE] at hw
      simp only [exposedOk, Bool.and_eq_true, beq_iff_eq, and_assoc, List.isEmpty_iff] at hx
      obtain ⟨rfl, h1, rfl⟩ := hx
      have i1 := adjust_wf ce _ _ hw.2.1 h1
      simp [adjust, adjustEs, WfE, WfEs, i1]
  | .other _ k _ kids, c0, c, hw, hx => by
      simp only [WfE] at hw
      simp only [exposedOk, Bool.and_eq_true, Bool.or_eq_true, beq_iff_eq] at hx
      obtain ⟨rfl, h1⟩ := hx
      by_cases hk : k = "Dict"
      · simp [adjust, hk, WfE, hw.2]
      · have h2 : exposedOkEs .load kids = true := by
          cases h1 with
          | inl h => exact absurd h hk
          | inr h => exact h
        have i1 := adjustEs_wf kids _ _ hw.2 h2
        simp [adjust, hk, WfE, i1]
theorem adjustEs_wf : ∀ (es : List Expr) (c0 c : Ctx), WfEs c0 es → exposedOkEs c es = true → WfEs c (adjustEs c es)
  | [], _, _, _, _ => by simp [adjustEs, WfEs]
  | e :: es, c0, c, hw, hx => by
      simp only [WfEs] at hw
      simp only [exposedOkEs, Bool.and_eq_true] at hx
      have i1 := adjust_wf e _ _ hw.1 hx.1
      have i2 := adjustEs_wf es _ _ hw.2 hx.2
      simp [adjustEs, WfEs, i1, i2]
end

/-- a node without a ctx field is only well-formed in a `Load` position -/
theorem wf_load_of_noCtx (e : Expr) (c0 : Ctx) (hw : WfE c0 e) (hn : hasCtxField e = false) : WfE .load e := by
  cases e with
  | seq i k es c' =>
      have hk : k = .set := by simpa [hasCtxField] using hn
      subst hk
      simp only [WfE] at hw
      obtain ⟨h1, h2, h3⟩ := hw
      have hc : c0 = .load := by simpa using h2
      subst hc
      simp [WfE, h1, h3]
  | name | attr | subscript | starred => simp [hasCtxField] at hn
  | noneMarker => simp [WfE]
  | _ => simp [WfE] at hw ⊢ <;> exact hw.2

theorem adjTop_wf (e : Expr) (c0 c : Ctx) (hw : WfE c0 e) (hu : useOk c e = true) : WfE c (adjTop c e) := by
  unfold useOk at hu
  unfold adjTop
  by_cases hc : hasCtxField e = true
  · simp only [hc, if_true] at hu ⊢
    exact adjust_wf e c0 c hw hu
  · have hc' : hasCtxField e = false := by simpa using hc
    simp only [hc', Bool.false_eq_true, if_false, beq_iff_eq] at hu ⊢
    subst hu
    exact wf_load_of_noCtx e c0 hw hc'

/-! ### bindings -/

/-- every bound node was well-formed where it came from (`∃ c`), every bound statement is well-formed -/
def BindingWf : Binding → Prop
  | .node e => ∃ c, WfE c e
  | .nodes es => ∀ e ∈ es, ∃ c, WfE c e
  | .stmt s => WfS s
  | .stmts ss => WfSs ss

def BindingsWf (b : Bindings) : Prop := ∀ p ∈ b, BindingWf p.2

theorem lookup_mem : ∀ (b : Bindings) (s : String) (bd : Binding), b.lookup s = some bd → ∃ k, (k, bd) ∈ b
  | [], s, bd, h => by simp [List.lookup] at h
  | (k, v) :: r, s, bd, h => by
      simp only [List.lookup] at h
      split at h
      · simp only [Option.some.injEq] at h
        exact ⟨k, by simp [h]⟩
      · obtain ⟨k', hk⟩ := lookup_mem r s bd h
        exact ⟨k', List.mem_cons_of_mem _ hk⟩

theorem BindingsWf.of_lookup {b : Bindings} (hb : BindingsWf b) {s : String} {bd : Binding} (h : b.lookup s = some bd) :
    BindingWf bd := by
  obtain ⟨k, hk⟩ := lookup_mem b s bd h
  exact hb (k, bd) hk

theorem copyEs_adj_wf (c : Ctx) : ∀ (es : List Expr) (n : Nat), (∀ e ∈ es, ∃ c0, WfE c0 e) → es.all (useOk c) = true →
    WfEs c ((copyEs es n).1.map (adjTop c))
  | [], n, _, _ => by simp [copyEs, WfEs]
  | e :: es, n, hw, hu => by
      simp only [List.all_cons, Bool.and_eq_true] at hu
      obtain ⟨c0, h0⟩ := hw e (by simp)
      have i1 := adjTop_wf (copyE e n).1 c0 c (copyE_wf e c0 n h0) (by rw [copy_useOk]; exact hu.1)
      have i2 := copyEs_adj_wf c es (copyE e n).2 (fun x hx => hw x (by simp [hx])) hu.2
      simp [copyEs, WfEs, i1, i2]

theorem copyEs_noCtx_wf : ∀ (es : List Expr) (n : Nat), (∀ e ∈ es, ∃ c0, WfE c0 e) → (∀ e ∈ es, hasCtxField e = false) →
    WfEs .load (copyEs es n).1
  | [], n, _, _ => by simp [copyEs, WfEs]
  | e :: es, n, hw, hn => by
      obtain ⟨c0, h0⟩ := hw e (by simp)
      have i1 := copyE_wf e .load n (wf_load_of_noCtx e c0 h0 (hn e (by simp)))
      have i2 := copyEs_noCtx_wf es (copyE e n).2 (fun x hx => hw x (by simp [hx])) (fun x hx => hn x (by simp [hx]))
      simp [copyEs, WfEs, i1, i2]

theorem isKeyword_noCtx (e : Expr) (h : isKeyword e = true) : hasCtxField e = false := by
  cases e <;> simp [isKeyword] at h <;> simp [hasCtxField]

theorem argRepl_wf : ∀ (es : List Expr) (n : Nat), (∀ e ∈ es, ∃ c0, WfE c0 e) →
    es.all (fun x => isName x || !hasCtxField x) = true → WfEs .load (argRepl es n).1
  | [], n, _, _ => by simp [argRepl, WfEs]
  | e :: es, n, hw, hu => by
      simp only [List.all_cons, Bool.and_eq_true] at hu
      have hrec := fun m => argRepl_wf es m (fun x hx => hw x (by simp [hx])) hu.2
      obtain ⟨c0, h0⟩ := hw e (by simp)
      cases e with
      | name i s c => simp [argRepl, WfEs, WfE, hrec]
      | attr | subscript | starred => simp [isName, hasCtxField] at hu
      | seq i k es' c' =>
          simp only [argRepl, WfEs]
          refine ⟨wf_load_of_noCtx _ c0 h0 ?_, hrec _⟩
          simpa [isName, hasCtxField] using hu.1
      | _ =>
          simp only [argRepl, WfEs]
          exact ⟨wf_load_of_noCtx _ c0 h0 (by simp [hasCtxField]), hrec _⟩

theorem WfEs_append : ∀ (c : Ctx) (l r : List Expr), WfEs c (l ++ r) ↔ WfEs c l ∧ WfEs c r
  | c, [], r => by simp [WfEs]
  | c, e :: l, r => by simp [WfEs, WfEs_append c l r, and_assoc]

theorem WfSs_append : ∀ (l r : List Stmt), WfSs (l ++ r) ↔ WfSs l ∧ WfSs r
  | [], r => by simp [WfSs]
  | e :: l, r => by simp [WfSs, WfSs_append l r, and_assoc]

/-! ### `ReplaceTransformer` preserves context well-formedness -/
mutual
theorem instE_wf (b : Bindings) (hb : BindingsWf b) : ∀ (e : Expr) (c : Ctx) (n : Nat) (r : List Expr) (n' : Nat),
    WfE c e → usesOkE b e = true → instE b e n = .ok (r, n') → WfEs c r
  | .noneMarker, c, n, r, n', _, _, h => by
      simp only [instE, Except.ok.injEq, Prod.mk.injEq] at h
      obtain ⟨rfl, rfl⟩ := h
      simp [WfEs, WfE]
  | .name _ s c', c, n, r, n', hw, hu, h => by
      simp only [WfE] at hw
      subst hw
      simp only [usesOkE] at hu
      simp only [instE] at h
      split at h
      · simp only [Except.ok.injEq, Prod.mk.injEq] at h
        obtain ⟨rfl, rfl⟩ := h
        simp [WfEs, WfE]
      · rename_i e hl
        rw [hl] at hu
        simp only [Except.ok.injEq, Prod.mk.injEq] at h
        obtain ⟨rfl, rfl⟩ := h
        obtain ⟨c0, h0⟩ := hb.of_lookup hl
        have := copyEs_adj_wf c' [e] n (by intro x hx; simp at hx; subst hx; exact ⟨c0, h0⟩) (by simpa [Binding.exprs] using hu)
        simpa [copyEs] using this
      · rename_i es hl
        rw [hl] at hu
        simp only [Except.ok.injEq, Prod.mk.injEq] at h
        obtain ⟨rfl, rfl⟩ := h
        exact copyEs_adj_wf c' es n (hb.of_lookup hl) (by simpa [Binding.exprs] using hu)
      · simp only [Except.ok.injEq, Prod.mk.injEq] at h
        obtain ⟨rfl, rfl⟩ := h
        simp [WfEs]
      · simp at h
  | .attr _ f_value f_attr f_ctx, c, n, r, n', hw, hu, h => by
      simp only [WfE] at hw
      simp only [usesOkE] at hu
      simp only [instE, R.bind_ok, single_ok] at h
      obtain ⟨v', n1, h1, h2⟩ := h
      have i1 := instE_wf b hb f_value _ _ _ _ hw.2 hu h1
      simp only [WfEs, and_true] at i1
      split at h2
      · simp only [Except.ok.injEq, Prod.mk.injEq] at h2
        obtain ⟨rfl, rfl⟩ := h2
        simp [WfEs, WfE, hw.1, i1]
      · simp at h2
  | .keyword _ f_arg f_hasArg f_value, c, n, r, n', hw, hu, h => by
      simp only [WfE] at hw
      obtain ⟨rfl, hw2⟩ := hw
      simp only [usesOkE] at hu
      simp only [instE] at h
      split at h
      · rename_i bd hl
        split at h
        · rename_i hk
          simp only [Except.ok.injEq, Prod.mk.injEq] at h
          obtain ⟨rfl, rfl⟩ := h
          have hl' : b.lookup f_arg = some bd := by
            by_cases hh : f_hasArg = true
            · simpa [hh] using hl
            · simp [hh] at hl
          simp only [Bool.and_eq_true, List.all_eq_true] at hk
          have hbw := hb.of_lookup hl'
          refine copyEs_noCtx_wf _ _ ?_ (fun e he => isKeyword_noCtx e (hk.1 e he))
          cases bd with
          | node e => intro x hx; simp [Binding.exprs] at hx; subst hx; exact hbw
          | nodes es => intro x hx; exact hbw x (by simpa [Binding.exprs] using hx)
          | stmt s => intro x hx; simp [Binding.exprs] at hx
          | stmts ss => intro x hx; simp [Binding.exprs] at hx
        · simp at h
      · rename_i hnone
        rw [hnone] at hu
        simp only [R.bind_ok, single_ok] at h
        obtain ⟨v', n1, h1, h2⟩ := h
        have i1 := instE_wf b hb f_value _ _ _ _ hw2 hu h1
        simp only [WfEs, and_true] at i1
        simp only [Except.ok.injEq, Prod.mk.injEq] at h2
        obtain ⟨rfl, rfl⟩ := h2
        simp [WfEs, WfE, i1]
  | .arg _ f_name f_annotation, c, n, r, n', hw, hu, h => by
      simp only [WfE] at hw
      obtain ⟨rfl, hw2⟩ := hw
      simp only [usesOkE] at hu
      simp only [instE] at h
      split at h
      · simp only [Except.ok.injEq, Prod.mk.injEq] at h
        obtain ⟨rfl, rfl⟩ := h
        have := copyEs_wf f_annotation .load (n + 1) hw2
        simp [WfEs, WfE, this]
      · rename_i e hl
        rw [hl] at hu
        simp only [Except.ok.injEq, Prod.mk.injEq] at h
        obtain ⟨rfl, rfl⟩ := h
        have hbw := hb.of_lookup hl
        exact argRepl_wf [e] n (by intro x hx; simp at hx; subst hx; exact hbw) (by simpa [Binding.exprs] using hu)
      · rename_i es hl
        rw [hl] at hu
        simp only [Except.ok.injEq, Prod.mk.injEq] at h
        obtain ⟨rfl, rfl⟩ := h
        exact argRepl_wf es n (hb.of_lookup hl) (by simpa [Binding.exprs] using hu)
      · simp only [Except.ok.injEq, Prod.mk.injEq] at h
        obtain ⟨rfl, rfl⟩ := h
        simp [WfEs]
      · simp at h
  | .subscript _ f_value f_slice f_ctx, c, n, r, n', hw, hu, h => by
      simp only [WfE] at hw
      simp only [usesOkE, Bool.and_eq_true] at hu
      simp only [instE, R.bind_ok, single_ok] at h
      obtain ⟨x0, m0, h0, x1, m1, h1, hres⟩ := h
      simp only [Except.ok.injEq, Prod.mk.injEq] at hres
      obtain ⟨rfl, rfl⟩ := hres
      have i0 := instE_wf b hb f_value _ _ _ _ hw.2.1 hu.1 h0
      have i1 := instE_wf b hb f_slice _ _ _ _ hw.2.2 hu.2 h1
      simp only [WfEs, and_true] at i0 i1
      simp [WfEs, WfE, hw.1, i0, i1]
  | .seq _ f_kind f_elts f_ctx, c, n, r, n', hw, hu, h => by
      simp only [WfE] at hw
      simp only [usesOkE] at hu
      simp only [instE, R.bind_ok] at h
      obtain ⟨x0, m0, h0, hres⟩ := h
      simp only [Except.ok.injEq, Prod.mk.injEq] at hres
      obtain ⟨rfl, rfl⟩ := hres
      have i0 := instEs_wf b hb f_elts _ _ _ _ hw.2.2 hu h0
      simp [WfEs, WfE, hw.1, hw.2.1, i0]
  | .starred _ f_value f_ctx, c, n, r, n', hw, hu, h => by
      simp only [WfE] at hw
      simp only [usesOkE] at hu
      simp only [instE, R.bind_ok, single_ok] at h
      obtain ⟨x0, m0, h0, hres⟩ := h
      simp only [Except.ok.injEq, Prod.mk.injEq] at hres
      obtain ⟨rfl, rfl⟩ := hres
      have i0 := instE_wf b hb f_value _ _ _ _ hw.2 hu h0
      simp only [WfEs, and_true] at i0
      simp [WfEs, WfE, hw.1, i0]''')

def inst_case(cname, fs, stmt=False):
    rf = rec_fields(fs)
    k = len(rf)
    lines = ['  | %s, %sn, r, n\', hw, hu, h => by' % (pat(cname, fs), '' if stmt else 'c, ')]
    lines.append('      simp only [%s] at hw' % ('WfS' if stmt else 'WfE'))
    if not stmt:
        if k:
            lines.append('      obtain ⟨rfl, hw⟩ := hw')
        else:
            lines.append('      subst hw')
    lines.append('      simp only [%s, Bool.and_eq_true] at hu' % ('usesOkS' if stmt else 'usesOkE'))
    lines.append('      simp only [%s, R.bind_ok, single_ok, sameLen_ok, atMost_ok] at h' % ('instS' if stmt else 'instE'))
    if k:
        pats = []
        for i, f in enumerate(rf):
            if kind(f) in ('EsSame', 'EsLe'):
                pats += ["x%d" % i, "m%d" % i, "⟨h%d, _⟩" % i]
            else:
                pats += ["x%d" % i, "m%d" % i, "h%d" % i]
        pats.append('hres')
        lines.append('      obtain ⟨%s⟩ := h' % ', '.join(pats))
    else:
        lines.append('      have hres := h')
    lines.append('      simp only [Except.ok.injEq, Prod.mk.injEq] at hres')
    lines.append('      obtain ⟨rfl, rfl⟩ := hres')
    hs, es = [], []
    for i, f in enumerate(rf):
        kd = kind(f)
        fn = {'E': 'instE_wf', 'Es': 'instEs_wf', 'EsSame': 'instEs_wf', 'EsLe': 'instEs_wf', 'Ss': 'instSs_wf'}[kd]
        under = '_ _ _' if kd == 'Ss' else '_ _ _ _'
        lines.append('      have i%d := %s b hb %s %s hw%s hu%s h%d' % (i, fn, vn(f), under, acc(i, k), acc(i, k), i))
        hs.append('i%d' % i)
        if kd == 'E':
            es.append('i%d' % i)
    if es:
        lines.append('      simp only [WfEs, and_true] at %s' % ' '.join(es))
    lines.append('      simp [%s%s]' % ('WfSs, WfS' if stmt else 'WfEs, WfE', ''.join(', ' + x for x in hs)))
    return '\n'.join(lines)

for cname, fs in EXPR_GENERIC:
    if cname in INST_SPECIAL_E:
        continue
    A(inst_case(cname, fs))
A('''theorem instEs_wf (b : Bindings) (hb : BindingsWf b) : ∀ (es : List Expr) (c : Ctx) (n : Nat) (r : List Expr) (n' : Nat),
    WfEs c es → usesOkEs b es = true → instEs b es n = .ok (r, n') → WfEs c r
  | [], c, n, r, n', _, _, h => by
      simp only [instEs, Except.ok.injEq, Prod.mk.injEq] at h
      obtain ⟨rfl, rfl⟩ := h
      simp [WfEs]
  | e :: es, c, n, r, n', hw, hu, h => by
      simp only [WfEs] at hw
      simp only [usesOkEs, Bool.and_eq_true] at hu
      simp only [instEs, R.bind_ok] at h
      obtain ⟨l, n1, h1, t, n2, h2, hres⟩ := h
      simp only [Except.ok.injEq, Prod.mk.injEq] at hres
      obtain ⟨rfl, rfl⟩ := hres
      have i1 := instE_wf b hb e _ _ _ _ hw.1 hu.1 h1
      have i2 := instEs_wf b hb es _ _ _ _ hw.2 hu.2 h2
      exact (WfEs_append _ _ _).2 ⟨i1, i2⟩
end

mutual
theorem instS_wf (b : Bindings) (hb : BindingsWf b) : ∀ (s : Stmt) (n : Nat) (r : List Stmt) (n' : Nat),
    WfS s → usesOkS b s = true → instS b s n = .ok (r, n') → WfSs r
  | .expr _ f_value, n, r, n', hw, hu, h => by
      simp only [WfS] at hw
      simp only [instS] at h
      split at h
      · rename_i i s c
        simp only [WfE] at hw
        split at h
        · simp only [Except.ok.injEq, Prod.mk.injEq] at h
          obtain ⟨rfl, rfl⟩ := h
          simp [WfSs, WfS, WfE, hw]
        · rename_i st hl
          simp only [Except.ok.injEq, Prod.mk.injEq] at h
          obtain ⟨rfl, rfl⟩ := h
          have := copyS_wf st n (hb.of_lookup hl)
          simp [WfSs, this]
        · rename_i ss hl
          simp only [Except.ok.injEq, Prod.mk.injEq] at h
          obtain ⟨rfl, rfl⟩ := h
          exact copySs_wf ss n (hb.of_lookup hl)
        · simp only [Except.ok.injEq, Prod.mk.injEq] at h
          obtain ⟨rfl, rfl⟩ := h
          simp [WfSs]
        · simp at h
      · rename_i hnn
        simp only [R.bind_ok, single_ok] at h
        obtain ⟨v', n1, h1, h2⟩ := h
        have hu' : usesOkE b f_value = true := by
          cases f_value <;> first | (simp only [usesOkS] at hu; exact hu) | (exact absurd rfl (hnn _ _ _))
        have i1 := instE_wf b hb f_value _ _ _ _ hw hu' h1
        simp only [WfEs, and_true] at i1
        simp only [Except.ok.injEq, Prod.mk.injEq] at h2
        obtain ⟨rfl, rfl⟩ := h2
        simp [WfSs, WfS, i1]
  | .functionDef _ f_name f_args f_body f_decorators f_returns f_isAsync, n, r, n', hw, hu, h => by
      simp only [WfS] at hw
      simp only [usesOkS, Bool.and_eq_true] at hu
      simp only [instS, R.bind_ok, single_ok, sameLen_ok, atMost_ok] at h
      obtain ⟨x0, m0, h0, x1, m1, h1, x2, m2, h2, x3, m3, ⟨h3, _⟩, hres⟩ := h
      have i0 := instE_wf b hb f_args _ _ _ _ hw.1 hu.1 h0
      have i1 := instSs_wf b hb f_body _ _ _ hw.2.1 hu.2.1 h1
      have i2 := instEs_wf b hb f_decorators _ _ _ _ hw.2.2.1 hu.2.2.1 h2
      have i3 := instEs_wf b hb f_returns _ _ _ _ hw.2.2.2 hu.2.2.2 h3
      simp only [WfEs, and_true] at i0
      split at hres
      · simp only [Except.ok.injEq, Prod.mk.injEq] at hres
        obtain ⟨rfl, rfl⟩ := hres
        simp [WfSs, WfS, i0, i1, i2, i3]
      · simp at hres''')
for cname, fs in STMT:
    if cname in ('expr', 'functionDef'):
        continue
    A(inst_case(cname, fs, True))
A('''theorem instSs_wf (b : Bindings) (hb : BindingsWf b) : ∀ (ss : List Stmt) (n : Nat) (r : List Stmt) (n' : Nat),
    WfSs ss → usesOkSs b ss = true → instSs b ss n = .ok (r, n') → WfSs r
  | [], n, r, n', _, _, h => by
      simp only [instSs, Except.ok.injEq, Prod.mk.injEq] at h
      obtain ⟨rfl, rfl⟩ := h
      simp [WfSs]
  | s :: ss, n, r, n', hw, hu, h => by
      simp only [WfSs] at hw
      simp only [usesOkSs, Bool.and_eq_true] at hu
      simp only [instSs, R.bind_ok] at h
      obtain ⟨l, n1, h1, t, n2, h2, hres⟩ := h
      simp only [Except.ok.injEq, Prod.mk.injEq] at hres
      obtain ⟨rfl, rfl⟩ := hres
      have i1 := instS_wf b hb s _ _ _ hw.1 hu.1 h1
      have i2 := instSs_wf b hb ss _ _ _ hw.2 hu.2 h2
      exact (WfSs_append _ _).2 ⟨i1, i2⟩
end

end Malt.Conv.Template
''')
open(__import__('os').path.join(__import__('os').path.dirname(__import__('os').path.abspath(__file__)), '..', '..', 'lean') + '/MaltModel/Proofs/C17Inst.lean', 'w').write('\n'.join(out))
