"""Constructor table of Malt.Py.Expr / Malt.Py.Stmt used to generate the repetitive parts of the C17 Lean files.
field kinds: 'x' scalar; ('E', ctx) single expr; ('Es', ctx) spliceable list; ('EsSame', ctx) list standing for optional /
positional fields (length must be preserved); 'Ss' statement list.   ctx in 'L','S','D'."""
L, S, D = 'L', 'S', 'D'
CTX = {'L': '.load', 'S': '.store', 'D': '.del', 'P': 'c'}

# generic expression constructors (expected own ctx: load)
EXPR_GENERIC = [
    ('const', [('kind', 'x'), ('repr', 'x')]),
    ('call', [('func', ('E', L)), ('args', ('Es', L)), ('keywords', ('Es', L))]),
    ('keyword', [('arg', 'x'), ('hasArg', 'x'), ('value', ('E', L))]),
    ('boolop', [('isAnd', 'x'), ('values', ('Es', L))]),
    ('unary', [('op', 'x'), ('operand', ('E', L))]),
    ('binop', [('op', 'x'), ('left', ('E', L)), ('right', ('E', L))]),
    ('compare', [('left', ('E', L)), ('ops', 'x'), ('comparators', ('EsSame', L))]),
    ('ifexp', [('test', ('E', L)), ('body', ('E', L)), ('orelse', ('E', L))]),
    ('lambda', [('args', ('E', L)), ('body', ('E', L))]),
    ('namedexpr', [('target', ('E', S)), ('value', ('E', L))]),
    ('comp', [('kind', 'x'), ('elts', ('EsSame', L)), ('generators', ('Es', L))]),
    ('comprehension', [('target', ('E', S)), ('iter', ('E', L)), ('ifs', ('Es', L)), ('isAsync', 'x')]),
    ('arguments', [('posonly', ('Es', L)), ('args', ('Es', L)), ('vararg', ('EsSame', L)), ('kwonly', ('Es', L)),
                   ('kwDefaults', ('EsSame', L)), ('kwarg', ('EsSame', L)), ('defaults', ('EsLe', L))]),
    ('arg', [('name', 'x'), ('annotation', ('EsSame', L))]),
    ('withitem', [('contextExpr', ('E', L)), ('optionalVars', ('EsSame', S))]),
    ('other', [('kind', 'x'), ('attrs', 'x'), ('kids', ('EsSame', L))]),
]
# constructors whose own ctx field matters ('P' = the expected ctx of the node itself is passed on)
EXPR_CTX = [
    ('name', [('s', 'x'), ('ctx', 'x')]),
    ('attr', [('value', ('E', L)), ('attr', 'x'), ('ctx', 'x')]),
    ('subscript', [('value', ('E', L)), ('slice', ('E', L)), ('ctx', 'x')]),
    ('seq', [('kind', 'x'), ('elts', ('Es', 'P')), ('ctx', 'x')]),
    ('starred', [('value', ('E', 'P')), ('ctx', 'x')]),
]
EXPR_ALL = EXPR_CTX + EXPR_GENERIC

STMT = [
    ('functionDef', [('name', 'x'), ('args', ('E', L)), ('body', 'Ss'), ('decorators', ('Es', L)), ('returns', ('EsSame', L)), ('isAsync', 'x')]),
    ('classDef', [('name', 'x'), ('bases', ('Es', L)), ('keywords', ('Es', L)), ('body', 'Ss'), ('decorators', ('Es', L))]),
    ('ret', [('value', ('EsSame', L))]),
    ('delete', [('targets', ('Es', D))]),
    ('assign', [('targets', ('Es', S)), ('value', ('E', L))]),
    ('augAssign', [('target', ('E', S)), ('op', 'x'), ('value', ('E', L))]),
    ('annAssign', [('target', ('E', S)), ('annotation', ('E', L)), ('value', ('EsSame', L)), ('simple', 'x')]),
    ('for_', [('target', ('E', S)), ('iter', ('E', L)), ('body', 'Ss'), ('orelse', 'Ss'), ('extraTest', ('EsSame', L)), ('isAsync', 'x')]),
    ('while_', [('test', ('E', L)), ('body', 'Ss'), ('orelse', 'Ss')]),
    ('if_', [('test', ('E', L)), ('body', 'Ss'), ('orelse', 'Ss')]),
    ('with_', [('items', ('Es', L)), ('body', 'Ss'), ('isAsync', 'x')]),
    ('raise', [('exc', ('EsSame', L)), ('cause', ('EsSame', L))]),
    ('try_', [('body', 'Ss'), ('handlers', 'Ss'), ('orelse', 'Ss'), ('finalbody', 'Ss')]),
    ('handler', [('type', ('EsSame', L)), ('name', 'x'), ('body', 'Ss')]),
    ('assert_', [('test', ('E', L)), ('msg', ('EsSame', L))]),
    ('import_', [('names', 'x')]),
    ('importFrom', [('module', 'x'), ('names', 'x'), ('level', 'x')]),
    ('global', [('names', 'x')]),
    ('nonlocal', [('names', 'x')]),
    ('expr', [('value', ('E', L))]),
    ('pass', []),
    ('break_', []),
    ('continue_', []),
    ('other', [('kind', 'x'), ('exprs', ('Es', L)), ('blocks', 'Ss')]),
]

def kind(f):
    k = f[1]
    return k if isinstance(k, str) else k[0]
def fctx(f):
    return CTX[f[1][1]]
def vn(f, suffix=''):
    """variable name for a field (avoid Lean keywords)"""
    n = f[0]
    if n in ('type', 'from', 'at', 'end', 'open', 'in', 'do', 'then', 'else', 'if', 'fun', 'instance', 'class'):
        n = n + '_'
    return 'f_' + n + suffix
def rec_fields(fs):
    return [f for f in fs if kind(f) != 'x']
