import sys, os
sys.path.insert(0, os.path.dirname(os.path.abspath(__file__)))
from table import *

def pat(cname, fs, lab='_'):
    return ('.%s %s %s' % (cname, lab, ' '.join(vn(f) for f in fs))).rstrip()

def field(f, prop):
    k = kind(f)
    if k == 'E':
        return ('ArE ' if prop else 'arE ') + vn(f)
    if k == 'Ss':
        return ('ArSs ' if prop else 'arSs ') + vn(f)
    return ('ArEs ' if prop else 'arEs ') + vn(f)

def conj(parts, prop):
    if not parts:
        return 'True' if prop else 'true'
    return (' ∧ ' if prop else ' && ').join(parts)

SPECIAL = {
    'arguments': (['f_kwDefaults.length = f_kwonly.length', 'f_defaults.length ≤ f_posonly.length + f_args.length'],
                  ['f_kwDefaults.length == f_kwonly.length', 'decide (f_defaults.length ≤ f_posonly.length + f_args.length)']),
    'compare': (['f_ops.length = f_comparators.length'], ['f_ops.length == f_comparators.length']),
}
out = []
A = out.append
A('''import MaltModel.Py.Ast
/-
Arity invariants of `ast` nodes with parallel lists (C17): CPython's validator (Python/ast.c `validate_arguments`,
`validate_expr` for Compare) and `ast.unparse` (which zips the lists) both rely on them:
* `arguments`:  `len(kw_defaults) == len(kwonlyargs)`  (a keyword-only parameter without default is a `None` ENTRY,
                represented by `.noneMarker`, not a missing one)  and  `len(defaults) ≤ len(posonlyargs) + len(args)`;
* `Compare`:    `len(ops) == len(comparators)`.
`ArS`/`ArityWellFormed` is the structural property, `arS`/`arityOk` the executable checker (Proofs/C17Arity.lean: iff).
-/
set_option linter.unusedVariables false
namespace Malt.Conv
open Malt.Py

mutual
def ArE : Expr → Prop
  | .noneMarker => True''')
for cname, fs in EXPR_ALL:
    parts = list(SPECIAL.get(cname, ([], []))[0]) + [field(f, True) for f in rec_fields(fs)]
    A('  | %s => %s' % (pat(cname, fs), conj(parts, True)))
A('''def ArEs : List Expr → Prop
  | [] => True
  | e :: es => ArE e ∧ ArEs es
def ArS : Stmt → Prop''')
for cname, fs in STMT:
    A('  | %s => %s' % (pat(cname, fs), conj([field(f, True) for f in rec_fields(fs)], True)))
A('''def ArSs : List Stmt → Prop
  | [] => True
  | s :: ss => ArS s ∧ ArSs ss
end

/-- every `arguments` / `Compare` node of the statement list has consistent parallel lists -/
def ArityWellFormed (t : List Stmt) : Prop := ArSs t

mutual
def arE : Expr → Bool
  | .noneMarker => true''')
for cname, fs in EXPR_ALL:
    parts = list(SPECIAL.get(cname, ([], []))[1]) + [field(f, False) for f in rec_fields(fs)]
    A('  | %s => %s' % (pat(cname, fs), conj(parts, False)))
A('''def arEs : List Expr → Bool
  | [] => true
  | e :: es => arE e && arEs es
def arS : Stmt → Bool''')
for cname, fs in STMT:
    A('  | %s => %s' % (pat(cname, fs), conj([field(f, False) for f in rec_fields(fs)], False)))
A('''def arSs : List Stmt → Bool
  | [] => true
  | s :: ss => arS s && arSs ss
end

def arityOk (t : List Stmt) : Bool := arSs t

end Malt.Conv
''')
base = os.path.join(os.path.dirname(os.path.abspath(__file__)), '..', '..', 'lean', 'MaltModel')
open(os.path.join(base, 'Conv', 'Arity.lean'), 'w').write('\n'.join(out))

out = []
A = out.append
A('''import MaltModel.Conv.Arity
/- C17 helper: the executable arity checker decides `ArE`/`ArS` (both directions). -/
set_option linter.unusedSimpArgs false
set_option linter.unusedVariables false
namespace Malt.Conv
open Malt.Py

mutual
theorem arE_iff : ∀ (e : Expr), arE e = true ↔ ArE e
  | .noneMarker => by simp [arE, ArE]''')
def case(cname, fs, stmt):
    rf = rec_fields(fs)
    lines = ['  | %s => by' % pat(cname, fs)]
    hs = []
    for i, f in enumerate(rf):
        fn = {'E': 'arE_iff', 'Ss': 'arSs_iff'}.get(kind(f), 'arEs_iff')
        lines.append('      have h%d := %s %s' % (i, fn, vn(f)))
        hs.append('h%d' % i)
    lines.append('      simp [%s, %s%s, and_assoc]' % ('arS' if stmt else 'arE', 'ArS' if stmt else 'ArE', ''.join(', ' + h for h in hs)))
    return '\n'.join(lines)
for cname, fs in EXPR_ALL:
    A(case(cname, fs, False))
A('''theorem arEs_iff : ∀ (es : List Expr), arEs es = true ↔ ArEs es
  | [] => by simp [arEs, ArEs]
  | e :: es => by
      have h1 := arE_iff e
      have h2 := arEs_iff es
      simp [arEs, ArEs, h1, h2]
theorem arS_iff : ∀ (s : Stmt), arS s = true ↔ ArS s''')
for cname, fs in STMT:
    A(case(cname, fs, True))
A('''theorem arSs_iff : ∀ (ss : List Stmt), arSs ss = true ↔ ArSs ss
  | [] => by simp [arSs, ArSs]
  | s :: ss => by
      have h1 := arS_iff s
      have h2 := arSs_iff ss
      simp [arSs, ArSs, h1, h2]
end

instance (t : List Stmt) : Decidable (ArityWellFormed t) := decidable_of_iff _ (arSs_iff t)

end Malt.Conv
''')
open(os.path.join(base, 'Proofs', 'C17Arity.lean'), 'w').write('\n'.join(out))
