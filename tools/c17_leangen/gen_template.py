import sys
sys.path.insert(0, __import__('os').path.dirname(__import__('os').path.abspath(__file__)))
from table import *

def pat(cname, fs, lab='_'):
    return ('.%s %s %s' % (cname, lab, ' '.join(vn(f) for f in fs))).rstrip()

def build(cname, fs, lab, sub):
    """constructor application with recursive fields replaced via sub(f)"""
    return ('.%s %s %s' % (cname, lab, ' '.join(sub(f) if kind(f) != 'x' else vn(f) for f in fs))).rstrip()

out = []
A = out.append
A('''import MaltModel.Py.Ast
/-
Model of `malt/pyct/templates.py` (`replace`, `replace_as_expression`, `ReplaceTransformer`, `ContextAdjuster`) and of
`ast_util.copy_clean`, over `Py.Ast` with node identity made explicit: the `id` field of every node is its *label*
(object identity).  A deep copy gives every node a label never used before (a counter is threaded through); sharing a
node object means repeating a label.

What is mirrored (code that exists, including its oddities):
* `copy_clean` — `copyE`/`copyS`: fresh label for every node, everything else unchanged.
* `ContextAdjuster(ctx)` — `adjust c`: `Name`, `Attribute`, `Subscript`, `Tuple`, `List` receive the override; the value of
  an attribute and value + slice of a subscript are visited with `Load`; `Call`, `Dict`, `Lambda`, `comprehension` switch
  the override off for everything below them; there is no `visit_Starred`: a `Starred` node keeps its own ctx while its
  value receives the override; every other node kind is traversed by `generic_visit` *with the override still on* — so
  the target of a `NamedExpr` that is not shielded by a call/lambda/dict/comprehension is overwritten too.
* `ReplaceTransformer.visit_Name` — a placeholder `Name` is replaced by fresh copies of the bound node(s); the adjuster
  runs with the ctx of the replaced name, but only on copies whose top node has a `ctx` field (`hasattr(n, 'ctx')`);
  a list/tuple of nodes is spliced into list fields (assignment targets, tuple elements, call arguments, bodies);
  in a single-node field anything but exactly one node leaves a malformed tree in the real code: `TemplErr.notSingle`.
* `visit_Expr` — an expression statement whose value is a placeholder is replaced by the statement list bound to it.
* `visit_keyword` — a keyword whose *name* is a placeholder is replaced by the bound keyword(s) (ValueError otherwise).
* `visit_arg` — a parameter whose name is a placeholder: a bound `Name` gives a fresh `arg`; any other bound node is put
  into the tree AS IS (no copy: the label is kept — the one place where the code shares nodes with its input); the
  annotation of a parameter is never visited.
* `visit_FunctionDef` / `visit_Attribute` — function name / attribute name replaced by the id of a bound `Name`
  (ValueError otherwise).  `nonlocal`/`global` name lists, class names, handler names, import aliases are NOT
  substituted (the code has no visitor for them).
String and `QN` bindings are `Name`/`Attribute`/`Subscript` nodes whose ctx is unset in the real code; they are modelled
with `.load` (every position they can reach is overwritten by the adjuster before it is read).
-/
set_option linter.unusedVariables false
namespace Malt.Conv.Template
open Malt.Py

/-! ## labels (node identities), preorder -/
mutual
def labelsE : Expr → List Nat
  | .noneMarker => []''')
for cname, fs in EXPR_ALL:
    rf = rec_fields(fs)
    parts = ['labelsE ' + vn(f) if kind(f) == 'E' else 'labelsEs ' + vn(f) for f in rf]
    body = 'i :: (' + ' ++ ('.join(parts) + ')' * len(parts) if parts else '[i]'
    A('  | %s => %s' % (pat(cname, fs, 'i'), body))
A('''def labelsEs : List Expr → List Nat
  | [] => []
  | e :: es => labelsE e ++ labelsEs es
end
mutual
def labelsS : Stmt → List Nat''')
for cname, fs in STMT:
    rf = rec_fields(fs)
    parts = [('labelsE ' if kind(f) == 'E' else 'labelsSs ' if kind(f) == 'Ss' else 'labelsEs ') + vn(f) for f in rf]
    body = 'i :: (' + ' ++ ('.join(parts) + ')' * len(parts) if parts else '[i]'
    A('  | %s => %s' % (pat(cname, fs, 'i'), body))
A('''def labelsSs : List Stmt → List Nat
  | [] => []
  | s :: ss => labelsS s ++ labelsSs ss
end

/-! ## `ast_util.copy_clean`: every node of the copy gets the next unused label -/
mutual
def copyE : Expr → Nat → Expr × Nat
  | .noneMarker, n => (.noneMarker, n)''')
def copy_case(cname, fs, stmt=False):
    rf = rec_fields(fs)
    lines = []
    cur = 'n + 1'
    for i, f in enumerate(rf):
        fn = {'E': 'copyE', 'Es': 'copyEs', 'EsSame': 'copyEs', 'EsLe': 'copyEs', 'Ss': 'copySs'}[kind(f)]
        lines.append('      let r%d := %s %s (%s)' % (i, fn, vn(f), cur))
        cur = 'r%d.2' % i
    idx = {f[0]: i for i, f in enumerate(rf)}
    res = build(cname, fs, 'n', lambda f: 'r%d.1' % idx[f[0]])
    lines.append('      (%s, %s)' % (res, cur))
    return '  | %s, n =>\n%s' % (pat(cname, fs), '\n'.join(lines))
for cname, fs in EXPR_ALL:
    A(copy_case(cname, fs))
A('''def copyEs : List Expr → Nat → List Expr × Nat
  | [], n => ([], n)
  | e :: es, n =>
      let r0 := copyE e n
      let r1 := copyEs es r0.2
      (r0.1 :: r1.1, r1.2)
end
mutual
def copyS : Stmt → Nat → Stmt × Nat''')
for cname, fs in STMT:
    A(copy_case(cname, fs, True))
A('''def copySs : List Stmt → Nat → List Stmt × Nat
  | [], n => ([], n)
  | s :: ss, n =>
      let r0 := copyS s n
      let r1 := copySs ss r0.2
      (r0.1 :: r1.1, r1.2)
end

/-! ## `ContextAdjuster` -/

/-- `hasattr(node, 'ctx')` on a freshly copied node -/
def hasCtxField : Expr → Bool
  | .name .. | .attr .. | .subscript .. | .starred .. => true
  | .seq _ k _ _ => k != .set
  | _ => false

mutual
/-- `ContextAdjuster(c).visit(e)`: the override is `c` at `e`. -/
def adjust (c : Ctx) : Expr → Expr
  | .noneMarker => .noneMarker
  | .name i s _ => .name i s c
  | .attr i v a _ => .attr i (adjust .load v) a c
  | .subscript i v s _ => .subscript i (adjust .load v) (adjust .load s) c
  | .seq i k es c' => .seq i k (adjustEs c es) (if k = .set then c' else c)
  | .starred i v c' => .starred i (adjust c v) c'                       -- no visit_Starred: ctx untouched
  | .const i k r => .const i k r
  | .call i f as ks => .call i f as ks                                    -- override off below
  | .lambda i a b => .lambda i a b                                        -- override off below
  | .comprehension i t it ifs a => .comprehension i t it ifs a            -- override off below
  | .keyword i a h v => .keyword i a h (adjust c v)
  | .boolop i o vs => .boolop i o (adjustEs c vs)
  | .unary i o e => .unary i o (adjust c e)
  | .binop i o l r => .binop i o (adjust c l) (adjust c r)
  | .compare i l ops rs => .compare i (adjust c l) ops (adjustEs c rs)
  | .ifexp i t b e => .ifexp i (adjust c t) (adjust c b) (adjust c e)
  | .namedexpr i t v => .namedexpr i (adjust c t) (adjust c v)            -- target overwritten as well
  | .comp i k es gs => .comp i k (adjustEs c es) (adjustEs c gs)
  | .arguments i po ar va ko kd kw df =>
      .arguments i (adjustEs c po) (adjustEs c ar) (adjustEs c va) (adjustEs c ko) (adjustEs c kd) (adjustEs c kw) (adjustEs c df)
  | .arg i nm an => .arg i nm (adjustEs c an)
  | .withitem i ce ov => .withitem i (adjust c ce) (adjustEs c ov)
  | .other i k attrs kids => if k = "Dict" then .other i k attrs kids else .other i k attrs (adjustEs c kids)
def adjustEs (c : Ctx) : List Expr → List Expr
  | [] => []
  | e :: es => adjust c e :: adjustEs c es
end

/-- the adjuster is only run on replacement nodes that have a `ctx` attribute -/
def adjTop (c : Ctx) (e : Expr) : Expr := if hasCtxField e then adjust c e else e

mutual
/-- Decidable sufficient condition for `adjust c e` to be context-well-formed at a position expecting `c`
(given that `e` was well-formed where it came from): no `NamedExpr`, no `Starred` of another ctx and no
`with`-item variable is reached with the override on, and non-assignable nodes are reached only with `Load`. -/
def exposedOk (c : Ctx) : Expr → Bool
  | .noneMarker => true
  | .name .. => true
  | .attr _ v _ _ => exposedOk .load v
  | .subscript _ v s _ => exposedOk .load v && exposedOk .load s
  | .seq _ k es _ => (k != .set || c == .load) && exposedOkEs c es
  | .starred _ v c' => c' == c && exposedOk c v
  | .const .. => c == .load
  | .call .. => c == .load
  | .lambda .. => c == .load
  | .comprehension .. => c == .load
  | .keyword _ _ _ v => c == .load && exposedOk c v
  | .boolop _ _ vs => c == .load && exposedOkEs c vs
  | .unary _ _ e => c == .load && exposedOk c e
  | .binop _ _ l r => c == .load && exposedOk c l && exposedOk c r
  | .compare _ l _ rs => c == .load && exposedOk c l && exposedOkEs c rs
  | .ifexp _ t b e => c == .load && exposedOk c t && exposedOk c b && exposedOk c e
  | .namedexpr .. => false
  | .comp _ _ es gs => c == .load && exposedOkEs c es && exposedOkEs c gs
  | .arguments _ po ar va ko kd kw df =>
      c == .load && exposedOkEs c po && exposedOkEs c ar && exposedOkEs c va && exposedOkEs c ko && exposedOkEs c kd
        && exposedOkEs c kw && exposedOkEs c df
  | .arg _ _ an => c == .load && exposedOkEs c an
  | .withitem _ ce ov => c == .load && exposedOk c ce && ov.isEmpty
  | .other _ k _ kids => c == .load && (k == "Dict" || exposedOkEs c kids)
def exposedOkEs (c : Ctx) : List Expr → Bool
  | [] => true
  | e :: es => exposedOk c e && exposedOkEs c es
end

/-! ## bindings -/

/-- value bound to a placeholder name (after `_convert_to_ast`) -/
inductive Binding where
  | node (e : Expr)            -- one AST node (also: a string / QN)
  | nodes (es : List Expr)     -- list or tuple of expression-side nodes (expressions, keywords, args)
  | stmt (s : Stmt)
  | stmts (ss : List Stmt)
  deriving Repr, Inhabited

abbrev Bindings := List (String × Binding)

def Binding.exprs : Binding → List Expr
  | .node e => [e]
  | .nodes es => es
  | _ => []

def Binding.labels : Binding → List Nat
  | .node e => labelsE e
  | .nodes es => labelsEs es
  | .stmt s => labelsS s
  | .stmts ss => labelsSs ss

def bindingLabels : Bindings → List Nat
  | [] => []
  | (_, b) :: r => b.labels ++ bindingLabels r

def maxLabel (b : Bindings) : Nat := (bindingLabels b).foldl max 0

inductive TemplErr where
  | notSingle            -- list/tuple of length ≠ 1 (or a changed length) in a single-node / positional field
  | stmtInExprPosition
  | exprInStmtPosition
  | keywordRepl          -- ValueError: keyword may only be replaced by keyword(s)
  | functionNameRepl     -- ValueError: function name can only be replaced by a Name node
  | attributeRepl        -- ValueError: attribute can only be replaced by a Name node
  | argRepl              -- statement(s) bound to a parameter placeholder
  | notExpression        -- replace_as_expression: ValueError
  deriving DecidableEq, Repr, Inhabited

abbrev R (α : Type) := Except TemplErr (α × Nat)

@[inline] def R.bind {α β : Type} (x : R α) (f : α → Nat → R β) : R β :=
  match x with
  | .error e => .error e
  | .ok (a, n) => f a n

/-- exactly one node must come back for a single-node field -/
def single (x : R (List Expr)) : R Expr :=
  x.bind fun l n => match l with
    | [a] => .ok (a, n)
    | _ => .error .notSingle

/-- positional / optional fields: the number of nodes must not change -/
def sameLen (orig : List Expr) (x : R (List Expr)) : R (List Expr) :=
  x.bind fun l n => if l.length = orig.length then .ok (l, n) else .error .notSingle

/-- `arguments.defaults` (aligned with the *last* parameters): may shrink, must not grow -/
def atMost (orig : List Expr) (x : R (List Expr)) : R (List Expr) :=
  x.bind fun l n => if l.length ≤ orig.length then .ok (l, n) else .error .notSingle

def isName : Expr → Bool
  | .name .. => true
  | _ => false

def isKeyword : Expr → Bool
  | .keyword .. => true
  | _ => false

/-- string a function / attribute name placeholder is replaced with -/
def identOf (b : Bindings) (s : String) (err : TemplErr) : Except TemplErr String :=
  match b.lookup s with
  | none => .ok s
  | some (.node (.name _ id _)) => .ok id
  | some _ => .error err

/-- `visit_arg` on the nodes bound to a parameter placeholder: a `Name` becomes a fresh `arg`, anything else is
inserted without a copy (its label is kept). -/
def argRepl : List Expr → Nat → List Expr × Nat
  | [], n => ([], n)
  | .name _ id _ :: r, n => let t := argRepl r (n + 1); (.arg n id [] :: t.1, t.2)
  | e :: r, n => let t := argRepl r n; (e :: t.1, t.2)

/-! ## `ReplaceTransformer` -/
mutual
/-- visit of one expression-side node: the list of nodes that take its place -/
def instE (b : Bindings) : Expr → Nat → R (List Expr)
  | .noneMarker, n => .ok ([.noneMarker], n)
  | .name _ s c, n =>
      match b.lookup s with
      | none => .ok ([.name n s c], n + 1)
      | some (.node e) => let r := copyE e n; .ok ([adjTop c r.1], r.2)
      | some (.nodes es) => let r := copyEs es n; .ok (r.1.map (adjTop c), r.2)
      | some (.stmts []) => .ok ([], n)
      | some _ => .error .stmtInExprPosition
  | .attr _ f_value f_attr f_ctx, n =>
      (single (instE b f_value (n + 1))).bind fun v' n1 =>
        match identOf b f_attr .attributeRepl with
        | .ok a' => .ok ([.attr n v' a' f_ctx], n1)
        | .error e => .error e
  | .keyword _ f_arg f_hasArg f_value, n =>
      match (if f_hasArg then b.lookup f_arg else none) with
      | some bd =>
          if bd.exprs.all isKeyword && !bd.exprs.isEmpty then (let r := copyEs bd.exprs n; .ok (r.1, r.2))
          else .error .keywordRepl
      | none => (single (instE b f_value (n + 1))).bind fun v' n1 => .ok ([.keyword n f_arg f_hasArg v'], n1)
  | .arg _ f_name f_annotation, n =>
      match b.lookup f_name with
      | none => let r := copyEs f_annotation (n + 1); .ok ([.arg n f_name r.1], r.2)
      | some (.node e) => let r := argRepl [e] n; .ok (r.1, r.2)
      | some (.nodes es) => let r := argRepl es n; .ok (r.1, r.2)
      | some (.stmts []) => .ok ([], n)
      | some _ => .error .argRepl''')

def inst_case(cname, fs, stmt=False, lab='n', wrap=None):
    rf = rec_fields(fs)
    idx = {f[0]: i for i, f in enumerate(rf)}
    lines = []
    cur = 'n + 1'
    for i, f in enumerate(rf):
        k = kind(f)
        call = {'E': 'single (instE b %s (%s))', 'Es': 'instEs b %s (%s)', 'Ss': 'instSs b %s (%s)'}.get(k)
        if k == 'EsSame':
            x = 'sameLen %s (instEs b %s (%s))' % (vn(f), vn(f), cur)
        elif k == 'EsLe':
            x = 'atMost %s (instEs b %s (%s))' % (vn(f), vn(f), cur)
        else:
            x = call % (vn(f), cur)
        lines.append('      (%s).bind fun %s n%d =>' % (x, vn(f, "'"), i))
        cur = 'n%d' % i
    res = build(cname, fs, 'n', lambda f: vn(f, "'"))
    lines.append('      .ok ([%s], %s)' % (res, cur))
    return '  | %s, n =>\n%s' % (pat(cname, fs), '\n'.join(lines))

INST_SPECIAL_E = {'name', 'attr', 'keyword', 'arg'}
for cname, fs in EXPR_ALL:
    if cname in INST_SPECIAL_E:
        continue
    A(inst_case(cname, fs))
A('''def instEs (b : Bindings) : List Expr → Nat → R (List Expr)
  | [], n => .ok ([], n)
  | e :: es, n =>
      (instE b e n).bind fun l n1 =>
      (instEs b es n1).bind fun r n2 =>
      .ok (l ++ r, n2)
end

mutual
def instS (b : Bindings) : Stmt → Nat → R (List Stmt)
  | .expr _ f_value, n =>
      match f_value with
      | .name _ s c =>
          match b.lookup s with
          | none => .ok ([.expr n (.name (n + 1) s c)], n + 2)
          | some (.stmt st) => let r := copyS st n; .ok ([r.1], r.2)
          | some (.stmts ss) => let r := copySs ss n; .ok (r.1, r.2)
          | some (.nodes []) => .ok ([], n)
          | some _ => .error .exprInStmtPosition
      | _ => (single (instE b f_value (n + 1))).bind fun v' n1 => .ok ([.expr n v'], n1)
  | .functionDef _ f_name f_args f_body f_decorators f_returns f_isAsync, n =>
      (single (instE b f_args (n + 1))).bind fun f_args' n0 =>
      (instSs b f_body (n0)).bind fun f_body' n1 =>
      (instEs b f_decorators (n1)).bind fun f_decorators' n2 =>
      (sameLen f_returns (instEs b f_returns (n2))).bind fun f_returns' n3 =>
      match (if f_isAsync then .ok f_name else identOf b f_name .functionNameRepl) with
      | .ok nm => .ok ([.functionDef n nm f_args' f_body' f_decorators' f_returns' f_isAsync], n3)
      | .error e => .error e''')
for cname, fs in STMT:
    if cname in ('expr', 'functionDef'):
        continue
    A(inst_case(cname, fs, True))
A('''def instSs (b : Bindings) : List Stmt → Nat → R (List Stmt)
  | [], n => .ok ([], n)
  | s :: ss, n =>
      (instS b s n).bind fun l n1 =>
      (instSs b ss n1).bind fun r n2 =>
      .ok (l ++ r, n2)
end

/-- first label handed out: above every label of the inputs -/
def startLabel (b : Bindings) : Nat := maxLabel b + 1

/-- `templates.replace(template, **bindings)` for a template whose result is a statement list. -/
def instantiate (t : List Stmt) (b : Bindings) : Except TemplErr (List Stmt) :=
  match instSs b t (startLabel b) with
  | .ok (r, _) => .ok r
  | .error e => .error e

/-- `templates.replace(template, **bindings)` when the template is a bare placeholder bound to one expression-side
node: the result list holds that (copied, adjusted) node itself, not a statement. -/
def instantiateBare (t : List Stmt) (b : Bindings) : Except TemplErr Expr :=
  match t with
  | [.expr _ (.name _ s c)] =>
      match b.lookup s with
      | some (.node e) => .ok (adjTop c (copyE e (startLabel b)).1)
      | some (.nodes [e]) => .ok (adjTop c (copyE e (startLabel b)).1)
      | _ => .error .notExpression
  | _ => .error .notExpression

/-- `templates.replace_as_expression(template, **bindings)`: exactly one result node, an `Expr` statement (its value is
returned) or a bare `Name` (a top-level placeholder bound to a name). -/
def instantiateExpr (t : List Stmt) (b : Bindings) : Except TemplErr Expr :=
  match t with
  | [.expr i (.name j s c)] =>
      match b.lookup s with
      | some (.node e) =>
          let r := adjTop c (copyE e (startLabel b)).1
          if isName r then .ok r else .error .notExpression
      | some (.nodes [e]) =>
          let r := adjTop c (copyE e (startLabel b)).1
          if isName r then .ok r else .error .notExpression
      | none => .ok (.name (startLabel b + 1) s c)
      | some _ => .error .notExpression
  | _ =>
      match instSs b t (startLabel b) with
      | .ok ([.expr _ v], _) => .ok v
      | .ok _ => .error .notExpression
      | .error e => .error e

/-! ## hypotheses of the `_partial` theorems, as decidable predicates (these are the finding classes) -/

/-- one bound node is usable at a placeholder whose ctx is `c` -/
def useOk (c : Ctx) (x : Expr) : Bool := if hasCtxField x then exposedOk c x else c == .load

mutual
/-- every placeholder occurrence of the template is bound to nodes the adjuster can make well-formed there -/
def usesOkE (b : Bindings) : Expr → Bool
  | .noneMarker => true
  | .name _ s c => match b.lookup s with
      | some bd => bd.exprs.all (useOk c)
      | none => true
  | .keyword _ f_arg f_hasArg f_value =>
      match (if f_hasArg then b.lookup f_arg else none) with
      | some _ => true
      | none => usesOkE b f_value
  | .arg _ f_name _ => match b.lookup f_name with
      | some bd => bd.exprs.all (fun x => isName x || !hasCtxField x)
      | none => true''')
def uses_case(cname, fs, fnE, fnEs, fnSs, stmt=False):
    rf = rec_fields(fs)
    parts = [(fnE if kind(f) == 'E' else fnSs if kind(f) == 'Ss' else fnEs) + ' b ' + vn(f) for f in rf]
    body = ' && ('.join(parts) + ')' * (len(parts) - 1) if parts else 'true'
    return '  | %s => %s' % (pat(cname, fs), body)
for cname, fs in EXPR_ALL:
    if cname in ('name', 'keyword', 'arg'):
        continue
    A(uses_case(cname, fs, 'usesOkE', 'usesOkEs', 'usesOkSs'))
A('''def usesOkEs (b : Bindings) : List Expr → Bool
  | [] => true
  | e :: es => usesOkE b e && usesOkEs b es
end
mutual
def usesOkS (b : Bindings) : Stmt → Bool
  | .expr _ f_value =>
      match f_value with
      | .name _ s c => match b.lookup s with
          | none => true
          | some (.stmt _) | some (.stmts _) => true
          | some bd => bd.exprs.all (useOk c)
      | _ => usesOkE b f_value''')
for cname, fs in STMT:
    if cname == 'expr':
        continue
    A(uses_case(cname, fs, 'usesOkE', 'usesOkEs', 'usesOkSs', True))
A('''def usesOkSs (b : Bindings) : List Stmt → Bool
  | [] => true
  | s :: ss => usesOkS b s && usesOkSs b ss
end

mutual
/-- every parameter-name placeholder of the template is bound to `Name` nodes only (so `visit_arg` builds fresh
`arg` nodes instead of inserting the bound objects themselves) -/
def argsOkE (b : Bindings) : Expr → Bool
  | .noneMarker => true
  | .name .. => true
  | .keyword _ f_arg f_hasArg f_value =>
      match (if f_hasArg then b.lookup f_arg else none) with
      | some _ => true
      | none => argsOkE b f_value
  | .arg _ f_name _ => match b.lookup f_name with
      | some bd => bd.exprs.all isName
      | none => true''')
for cname, fs in EXPR_ALL:
    if cname in ('name', 'keyword', 'arg'):
        continue
    A(uses_case(cname, fs, 'argsOkE', 'argsOkEs', 'argsOkSs'))
A('''def argsOkEs (b : Bindings) : List Expr → Bool
  | [] => true
  | e :: es => argsOkE b e && argsOkEs b es
end
mutual
def argsOkS (b : Bindings) : Stmt → Bool
  | .expr _ f_value =>
      match f_value with
      | .name .. => true
      | _ => argsOkE b f_value''')
for cname, fs in STMT:
    if cname == 'expr':
        continue
    A(uses_case(cname, fs, 'argsOkE', 'argsOkEs', 'argsOkSs', True))
A('''def argsOkSs (b : Bindings) : List Stmt → Bool
  | [] => true
  | s :: ss => argsOkS b s && argsOkSs b ss
end

/-! ## nodes that `visit_arg` puts into the result WITHOUT a copy (labels, in traversal order) -/
def notName (e : Expr) : Bool := !isName e

mutual
def sharedE (b : Bindings) : Expr → List Nat
  | .noneMarker => []
  | .name .. => []
  | .keyword _ f_arg f_hasArg f_value =>
      match (if f_hasArg then b.lookup f_arg else none) with
      | some _ => []
      | none => sharedE b f_value
  | .arg _ f_name _ => match b.lookup f_name with
      | some bd => labelsEs (bd.exprs.filter notName)
      | none => []''')
def shared_case(cname, fs):
    rf = rec_fields(fs)
    parts = [('sharedE' if kind(f) == 'E' else 'sharedSs' if kind(f) == 'Ss' else 'sharedEs') + ' b ' + vn(f) for f in rf]
    body = ' ++ ('.join(parts) + ')' * (len(parts) - 1) if parts else '[]'
    return '  | %s => %s' % (pat(cname, fs), body)
for cname, fs in EXPR_ALL:
    if cname in ('name', 'keyword', 'arg'):
        continue
    A(shared_case(cname, fs))
A('''def sharedEs (b : Bindings) : List Expr → List Nat
  | [] => []
  | e :: es => sharedE b e ++ sharedEs b es
end
mutual
def sharedS (b : Bindings) : Stmt → List Nat
  | .expr _ f_value =>
      match f_value with
      | .name .. => []
      | _ => sharedE b f_value''')
for cname, fs in STMT:
    if cname == 'expr':
        continue
    A(shared_case(cname, fs))
A('''def sharedSs (b : Bindings) : List Stmt → List Nat
  | [] => []
  | s :: ss => sharedS b s ++ sharedSs b ss
end

/-- every node that is inserted without a copy is inserted at most once (and is one object, not two with one label) -/
def sharedOk (b : Bindings) (t : List Stmt) : Bool := decide (sharedSs b t).Nodup

end Malt.Conv.Template
''')
open(__import__('os').path.join(__import__('os').path.dirname(__import__('os').path.abspath(__file__)), '..', '..', 'lean') + '/MaltModel/Conv/Template.lean', 'w').write('\n'.join(out))
