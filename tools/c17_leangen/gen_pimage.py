import sys, os
sys.path.insert(0, os.path.dirname(os.path.abspath(__file__)))
from table import *
from gen_template import pat, INST_SPECIAL_E

base = os.path.join(os.path.dirname(os.path.abspath(__file__)), '..', '..', 'lean', 'MaltModel')
out = []
A = out.append
A('''import MaltModel.Py.Ast
/-
`parserImage`: a decidable predicate picking out trees that CAN come out of CPython's parser, as far as `ast.unparse`
followed by `ast.parse` is concerned: a tree outside it prints to text whose re-parse is a DIFFERENT tree (or no tree),
which is what breaks `create_source_map` ("Inconsistent ASTs detected").  Node-local part (`piE`/`piS`: first three items,
preserved by template substitution — Proofs/C17PImage.lean), expression shapes (`shE`: next two), named reasons in the driver:
* a numeric `Constant` whose repr starts with `-` or `(`  (`Constant(-1)` prints `-1`, which parses as `UnaryOp(USub, 1)`;
  `Constant(1+2j)` prints `(1+2j)`, a `BinOp`);
* a `Constant` holding a tuple / frozenset (only the bytecode optimiser makes those);
* a `Name` whose id is a keyword (`Name('None')` prints `None`, which parses as `Constant(None)`);
* an empty `Set` display (prints `{*()}`);
* an f-string (`JoinedStr`) with two adjacent literal parts (the parser merges them).
Structural part (`bodiesS`): every block that the grammar requires to be non-empty is non-empty (function / class / loop /
if / with / try / handler bodies, `global` / `nonlocal` name lists, `del` and assignment target lists, import lists).
-/
set_option linter.unusedVariables false
namespace Malt.Conv
open Malt.Py

def pyKeywords : List String := ["None", "True", "False", "and", "as", "assert", "async", "await", "break", "class", "continue",
  "def", "del", "elif", "else", "except", "finally", "for", "from", "global", "if", "import", "in", "is", "lambda", "nonlocal",
  "not", "or", "pass", "raise", "return", "try", "while", "with", "yield"]

def badNumber (kind repr : String) : Bool :=
  (kind == "int" || kind == "float" || kind == "complex") && (repr.front == '-' || repr.front == '(')

def badConstKind (kind : String) : Bool := kind == "tuple" || kind == "frozenset"

def isConst : Expr → Bool
  | .const .. => true
  | _ => false

def emptyStrConst : Expr → Bool
  | .const _ k r => k == "str" && (r == "''" || r == "\\"\\"")
  | _ => false

/-- literal parts of an f-string as the parser leaves them: no two adjacent (CPython 3.12 itself leaves an EMPTY trailing
literal in format specs, e.g. `f"{a:>{b}}"`, and prints it back unchanged, so empty parts are not excluded) -/
def fstringParts : List Expr → Bool
  | [] => true
  | [_] => true
  | e :: f :: r => !(isConst e && isConst f) && fstringParts (f :: r)

mutual
def piE : Expr → Bool
  | .noneMarker => true
  | .name _ s _ => !pyKeywords.contains s
  | .const _ k r => !badNumber k r && !badConstKind k
''')
def conj(parts):
    return ' && '.join(parts) if parts else 'true'
def fld(f, e='piE', es='piEs', ss='piSs'):
    return (e if kind(f) == 'E' else ss if kind(f) == 'Ss' else es) + ' ' + vn(f)
PI_SPECIAL = ('name', 'const')
for cname, fs in EXPR_ALL:
    if cname in PI_SPECIAL:
        continue
    A('  | %s => %s' % (pat(cname, fs), conj([fld(f) for f in rec_fields(fs)])))
A('''def piEs : List Expr → Bool
  | [] => true
  | e :: es => piE e && piEs es
end
mutual
def piS : Stmt → Bool''')
for cname, fs in STMT:
    A('  | %s => %s' % (pat(cname, fs), conj([fld(f) for f in rec_fields(fs)])))
A('''def piSs : List Stmt → Bool
  | [] => true
  | s :: ss => piS s && piSs ss
end

mutual
/-- expression shapes the parser never produces: an empty set display, an f-string with empty / adjacent literal parts -/
def shE : Expr → Bool
  | .noneMarker => true
  | .seq _ k es _ => !(k == .set && es.isEmpty) && shEs es
  | .other _ k _ kids => (k != "JoinedStr" || fstringParts kids) && shEs kids''')
for cname, fs in EXPR_ALL:
    if cname in ('seq', 'other'):
        continue
    A('  | %s => %s' % (pat(cname, fs), conj([fld(f, 'shE', 'shEs', 'shSs') for f in rec_fields(fs)])))
A('''def shEs : List Expr → Bool
  | [] => true
  | e :: es => shE e && shEs es
end
mutual
def shS : Stmt → Bool''')
for cname, fs in STMT:
    A('  | %s => %s' % (pat(cname, fs), conj([fld(f, 'shE', 'shEs', 'shSs') for f in rec_fields(fs)])))
A('''def shSs : List Stmt → Bool
  | [] => true
  | s :: ss => shS s && shSs ss
end

mutual
/-- blocks / lists the grammar requires to be non-empty -/
def bodiesS : Stmt → Bool
  | .functionDef _ _ _ body _ _ _ => !body.isEmpty && bodiesSs body
  | .classDef _ _ _ _ body _ => !body.isEmpty && bodiesSs body
  | .for_ _ _ _ body orelse _ _ => !body.isEmpty && bodiesSs body && bodiesSs orelse
  | .while_ _ _ body orelse => !body.isEmpty && bodiesSs body && bodiesSs orelse
  | .if_ _ _ body orelse => !body.isEmpty && bodiesSs body && bodiesSs orelse
  | .with_ _ items body _ => !items.isEmpty && !body.isEmpty && bodiesSs body
  | .try_ _ body handlers orelse finalbody =>
      !body.isEmpty && !(handlers.isEmpty && finalbody.isEmpty) && bodiesSs body && bodiesSs handlers && bodiesSs orelse && bodiesSs finalbody
  | .handler _ _ _ body => !body.isEmpty && bodiesSs body
  | .delete _ targets => !targets.isEmpty
  | .assign _ targets _ => !targets.isEmpty
  | .import_ _ names => !names.isEmpty
  | .importFrom _ _ names _ => !names.isEmpty
  | .global _ names => !names.isEmpty
  | .nonlocal _ names => !names.isEmpty
  | .other _ _ _ blocks => bodiesSs blocks
  | _ => true
def bodiesSs : List Stmt → Bool
  | [] => true
  | s :: ss => bodiesS s && bodiesSs ss
end

/-- the checker run on every real tree (together with `ctxOk` and `arityOk`) -/
def parserImage (t : List Stmt) : Bool := piSs t && shSs t && bodiesSs t

end Malt.Conv
''')
open(os.path.join(base, 'Conv', 'ParserImage.lean'), 'w').write('\n'.join(out))

# ------------------------------------------------------------------ preservation proofs
out = []
A = out.append
A('''import MaltModel.Conv.ParserImage
import MaltModel.Proofs.C17Fresh
/- C17 helper lemmas: the node-local part of `parserImage` is invariant under copy_clean and the ContextAdjuster, and is
preserved by template instantiation when template and bindings satisfy it. -/
set_option linter.unusedSimpArgs false
set_option linter.unusedVariables false
namespace Malt.Conv.Template
open Malt.Py Malt.Conv

mutual
theorem copy_piE : ∀ (e : Expr) (n : Nat), piE (copyE e n).1 = piE e
  | .noneMarker, n => by simp [copyE]''')
for cname, fs in EXPR_ALL:
    rf = rec_fields(fs)
    hs = [('copy_piE ' if kind(f) == 'E' else 'copy_piEs ') + vn(f) for f in rf]
    extra = ''
    A('  | %s, n => by simp [copyE, piE%s%s]' % (pat(cname, fs), ''.join(', ' + h for h in hs), extra))
A('''theorem copy_piEs : ∀ (es : List Expr) (n : Nat), piEs (copyEs es n).1 = piEs es
  | [], n => by simp [copyEs]
  | e :: es, n => by simp [copyEs, piEs, copy_piE e, copy_piEs es]
end
mutual
theorem copy_piS : ∀ (s : Stmt) (n : Nat), piS (copyS s n).1 = piS s''')
for cname, fs in STMT:
    rf = rec_fields(fs)
    hs = [('copy_piE ' if kind(f) == 'E' else 'copy_piSs ' if kind(f) == 'Ss' else 'copy_piEs ') + vn(f) for f in rf]
    A('  | %s, n => by simp [copyS, piS%s]' % (pat(cname, fs), ''.join(', ' + h for h in hs)))
A('''theorem copy_piSs : ∀ (ss : List Stmt) (n : Nat), piSs (copySs ss n).1 = piSs ss
  | [], n => by simp [copySs]
  | s :: ss, n => by simp [copySs, piSs, copy_piS s, copy_piSs ss]
end

mutual
theorem adjust_piE : ∀ (c : Ctx) (e : Expr), piE (adjust c e) = piE e
  | c, .noneMarker => by simp [adjust]
  | c, .name .. => by simp [adjust, piE]
  | c, .attr _ v _ _ => by simp [adjust, piE, adjust_piE .load v]
  | c, .subscript _ v s _ => by simp [adjust, piE, adjust_piE .load v, adjust_piE .load s]
  | c, .seq _ k es _ => by simp [adjust, piE, adjust_piEs c es]
  | c, .starred _ v _ => by simp [adjust, piE, adjust_piE c v]
  | c, .const .. => by simp [adjust]
  | c, .call .. => by simp [adjust]
  | c, .lambda .. => by simp [adjust]
  | c, .comprehension .. => by simp [adjust]
  | c, .keyword _ _ _ v => by simp [adjust, piE, adjust_piE c v]
  | c, .boolop _ _ vs => by simp [adjust, piE, adjust_piEs c vs]
  | c, .unary _ _ e => by simp [adjust, piE, adjust_piE c e]
  | c, .binop _ _ l r => by simp [adjust, piE, adjust_piE c l, adjust_piE c r]
  | c, .compare _ l _ rs => by simp [adjust, piE, adjust_piE c l, adjust_piEs c rs]
  | c, .ifexp _ t b e => by simp [adjust, piE, adjust_piE c t, adjust_piE c b, adjust_piE c e]
  | c, .namedexpr _ t v => by simp [adjust, piE, adjust_piE c t, adjust_piE c v]
  | c, .comp _ _ es gs => by simp [adjust, piE, adjust_piEs c es, adjust_piEs c gs]
  | c, .arguments _ po ar va ko kd kw df => by
      simp [adjust, piE, adjust_piEs c po, adjust_piEs c ar, adjust_piEs c va, adjust_piEs c ko, adjust_piEs c kd, adjust_piEs c kw, adjust_piEs c df]
  | c, .arg _ _ an => by simp [adjust, piE, adjust_piEs c an]
  | c, .withitem _ ce ov => by simp [adjust, piE, adjust_piE c ce, adjust_piEs c ov]
  | c, .other _ k _ kids => by
      by_cases hk : k = "Dict"
      · simp [adjust, hk]
      · simp [adjust, hk, piE, adjust_piEs c kids]
theorem adjust_piEs : ∀ (c : Ctx) (es : List Expr), piEs (adjustEs c es) = piEs es
  | c, [] => by simp [adjustEs]
  | c, e :: es => by simp [adjustEs, piEs, adjust_piE c e, adjust_piEs c es]
end

theorem adjTop_piE (c : Ctx) (e : Expr) : piE (adjTop c e) = piE e := by
  unfold adjTop
  split
  · exact adjust_piE c e
  · rfl

theorem map_adjTop_piEs (c : Ctx) : ∀ (es : List Expr), piEs (es.map (adjTop c)) = piEs es
  | [] => rfl
  | e :: es => by simp [piEs, adjTop_piE, map_adjTop_piEs c es]

/-- every bound node / statement is in the parser's image (node-local part) -/
def bindingPi : Binding → Bool
  | .node e => piE e
  | .nodes es => piEs es
  | .stmt s => piS s
  | .stmts ss => piSs ss

def bindingsPi (b : Bindings) : Bool := b.all fun p => bindingPi p.2

theorem bindingsPi_lookup : ∀ (b : Bindings) (nm : String) (bd : Binding), bindingsPi b = true → b.lookup nm = some bd → bindingPi bd = true
  | [], nm, bd, _, h => by simp [List.lookup] at h
  | (k, v) :: r, nm, bd, hb, h => by
      simp only [bindingsPi, List.all_cons, Bool.and_eq_true] at hb
      simp only [List.lookup] at h
      split at h
      · simp only [Option.some.injEq] at h
        subst h
        exact hb.1
      · exact bindingsPi_lookup r nm bd hb.2 h

theorem piEs_append : ∀ (l r : List Expr), piEs (l ++ r) = (piEs l && piEs r)
  | [], r => by simp [piEs]
  | e :: l, r => by simp [piEs, piEs_append l r, Bool.and_assoc]

theorem piSs_append : ∀ (l r : List Stmt), piSs (l ++ r) = (piSs l && piSs r)
  | [], r => by simp [piSs]
  | e :: l, r => by simp [piSs, piSs_append l r, Bool.and_assoc]

theorem piEs_exprs (bd : Binding) (h : bindingPi bd = true) : piEs bd.exprs = true := by
  cases bd <;> simp_all [bindingPi, Binding.exprs, piEs]

theorem argRepl_pi : ∀ (es : List Expr) (n : Nat), piEs es = true → piEs (argRepl es n).1 = true
  | [], n, _ => by simp [argRepl, piEs]
  | e :: es, n, h => by
      simp only [piEs, Bool.and_eq_true] at h
      have ih := fun m => argRepl_pi es m h.2
      cases e <;> simp_all [argRepl, piEs, piE]

mutual
theorem instE_pi (b : Bindings) (hb : bindingsPi b = true) : ∀ (e : Expr) (n : Nat) (r : List Expr) (n' : Nat),
    piE e = true → instE b e n = .ok (r, n') → piEs r = true
  | .noneMarker, n, r, n', _, h => by
      simp only [instE, Except.ok.injEq, Prod.mk.injEq] at h
      obtain ⟨rfl, rfl⟩ := h
      simp [piEs, piE]
  | .name _ s c, n, r, n', hp, h => by
      simp only [instE] at h
      split at h
      · simp only [Except.ok.injEq, Prod.mk.injEq] at h
        obtain ⟨rfl, rfl⟩ := h
        simpa [piEs, piE] using hp
      · rename_i e hl
        simp only [Except.ok.injEq, Prod.mk.injEq] at h
        obtain ⟨rfl, rfl⟩ := h
        have := bindingsPi_lookup b s _ hb hl
        simpa [piEs, adjTop_piE, copy_piE, bindingPi] using this
      · rename_i es hl
        simp only [Except.ok.injEq, Prod.mk.injEq] at h
        obtain ⟨rfl, rfl⟩ := h
        have := bindingsPi_lookup b s _ hb hl
        simpa [map_adjTop_piEs, copy_piEs, bindingPi] using this
      · simp only [Except.ok.injEq, Prod.mk.injEq] at h
        obtain ⟨rfl, rfl⟩ := h
        simp [piEs]
      · simp at h
  | .attr _ f_value f_attr f_ctx, n, r, n', hp, h => by
      simp only [piE] at hp
      simp only [instE, R.bind_ok, single_ok] at h
      obtain ⟨v', n1, h1, h2⟩ := h
      have i1 := instE_pi b hb f_value _ _ _ hp h1
      split at h2
      · simp only [Except.ok.injEq, Prod.mk.injEq] at h2
        obtain ⟨rfl, rfl⟩ := h2
        simpa [piEs, piE] using i1
      · simp at h2
  | .keyword _ f_arg f_hasArg f_value, n, r, n', hp, h => by
      simp only [piE] at hp
      simp only [instE] at h
      split at h
      · rename_i bd hl
        split at h
        · simp only [Except.ok.injEq, Prod.mk.injEq] at h
          obtain ⟨rfl, rfl⟩ := h
          have hl' : b.lookup f_arg = some bd := by
            by_cases hh : f_hasArg = true
            · simpa [hh] using hl
            · simp [hh] at hl
          rw [copy_piEs]
          exact piEs_exprs bd (bindingsPi_lookup b _ _ hb hl')
        · simp at h
      · simp only [R.bind_ok, single_ok] at h
        obtain ⟨v', n1, h1, h2⟩ := h
        have i1 := instE_pi b hb f_value _ _ _ hp h1
        simp only [Except.ok.injEq, Prod.mk.injEq] at h2
        obtain ⟨rfl, rfl⟩ := h2
        simpa [piEs, piE] using i1
  | .arg _ f_name f_annotation, n, r, n', hp, h => by
      simp only [piE] at hp
      simp only [instE] at h
      split at h
      · simp only [Except.ok.injEq, Prod.mk.injEq] at h
        obtain ⟨rfl, rfl⟩ := h
        simpa [piEs, piE, copy_piEs] using hp
      · rename_i e hl
        simp only [Except.ok.injEq, Prod.mk.injEq] at h
        obtain ⟨rfl, rfl⟩ := h
        exact argRepl_pi [e] n (by simpa [piEs, bindingPi] using bindingsPi_lookup b _ _ hb hl)
      · rename_i es hl
        simp only [Except.ok.injEq, Prod.mk.injEq] at h
        obtain ⟨rfl, rfl⟩ := h
        exact argRepl_pi es n (by simpa [bindingPi] using bindingsPi_lookup b _ _ hb hl)
      · simp only [Except.ok.injEq, Prod.mk.injEq] at h
        obtain ⟨rfl, rfl⟩ := h
        simp [piEs]
      · simp at h''')

def acc_left(i, k):
    # `a && b && c` parsed left-nested: ((a ∧ b) ∧ c)
    if k == 1:
        return ''
    if i == 0:
        return '.1' * (k - 1)
    return '.1' * (k - 1 - i) + '.2'

def inst_case(cname, fs, stmt=False, extra_front=0):
    rf = rec_fields(fs)
    k = len(rf)
    lines = ['  | %s, n, r, n\', hp, h => by' % pat(cname, fs)]
    lines.append('      simp only [%s, Bool.and_eq_true] at hp' % ('piS' if stmt else 'piE'))
    lines.append('      simp only [%s, R.bind_ok, single_ok, sameLen_ok, atMost_ok] at h' % ('instS' if stmt else 'instE'))
    if k:
        pats = []
        for i, f in enumerate(rf):
            if kind(f) in ('EsSame', 'EsLe'):
                pats += ["x%d" % i, "m%d" % i, "⟨h%d, hlen%d⟩" % (i, i)]
            else:
                pats += ["x%d" % i, "m%d" % i, "h%d" % i]
        pats.append('hres')
        lines.append('      obtain ⟨%s⟩ := h' % ', '.join(pats))
    else:
        lines.append('      have hres := h')
    lines.append('      simp only [Except.ok.injEq, Prod.mk.injEq] at hres')
    lines.append('      obtain ⟨rfl, rfl⟩ := hres')
    hs = []
    tot = k + extra_front
    for i, f in enumerate(rf):
        fn = {'E': 'instE_pi', 'Ss': 'instSs_pi'}.get(kind(f), 'instEs_pi')
        lines.append('      have i%d := %s b hb %s _ _ _ hp%s h%d' % (i, fn, vn(f), acc_left(i + extra_front, tot), i))
        hs.append('i%d' % i)
    lines.append('      simp_all [%s]' % ('piSs, piS, piEs' if stmt else 'piEs, piE'))
    return '\n'.join(lines)

for cname, fs in EXPR_ALL:
    if cname in INST_SPECIAL_E:
        continue
    if cname == 'const':
        A('''  | .const _ f_kind f_repr, n, r, n', hp, h => by
      simp only [instE, Except.ok.injEq, Prod.mk.injEq] at h
      obtain ⟨rfl, rfl⟩ := h
      simpa [piEs, piE] using hp''')
        continue
    A(inst_case(cname, fs))
A('''theorem instEs_pi (b : Bindings) (hb : bindingsPi b = true) : ∀ (es : List Expr) (n : Nat) (r : List Expr) (n' : Nat),
    piEs es = true → instEs b es n = .ok (r, n') → piEs r = true
  | [], n, r, n', _, h => by
      simp only [instEs, Except.ok.injEq, Prod.mk.injEq] at h
      obtain ⟨rfl, rfl⟩ := h
      simp [piEs]
  | e :: es, n, r, n', hp, h => by
      simp only [piEs, Bool.and_eq_true] at hp
      simp only [instEs, R.bind_ok] at h
      obtain ⟨l, n1, h1, t, n2, h2, hres⟩ := h
      simp only [Except.ok.injEq, Prod.mk.injEq] at hres
      obtain ⟨rfl, rfl⟩ := hres
      have i1 := instE_pi b hb e _ _ _ hp.1 h1
      have i2 := instEs_pi b hb es _ _ _ hp.2 h2
      simp [piEs_append, i1, i2]
end
''')
A('''mutual
theorem instS_pi (b : Bindings) (hb : bindingsPi b = true) : ∀ (st : Stmt) (n : Nat) (r : List Stmt) (n' : Nat),
    piS st = true → instS b st n = .ok (r, n') → piSs r = true
  | .expr _ f_value, n, r, n', hp, h => by
      simp only [piS] at hp
      simp only [instS] at h
      split at h
      · rename_i i s c
        split at h
        · simp only [Except.ok.injEq, Prod.mk.injEq] at h
          obtain ⟨rfl, rfl⟩ := h
          simpa [piSs, piS, piE] using hp
        · rename_i st hl
          simp only [Except.ok.injEq, Prod.mk.injEq] at h
          obtain ⟨rfl, rfl⟩ := h
          have := bindingsPi_lookup b s _ hb hl
          simpa [piSs, copy_piS, bindingPi] using this
        · rename_i ss hl
          simp only [Except.ok.injEq, Prod.mk.injEq] at h
          obtain ⟨rfl, rfl⟩ := h
          have := bindingsPi_lookup b s _ hb hl
          simpa [copy_piSs, bindingPi] using this
        · simp only [Except.ok.injEq, Prod.mk.injEq] at h
          obtain ⟨rfl, rfl⟩ := h
          simp [piSs]
        · simp at h
      · simp only [R.bind_ok, single_ok] at h
        obtain ⟨v', n1, h1, h2⟩ := h
        have i1 := instE_pi b hb f_value _ _ _ hp h1
        simp only [Except.ok.injEq, Prod.mk.injEq] at h2
        obtain ⟨rfl, rfl⟩ := h2
        simpa [piSs, piS, piEs] using i1
  | .functionDef _ f_name f_args f_body f_decorators f_returns f_isAsync, n, r, n', hp, h => by
      simp only [piS, Bool.and_eq_true] at hp
      simp only [instS, R.bind_ok, single_ok, sameLen_ok] at h
      obtain ⟨x0, m0, h0, x1, m1, h1, x2, m2, h2, x3, m3, ⟨h3, _⟩, hres⟩ := h
      have i0 := instE_pi b hb f_args _ _ _ hp.1.1.1 h0
      have i1 := instSs_pi b hb f_body _ _ _ hp.1.1.2 h1
      have i2 := instEs_pi b hb f_decorators _ _ _ hp.1.2 h2
      have i3 := instEs_pi b hb f_returns _ _ _ hp.2 h3
      split at hres
      · simp only [Except.ok.injEq, Prod.mk.injEq] at hres
        obtain ⟨rfl, rfl⟩ := hres
        simp_all [piSs, piS, piEs]
      · simp at hres''')
for cname, fs in STMT:
    if cname in ('expr', 'functionDef'):
        continue
    A(inst_case(cname, fs, True))
A('''theorem instSs_pi (b : Bindings) (hb : bindingsPi b = true) : ∀ (ss : List Stmt) (n : Nat) (r : List Stmt) (n' : Nat),
    piSs ss = true → instSs b ss n = .ok (r, n') → piSs r = true
  | [], n, r, n', _, h => by
      simp only [instSs, Except.ok.injEq, Prod.mk.injEq] at h
      obtain ⟨rfl, rfl⟩ := h
      simp [piSs]
  | st :: ss, n, r, n', hp, h => by
      simp only [piSs, Bool.and_eq_true] at hp
      simp only [instSs, R.bind_ok] at h
      obtain ⟨l, n1, h1, t, n2, h2, hres⟩ := h
      simp only [Except.ok.injEq, Prod.mk.injEq] at hres
      obtain ⟨rfl, rfl⟩ := hres
      have i1 := instS_pi b hb st _ _ _ hp.1 h1
      have i2 := instSs_pi b hb ss _ _ _ hp.2 h2
      simp [piSs_append, i1, i2]
end

end Malt.Conv.Template
''')
open(os.path.join(base, 'Proofs', 'C17PImage.lean'), 'w').write('\n'.join(out))
