import sys, os
sys.path.insert(0, os.path.dirname(os.path.abspath(__file__)))
from table import *
from gen_template import pat, INST_SPECIAL_E

out = []
A = out.append
A('''import MaltModel.Proofs.C17Fresh
/- C17 helper lemmas: node identity of the instantiated tree in full — fresh labels for everything that is copied,
and the labels of the nodes `visit_arg` inserts without a copy, each exactly where `sharedE` lists it.
`Mix s n L n' S`: the labels of `L` that are ≥ `s` are exactly `n, …, n'-1` (in order) and those below `s` are exactly `S`. -/
set_option linter.unusedSimpArgs false
set_option linter.unusedVariables false
namespace Malt.Conv.Template
open Malt.Py

def Mix (s n : Nat) (L : List Nat) (n' : Nat) (S : List Nat) : Prop :=
  n ≤ n' ∧ L.filter (fun l => decide (s ≤ l)) = List.range' n (n' - n) ∧ L.filter (fun l => !decide (s ≤ l)) = S

theorem Mix.nil (s n : Nat) : Mix s n [] n [] := by simp [Mix]

theorem Mix.le {s n n' : Nat} {L S : List Nat} (h : Mix s n L n' S) : n ≤ n' := h.1

theorem filter_range_ge (s n k : Nat) (h : s ≤ n) : (List.range' n k).filter (fun l => decide (s ≤ l)) = List.range' n k := by
  apply List.filter_eq_self.2
  intro a ha
  rw [List.mem_range'_1] at ha
  simp; omega

theorem filter_range_lt (s n k : Nat) (h : s ≤ n) : (List.range' n k).filter (fun l => !decide (s ≤ l)) = [] := by
  apply List.filter_eq_nil_iff.2
  intro a ha
  rw [List.mem_range'_1] at ha
  simp; omega

theorem Mix.ofFresh {s n n' : Nat} {L : List Nat} (h : Fresh n L n') (hs : s ≤ n) : Mix s n L n' [] := by
  obtain ⟨h1, h2⟩ := h
  refine ⟨h1, ?_, ?_⟩
  · rw [h2]; exact filter_range_ge s n _ hs
  · rw [h2]; exact filter_range_lt s n _ hs

theorem Mix.append {s a b c : Nat} {L1 L2 S1 S2 : List Nat} (h1 : Mix s a L1 b S1) (h2 : Mix s b L2 c S2) :
    Mix s a (L1 ++ L2) c (S1 ++ S2) := by
  obtain ⟨ha, f1, g1⟩ := h1
  obtain ⟨hb, f2, g2⟩ := h2
  refine ⟨by omega, ?_, ?_⟩
  · rw [List.filter_append, f1, f2]
    exact (Fresh.append (a := a) (b := b) (c := c) ⟨ha, rfl⟩ ⟨hb, rfl⟩).2
  · rw [List.filter_append, g1, g2]

theorem Mix.cons {s n n' : Nat} {L S : List Nat} (hs : s ≤ n) (h : Mix s (n + 1) L n' S) : Mix s n (n :: L) n' S := by
  have h0 : Mix s n [n] (n + 1) [] := Mix.ofFresh (Fresh.single n) hs
  have := Mix.append h0 h
  simpa using this

theorem Mix.shared {s n : Nat} {L : List Nat} (h : ∀ l ∈ L, l < s) : Mix s n L n L := by
  refine ⟨Nat.le_refl _, ?_, ?_⟩
  · simp only [Nat.sub_self, List.range'_zero]
    apply List.filter_eq_nil_iff.2
    intro a ha
    have := h a ha
    simp; omega
  · apply List.filter_eq_self.2
    intro a ha
    have := h a ha
    simp; omega

theorem nodup_of_partition (p : Nat → Bool) : ∀ (L : List Nat), (L.filter p).Nodup → (L.filter (fun l => !p l)).Nodup → L.Nodup
  | [], _, _ => List.nodup_nil
  | a :: L, h1, h2 => by
      by_cases hp : p a = true
      · simp only [List.filter_cons, hp, if_true, Bool.not_true, Bool.false_eq_true, if_false, List.nodup_cons] at h1 h2
        refine List.nodup_cons.2 ⟨?_, nodup_of_partition p L h1.2 h2⟩
        intro ha
        exact h1.1 (List.mem_filter.2 ⟨ha, hp⟩)
      · have hp' : p a = false := by simpa using hp
        simp only [List.filter_cons, hp', Bool.false_eq_true, if_false, Bool.not_false, if_true, List.nodup_cons] at h1 h2
        refine List.nodup_cons.2 ⟨?_, nodup_of_partition p L h1 h2.2⟩
        intro ha
        exact h2.1 (List.mem_filter.2 ⟨ha, by simp [hp']⟩)

theorem Mix.nodup {s n n' : Nat} {L S : List Nat} (h : Mix s n L n' S) (hS : S.Nodup) : L.Nodup := by
  obtain ⟨_, f, g⟩ := h
  apply nodup_of_partition (fun l => decide (s ≤ l)) L
  · rw [f]; exact List.nodup_range'
  · rw [g]; exact hS

theorem Mix.low_mem {s n n' : Nat} {L S : List Nat} (h : Mix s n L n' S) : ∀ l ∈ L, l < s → l ∈ S := by
  intro l hl hlt
  rw [← h.2.2]
  exact List.mem_filter.2 ⟨hl, by simp; omega⟩

theorem Mix.high_bounds {s n n' : Nat} {L S : List Nat} (h : Mix s n L n' S) : ∀ l ∈ L, s ≤ l → n ≤ l ∧ l < n' := by
  intro l hl hge
  have : l ∈ L.filter (fun l => decide (s ≤ l)) := List.mem_filter.2 ⟨hl, by simp; omega⟩
  rw [h.2.1, List.mem_range'_1] at this
  omega

/-! ### labels of bound nodes are labels of the bindings -/
theorem lookup_labels : ∀ (b : Bindings) (nm : String) (bd : Binding), b.lookup nm = some bd → ∀ l ∈ bd.labels, l ∈ bindingLabels b
  | [], nm, bd, h => by simp [List.lookup] at h
  | (k, v) :: r, nm, bd, h => by
      intro l hl
      simp only [List.lookup] at h
      simp only [bindingLabels, List.mem_append]
      split at h
      · simp only [Option.some.injEq] at h
        subst h
        exact Or.inl hl
      · exact Or.inr (lookup_labels r nm bd h l hl)

theorem exprs_labels (bd : Binding) : ∀ l ∈ labelsEs bd.exprs, l ∈ bd.labels := by
  cases bd <;> simp [Binding.exprs, Binding.labels, labelsEs]

theorem labelsEs_filter_sub (p : Expr → Bool) : ∀ (es : List Expr), ∀ l ∈ labelsEs (es.filter p), l ∈ labelsEs es
  | [], l, h => by simp [labelsEs] at h
  | e :: es, l, h => by
      simp only [List.filter_cons] at h
      simp only [labelsEs, List.mem_append]
      split at h
      · simp only [labelsEs, List.mem_append] at h
        rcases h with h | h
        · exact Or.inl h
        · exact Or.inr (labelsEs_filter_sub p es l h)
      · exact Or.inr (labelsEs_filter_sub p es l h)

theorem argRepl_mix (s : Nat) : ∀ (es : List Expr) (n : Nat), s ≤ n → (∀ l ∈ labelsEs es, l < s) →
    Mix s n (labelsEs (argRepl es n).1) (argRepl es n).2 (labelsEs (es.filter notName))
  | [], n, _, _ => by simp only [argRepl, labelsEs, List.filter_nil]; exact Mix.nil _ _
  | e :: es, n, hs, hl => by
      have hl2 : ∀ l ∈ labelsEs es, l < s := fun l h => hl l (by simp [labelsEs, h])
      have hl1 : ∀ l ∈ labelsE e, l < s := fun l h => hl l (by simp [labelsEs, h])
      cases e with
      | name i id c =>
          have ih := argRepl_mix s es (n + 1) (by omega) hl2
          simp only [argRepl, labelsEs, labelsE, List.filter_cons, notName, isName, Bool.not_true, Bool.false_eq_true, if_false,
            List.nil_append, List.cons_append]
          exact Mix.cons hs ih
      | _ =>
          have ih := argRepl_mix s es n hs hl2
          simp only [argRepl, labelsEs, List.filter_cons, notName, isName, Bool.not_false, if_true]
          exact Mix.append (Mix.shared hl1) ih

/-! ### `ReplaceTransformer`: identities of all result nodes -/
mutual
theorem instE_mix (b : Bindings) (s : Nat) (hb : ∀ l ∈ bindingLabels b, l < s) : ∀ (e : Expr) (n : Nat) (r : List Expr) (n' : Nat),
    s ≤ n → instE b e n = .ok (r, n') → Mix s n (labelsEs r) n' (sharedE b e)
  | .noneMarker, n, r, n', _, h => by
      simp only [instE, Except.ok.injEq, Prod.mk.injEq] at h
      obtain ⟨rfl, rfl⟩ := h
      simp only [labelsEs, labelsE, List.append_nil, sharedE]; exact Mix.nil _ _
  | .name _ nm c, n, r, n', hs, h => by
      have hf := instE_fresh b (.name 0 nm c) n r n' (by simp [argsOkE]) (by simpa [instE] using h)
      simp only [sharedE]
      exact Mix.ofFresh hf hs
  | .attr _ f_value f_attr f_ctx, n, r, n', hs, h => by
      simp only [instE, R.bind_ok, single_ok] at h
      obtain ⟨v', n1, h1, h2⟩ := h
      have i1 := instE_mix b s hb f_value _ _ _ (by omega) h1
      split at h2
      · simp only [Except.ok.injEq, Prod.mk.injEq] at h2
        obtain ⟨rfl, rfl⟩ := h2
        simp only [labelsEs, labelsE, List.append_nil, sharedE] at i1 ⊢
        exact Mix.cons hs i1
      · simp at h2
  | .keyword _ f_arg f_hasArg f_value, n, r, n', hs, h => by
      simp only [instE] at h
      simp only [sharedE]
      split at h
      · rename_i bd hl
        split at h
        · simp only [Except.ok.injEq, Prod.mk.injEq] at h
          obtain ⟨rfl, rfl⟩ := h
          exact Mix.ofFresh (copyEs_fresh _ _) hs
        · simp at h
      · rename_i hnone
        simp only [R.bind_ok, single_ok] at h
        obtain ⟨v', n1, h1, h2⟩ := h
        have i1 := instE_mix b s hb f_value _ _ _ (by omega) h1
        simp only [Except.ok.injEq, Prod.mk.injEq] at h2
        obtain ⟨rfl, rfl⟩ := h2
        simp only [labelsEs, labelsE, List.append_nil] at i1 ⊢
        exact Mix.cons hs i1
  | .arg _ f_name f_annotation, n, r, n', hs, h => by
      simp only [instE] at h
      simp only [sharedE]
      split at h
      · rename_i hl
        rw [hl]
        simp only [Except.ok.injEq, Prod.mk.injEq] at h
        obtain ⟨rfl, rfl⟩ := h
        simp only [labelsEs, labelsE, List.append_nil]
        exact Mix.cons hs (Mix.ofFresh (copyEs_fresh _ _) (by omega))
      · rename_i e hl
        rw [hl]
        simp only [Except.ok.injEq, Prod.mk.injEq] at h
        obtain ⟨rfl, rfl⟩ := h
        exact argRepl_mix s [e] n hs (fun l h => hb l (lookup_labels b _ _ hl l (exprs_labels (.node e) l h)))
      · rename_i es hl
        rw [hl]
        simp only [Except.ok.injEq, Prod.mk.injEq] at h
        obtain ⟨rfl, rfl⟩ := h
        exact argRepl_mix s es n hs (fun l h => hb l (lookup_labels b _ _ hl l (exprs_labels (.nodes es) l h)))
      · rename_i hl
        rw [hl]
        simp only [Except.ok.injEq, Prod.mk.injEq] at h
        obtain ⟨rfl, rfl⟩ := h
        simp only [Binding.exprs, List.filter_nil, labelsEs]
        exact Mix.nil _ _
      · simp at h''')

def chain(hs):
    if not hs:
        return '(Mix.nil _ _)'
    if len(hs) == 1:
        return hs[0]
    return '(Mix.append %s %s)' % (hs[0], chain(hs[1:]))

def inst_case(cname, fs, stmt=False):
    rf = rec_fields(fs)
    k = len(rf)
    lines = ['  | %s, n, r, n\', hs, h => by' % pat(cname, fs)]
    lines.append('      simp only [%s, R.bind_ok, single_ok, sameLen_ok, atMost_ok] at h' % ('instS' if stmt else 'instE'))
    if k:
        pats = []
        for i, f in enumerate(rf):
            if kind(f) in ('EsSame', 'EsLe'):
                pats += ["x%d" % i, "m%d" % i, "⟨h%d, _⟩" % i]
            else:
                pats += ["x%d" % i, "m%d" % i, "h%d" % i]
        pats.append('hres')
        lines.append('      obtain ⟨%s⟩ := h' % ', '.join(pats))
    else:
        lines.append('      have hres := h')
    lines.append('      simp only [Except.ok.injEq, Prod.mk.injEq] at hres')
    lines.append('      obtain ⟨rfl, rfl⟩ := hres')
    hs = []
    prev = None
    for i, f in enumerate(rf):
        fn = {'E': 'instE_mix', 'Ss': 'instSs_mix'}.get(kind(f), 'instEs_mix')
        if prev is None:
            lines.append('      have i%d := %s b s hb %s _ _ _ (by omega) h%d' % (i, fn, vn(f), i))
        else:
            les = '; '.join('have := i%d.le' % j for j in range(i))
            lines.append('      have i%d := %s b s hb %s _ _ _ (by %s; omega) h%d' % (i, fn, vn(f), les, i))
            # chain of inequalities: need s ≤ m_{i-1}; from all previous .le facts
        hs.append('i%d' % i)
        prev = i
    at = (' at ' + ' '.join(hs) + ' ⊢') if hs else ''
    lab = 'labelsSs, labelsS, labelsEs, labelsE' if stmt else 'labelsEs, labelsE'
    lines.append('      simp only [%s, List.append_nil, %s]%s' % (lab, 'sharedS' if stmt else 'sharedE', at))
    lines.append('      exact Mix.cons hs %s' % chain(hs))
    return '\n'.join(lines)

for cname, fs in EXPR_ALL:
    if cname in INST_SPECIAL_E:
        continue
    A(inst_case(cname, fs))
A('''theorem instEs_mix (b : Bindings) (s : Nat) (hb : ∀ l ∈ bindingLabels b, l < s) : ∀ (es : List Expr) (n : Nat) (r : List Expr) (n' : Nat),
    s ≤ n → instEs b es n = .ok (r, n') → Mix s n (labelsEs r) n' (sharedEs b es)
  | [], n, r, n', _, h => by
      simp only [instEs, Except.ok.injEq, Prod.mk.injEq] at h
      obtain ⟨rfl, rfl⟩ := h
      exact Mix.nil _ _
  | e :: es, n, r, n', hs, h => by
      simp only [instEs, R.bind_ok] at h
      obtain ⟨l, n1, h1, t, n2, h2, hres⟩ := h
      simp only [Except.ok.injEq, Prod.mk.injEq] at hres
      obtain ⟨rfl, rfl⟩ := hres
      have i1 := instE_mix b s hb e _ _ _ hs h1
      have i2 := instEs_mix b s hb es _ _ _ (by have := i1.le; omega) h2
      rw [labelsEs_append]
      exact Mix.append i1 i2
end

mutual
theorem instS_mix (b : Bindings) (s : Nat) (hb : ∀ l ∈ bindingLabels b, l < s) : ∀ (st : Stmt) (n : Nat) (r : List Stmt) (n' : Nat),
    s ≤ n → instS b st n = .ok (r, n') → Mix s n (labelsSs r) n' (sharedS b st)
  | .expr _ f_value, n, r, n', hs, h => by
      simp only [instS] at h
      split at h
      · rename_i i nm c
        have hf := instS_fresh b (.expr 0 (.name i nm c)) n r n' (by simp [argsOkS]) (by simpa [instS] using h)
        simp only [sharedS]
        exact Mix.ofFresh hf hs
      · rename_i hnn
        simp only [R.bind_ok, single_ok] at h
        obtain ⟨v', n1, h1, h2⟩ := h
        have i1 := instE_mix b s hb f_value _ _ _ (by omega) h1
        simp only [Except.ok.injEq, Prod.mk.injEq] at h2
        obtain ⟨rfl, rfl⟩ := h2
        have hsh' : ∀ i, sharedS b (.expr i f_value) = sharedE b f_value := by
          intro i
          cases f_value <;> first | rfl | (exact absurd rfl (hnn _ _ _))
        rw [hsh']
        simp only [labelsSs, labelsS, labelsEs, List.append_nil] at i1 ⊢
        exact Mix.cons hs i1
  | .functionDef _ f_name f_args f_body f_decorators f_returns f_isAsync, n, r, n', hs, h => by
      simp only [instS, R.bind_ok, single_ok, sameLen_ok] at h
      obtain ⟨x0, m0, h0, x1, m1, h1, x2, m2, h2, x3, m3, ⟨h3, _⟩, hres⟩ := h
      have i0 := instE_mix b s hb f_args _ _ _ (by omega) h0
      have i1 := instSs_mix b s hb f_body _ _ _ (by have := i0.le; omega) h1
      have i2 := instEs_mix b s hb f_decorators _ _ _ (by have := i0.le; have := i1.le; omega) h2
      have i3 := instEs_mix b s hb f_returns _ _ _ (by have := i0.le; have := i1.le; have := i2.le; omega) h3
      split at hres
      · simp only [Except.ok.injEq, Prod.mk.injEq] at hres
        obtain ⟨rfl, rfl⟩ := hres
        simp only [labelsSs, labelsS, labelsEs, labelsE, List.append_nil, sharedS] at i0 i1 i2 i3 ⊢
        exact Mix.cons hs (Mix.append i0 (Mix.append i1 (Mix.append i2 i3)))
      · simp at hres''')
for cname, fs in STMT:
    if cname in ('expr', 'functionDef'):
        continue
    A(inst_case(cname, fs, True))
A('''theorem instSs_mix (b : Bindings) (s : Nat) (hb : ∀ l ∈ bindingLabels b, l < s) : ∀ (ss : List Stmt) (n : Nat) (r : List Stmt) (n' : Nat),
    s ≤ n → instSs b ss n = .ok (r, n') → Mix s n (labelsSs r) n' (sharedSs b ss)
  | [], n, r, n', _, h => by
      simp only [instSs, Except.ok.injEq, Prod.mk.injEq] at h
      obtain ⟨rfl, rfl⟩ := h
      exact Mix.nil _ _
  | st :: ss, n, r, n', hs, h => by
      simp only [instSs, R.bind_ok] at h
      obtain ⟨l, n1, h1, t, n2, h2, hres⟩ := h
      simp only [Except.ok.injEq, Prod.mk.injEq] at hres
      obtain ⟨rfl, rfl⟩ := hres
      have i1 := instS_mix b s hb st _ _ _ hs h1
      have i2 := instSs_mix b s hb ss _ _ _ (by have := i1.le; omega) h2
      rw [labelsSs_append]
      exact Mix.append i1 i2
end

end Malt.Conv.Template
''')
txt = '\n'.join(out)
open(os.path.join(os.path.dirname(os.path.abspath(__file__)), '..', '..', 'lean', 'MaltModel', 'Proofs', 'C17Mix.lean'), 'w').write(txt)
