"""C11 translator: the converters' use of the name generator  ->  lean/MaltModel/Generated/Naming.lean

Read with `ast` only (nothing is executed):
  malt/converters/*.py, malt/pyct/transpiler.py     every `<x>.new_symbol(<root>, <reserved>)` call site: the root
        (string literal, parameter default, or a dynamic expression) and the KIND of reserved set handed over
        (`<scope>.referenced` or a union of them / the empty tuple / anything else);
  the same files + core/converter.py, anf.py, transformer.py   every template string passed to `templates.replace*`:
        identifiers written literally in a template (not placeholders bound at the call) — names the generated code
        uses WITHOUT asking the namer (`ag__`, `vars_`, ...);
  malt/impl/api.py        `get_transformed_name` prefix and the keys of `get_extra_locals` (factory arguments);
  malt/pyct/transpiler.py `get_transformed_name` (function name / 'lam'), defaults of `_PythonFnFactory.create`;
  malt/pyct/naming.py     shape of `Namer.new_symbol` (which three sets the loop tests, that the result is recorded,
                           how the numeric suffix is split off and advanced).

Theorems in Props/C11.lean are stated over these definitions (`sites_reserve_referenced`, `namer_shape_recognised`,
`fixed_names_listed`); a change makes them fail to compile.
"""
import ast, glob, os, textwrap

REPO = os.environ.get('MALT_REPO', '/repo')


def _read(rel):
    with open(os.path.join(REPO, rel)) as f:
        return f.read()


def _lean_str(s):
    return '"' + s.replace('\\', '\\\\').replace('"', '\\"').replace('\n', '\\n') + '"'


def _strs(xs):
    return '[' + ', '.join(_lean_str(x) for x in xs) + ']'


def _is_referenced(e):
    return isinstance(e, ast.Attribute) and e.attr == 'referenced'


def _reserved_kind(e, fn):
    """'referenced' | 'empty' | 'other' for the 2nd argument of a new_symbol call inside function `fn`."""
    if _is_referenced(e):
        return 'referenced'
    if isinstance(e, ast.BinOp) and isinstance(e.op, ast.BitOr):
        l, r = _reserved_kind(e.left, fn), _reserved_kind(e.right, fn)
        return 'referenced' if l == r == 'referenced' else 'other'
    if isinstance(e, ast.Tuple) and not e.elts:
        return 'empty'
    if isinstance(e, ast.Name):
        # last assignment `name = <expr>` lexically preceding in the same function
        best = None
        for n in ast.walk(fn):
            if isinstance(n, ast.Assign) and len(n.targets) == 1 and isinstance(n.targets[0], ast.Name) \
                    and n.targets[0].id == e.id and n.lineno < e.lineno:
                if best is None or n.lineno > best.lineno:
                    best = n
        if best is not None:
            return _reserved_kind(best.value, fn)
    return 'other'


def _root_of(e, fn, cls_tree):
    """(kind, text): ('lit', root) | ('default', root) for a parameter with a string default | ('dyn', source)."""
    if isinstance(e, ast.Constant) and isinstance(e.value, str):
        return 'lit', e.value
    if isinstance(e, ast.Name):
        args = fn.args
        names = [a.arg for a in args.args]
        defaults = dict(zip(names[len(names) - len(args.defaults):], args.defaults))
        d = defaults.get(e.id)
        if isinstance(d, ast.Constant) and isinstance(d.value, str):
            return 'default', d.value
    return 'dyn', ast.unparse(e)


def _functions(tree):
    """(qualified name, FunctionDef) for every function, innermost last."""
    out = []

    def rec(node, prefix):
        for ch in ast.iter_child_nodes(node):
            if isinstance(ch, (ast.FunctionDef, ast.AsyncFunctionDef)):
                out.append((prefix + ch.name, ch))
                rec(ch, prefix + ch.name + '.')
            elif isinstance(ch, ast.ClassDef):
                rec(ch, prefix + ch.name + '.')
            else:
                rec(ch, prefix)
    rec(tree, '')
    return out


def _sites(rel, problems):
    tree = ast.parse(_read(rel))
    fns = _functions(tree)
    sites = []
    for n in ast.walk(tree):
        if isinstance(n, ast.Call) and isinstance(n.func, ast.Attribute) and n.func.attr == 'new_symbol':
            owner = None
            for q, fn in fns:      # innermost enclosing function = the last one containing the line
                if fn.lineno <= n.lineno <= max(getattr(fn, 'end_lineno', fn.lineno), fn.lineno):
                    owner = (q, fn)
            if owner is None or len(n.args) != 2 or n.keywords:
                problems.append('%s:%d: new_symbol call of unexpected form' % (rel, n.lineno))
                continue
            kind, root = _root_of(n.args[0], owner[1], tree)
            sites.append((n.lineno, n.col_offset, os.path.basename(rel), owner[0], kind, root,
                          _reserved_kind(n.args[1], owner[1])))
    sites.sort()
    return [s[2:] for s in sites]


def _idents(src):
    t = ast.parse(textwrap.dedent(src))
    out = set()
    for n in ast.walk(t):
        if isinstance(n, ast.Name):
            out.add(n.id)
        elif isinstance(n, ast.arg):
            out.add(n.arg)
        elif isinstance(n, (ast.FunctionDef, ast.ClassDef)):
            out.add(n.name)
        elif isinstance(n, (ast.Global, ast.Nonlocal)):
            out.update(n.names)
    return out


def _template_fixed_names(rel, problems):
    """Identifiers written literally in templates of one file (template resolution as DESIGN.md §2.1a)."""
    tree = ast.parse(_read(rel))
    fixed = set()
    ntemplates = 0
    for _, fn in _functions(tree):
        nodes = sorted([n for n in ast.walk(fn) if hasattr(n, 'lineno')], key=lambda n: (n.lineno, n.col_offset))
        tmpl = None
        for n in nodes:
            if isinstance(n, ast.Assign) and len(n.targets) == 1 and isinstance(n.targets[0], ast.Name) \
                    and n.targets[0].id == 'template' and isinstance(n.value, ast.Constant) and isinstance(n.value.value, str):
                tmpl = n.value.value
            if isinstance(n, ast.Call) and isinstance(n.func, ast.Attribute) and n.func.attr in ('replace', 'replace_as_expression') \
                    and isinstance(n.func.value, ast.Name) and n.func.value.id == 'templates' and n.args:
                a = n.args[0]
                if isinstance(a, ast.Constant) and isinstance(a.value, str):
                    s = a.value
                elif isinstance(a, ast.Name) and a.id == 'template' and tmpl is not None:
                    s = tmpl
                else:
                    s = None
                if s is None:
                    # a template built dynamically (today: slices.py's `target[key] = value` assembled from nodes)
                    continue
                ntemplates += 1
                kws = {k.arg for k in n.keywords}
                try:
                    fixed |= _idents(s) - kws
                except SyntaxError:
                    problems.append('%s:%d: template does not parse' % (rel, n.lineno))
    return fixed, ntemplates


def _namer_shape(problems):
    """Shape facts about Namer.new_symbol."""
    tree = ast.parse(_read('malt/pyct/naming.py'))
    fn = None
    for n in ast.walk(tree):
        if isinstance(n, ast.FunctionDef) and n.name == 'new_symbol':
            fn = n
    shapes = {}
    if fn is None:
        problems.append('naming.py: Namer.new_symbol not found')
        return shapes
    src = ast.unparse(fn)
    loops = [n for n in ast.walk(fn) if isinstance(n, ast.While)]
    shapes['one_search_loop'] = len(loops) == 1
    tested = set()
    if loops:
        for c in ast.walk(loops[0].test):
            if isinstance(c, ast.Compare) and len(c.ops) == 1 and isinstance(c.ops[0], ast.In) \
                    and isinstance(c.left, ast.Name) and c.left.id == 'new_name':
                tested.add(ast.unparse(c.comparators[0]))
        shapes['loop_is_disjunction'] = isinstance(loops[0].test, ast.BoolOp) and isinstance(loops[0].test.op, ast.Or)
        body = [ast.unparse(s) for s in loops[0].body]
        shapes['loop_advances_by_one_then_formats'] = body == ['n += 1', "new_name = '%s_%d' % (name_root, n)"]
    shapes['tests_global_namespace'] = 'self.global_namespace' in tested
    shapes['tests_reserved_locals'] = 'all_reserved_locals' in tested
    shapes['tests_generated_names'] = 'self.generated_names' in tested
    shapes['tests_exactly_three_sets'] = len(tested) == 3
    shapes['records_result'] = 'self.generated_names.add(new_name)' in src
    shapes['returns_new_name'] = isinstance(fn.body[-1], ast.Return) and ast.unparse(fn.body[-1]) == 'return new_name'
    shapes['splits_on_underscore'] = "pieces = name_root.split('_')" in src
    shapes['numeric_suffix_is_start'] = ("if pieces[-1].isdigit():" in src and "name_root = '_'.join(pieces[:-1])" in src
                                         and 'n = int(pieces[-1])' in src)
    shapes['otherwise_starts_at_zero'] = any(isinstance(i, ast.If) and [ast.unparse(s) for s in i.orelse] == ['n = 0']
                                             for i in ast.walk(fn))
    shapes['first_candidate_is_root'] = 'new_name = name_root' in src
    shapes['flattens_qualified_names'] = 'all_reserved_locals.update(s.qn)' in src and 'all_reserved_locals.add(s)' in src
    for k, v in shapes.items():
        if not v:
            problems.append('naming.py: shape %s not recognised' % k)
    return shapes


def collect(problems):
    """All facts as a dict (also used by harness/run_c11.py to extract the converter vocabulary)."""
    conv_files = sorted(p for p in glob.glob(os.path.join(REPO, 'malt', 'converters', '*.py')) if not p.endswith('_test.py'))
    conv_rel = [os.path.relpath(p, REPO) for p in conv_files]
    conv_sites = []
    for rel in conv_rel:
        conv_sites += _sites(rel, problems)
    tr_sites = _sites('malt/pyct/transpiler.py', problems)
    fixed = set()
    ntemplates = 0
    for rel in conv_rel + ['malt/pyct/transpiler.py', 'malt/core/converter.py', 'malt/pyct/common_transformers/anf.py',
                           'malt/pyct/transformer.py']:
        f, k = _template_fixed_names(rel, problems)
        fixed |= f
        ntemplates += k
    # get_transformed_name: api.PyToPy prefixes the generic transpiler's choice
    prefix, lam = None, None
    api = ast.parse(_read('malt/impl/api.py'))
    extra_locals = []
    for n in ast.walk(api):
        if isinstance(n, ast.FunctionDef) and n.name == 'get_transformed_name':
            for r in ast.walk(n):
                if isinstance(r, ast.Return) and isinstance(r.value, ast.BinOp) and isinstance(r.value.op, ast.Add) \
                        and isinstance(r.value.left, ast.Constant) and isinstance(r.value.left.value, str):
                    prefix = r.value.left.value
        if isinstance(n, ast.FunctionDef) and n.name == 'get_extra_locals':
            for a in ast.walk(n):
                if isinstance(a, ast.Assign) and isinstance(a.value, ast.Dict) and len(a.targets) == 1 \
                        and ast.unparse(a.targets[0]) == 'self._extra_locals':
                    extra_locals = [k.value for k in a.value.keys if isinstance(k, ast.Constant)]
    tp = ast.parse(_read('malt/pyct/transpiler.py'))
    name_is_node_name = False
    for n in ast.walk(tp):
        if isinstance(n, ast.FunctionDef) and n.name == 'get_transformed_name':
            for i in ast.walk(n):
                if isinstance(i, ast.If) and 'Lambda' in ast.unparse(i.test) and isinstance(i.body[0], ast.Return) \
                        and isinstance(i.body[0].value, ast.Constant):
                    lam = i.body[0].value.value
                if isinstance(i, ast.Return) and ast.unparse(i) == 'return node.name':
                    name_is_node_name = True
    if prefix is None:
        problems.append('api.py: get_transformed_name is not `<literal> + super().get_transformed_name(node)`')
    if lam is None or not name_is_node_name:
        problems.append('transpiler.py: get_transformed_name is not `lam` for lambdas / node.name for functions')
    if not extra_locals:
        problems.append('api.py: keys of get_extra_locals not found')
    shapes = _namer_shape(problems)
    return {'conv_sites': conv_sites, 'tr_sites': tr_sites, 'fixed': sorted(fixed), 'ntemplates': ntemplates,
            'prefix': prefix, 'lam': lam, 'extra_locals': extra_locals, 'shapes': shapes}


def gen_naming(problems):
    facts = collect(problems)
    conv_sites, tr_sites, fixed, ntemplates = facts['conv_sites'], facts['tr_sites'], facts['fixed'], facts['ntemplates']
    prefix, lam, extra_locals, shapes = facts['prefix'], facts['lam'], facts['extra_locals'], facts['shapes']

    L = []
    L.append('/- GENERATED by tools/extract_naming.py from malt/converters/*.py, malt/pyct/transpiler.py, malt/pyct/naming.py and')
    L.append('   malt/impl/api.py — do not edit; regenerated (content-compared) on every run of ./check C11. -/')
    L.append('namespace Malt.Gen.Naming')
    L.append('')
    L.append('/-- What a `new_symbol` call site hands over as `reserved_locals`. -/')
    L.append('inductive Reserved where')
    L.append('  | referenced   -- `<scope>.referenced` or a `|`-union of such')
    L.append('  | empty        -- `()`')
    L.append('  | other')
    L.append('  deriving DecidableEq, Repr')
    L.append('')
    L.append('inductive RootKind where')
    L.append('  | lit | paramDefault | dynamic')
    L.append('  deriving DecidableEq, Repr')
    L.append('')
    L.append('structure Site where')
    L.append('  file : String')
    L.append('  func : String')
    L.append('  rootKind : RootKind')
    L.append('  root : String       -- the literal / default; for `dynamic` the source text of the expression')
    L.append('  reserved : Reserved')
    L.append('  deriving DecidableEq, Repr')
    L.append('')

    def site(s):
        f, q, kind, root, res = s
        return '  ⟨%s, %s, .%s, %s, .%s⟩' % (_lean_str(f), _lean_str(q), {'lit': 'lit', 'default': 'paramDefault', 'dyn': 'dynamic'}[kind],
                                            _lean_str(root), res)
    L.append('/-- Every `new_symbol` call site in malt/converters (source order per file). -/')
    L.append('def converterSites : List Site := [')
    L.append(',\n'.join(site(s) for s in conv_sites))
    L.append(']')
    L.append('')
    L.append('/-- Every `new_symbol` call site in malt/pyct/transpiler.py. -/')
    L.append('def transpilerSites : List Site := [')
    L.append(',\n'.join(site(s) for s in tr_sites))
    L.append(']')
    L.append('')
    roots = []
    for s in conv_sites:
        if s[2] in ('lit', 'default') and s[3] not in roots:
            roots.append(s[3])
    L.append('/-- Literal roots asked for by the converters (first-occurrence order). -/')
    L.append('def converterRoots : List String := ' + _strs(roots))
    troots = []
    for s in tr_sites:
        if s[2] in ('lit', 'default') and s[3] not in troots:
            troots.append(s[3])
    L.append('/-- Literal roots asked for by the transpiler (factory wrappers). -/')
    L.append('def transpilerRoots : List String := ' + _strs(troots))
    L.append('/-- `PyToPy.get_transformed_name(node)` = prefix ++ (node.name | lambdaName). -/')
    L.append('def transformedNamePrefix : String := ' + _lean_str(prefix or '<unresolved>'))
    L.append('def lambdaName : String := ' + _lean_str(lam or '<unresolved>'))
    L.append('/-- Keys of `get_extra_locals()`: parameters of the inner factory, visible to the converted function as locals of its enclosing scope. -/')
    L.append('def extraLocals : List String := ' + _strs(extra_locals))
    L.append('/-- Identifiers written literally in the %d resolved templates (not placeholders): used by generated code without asking the namer. -/' % ntemplates)
    L.append('def templateFixedNames : List String := ' + _strs(sorted(fixed)))
    L.append('')
    L.append('/-- Does `Namer.new_symbol` still have the statement structure the model `Malt.Naming.newSymbol` describes? -/')
    L.append('def namerShapes : List (String × Bool) := [')
    L.append(',\n'.join('  (%s, %s)' % (_lean_str(k), 'true' if v else 'false') for k, v in shapes.items()))
    L.append(']')
    L.append('')
    L.append('end Malt.Gen.Naming')
    return '\n'.join(L) + '\n'
