"""C11 translator: the converters' use of the name generator  ->  lean/MaltModel/Generated/Naming.lean

Read with `ast` only (nothing is executed):
  malt/converters/*.py, malt/pyct/transpiler.py     every `<x>.new_symbol(<root>, <reserved>)` call site: the root
        (string literal, parameter default, or a dynamic expression) and the KIND of reserved set handed over
        (`<scope>.referenced` or a union of them / the empty tuple / anything else);
  the same files + core/converter.py, anf.py, transformer.py   every template string passed to `templates.replace*`:
        identifiers written literally in a template (not placeholders bound at the call) — names the generated code
        uses WITHOUT asking the namer (`ag__`, `vars_`, ...);
  malt/impl/api.py        `get_transformed_name` prefix and the keys of `get_extra_locals` (factory arguments);
  malt/pyct/transpiler.py `get_transformed_name` (function name / 'lam'), defaults of `_PythonFnFactory.create`;
  malt/pyct/naming.py     shape of `Namer.new_symbol` (which three sets the loop tests, that the result is recorded,
                           how the numeric suffix is split off and advanced).

Theorems in Props/C11.lean are stated over these definitions (`sites_reserve_referenced`, `namer_shape_recognised`,
`fixed_names_listed`); a change makes them fail to compile.
"""
import ast, glob, os, textwrap

REPO = os.environ.get('MALT_REPO', '/repo')


def _read(rel):
    with open(os.path.join(REPO, rel)) as f:
        return f.read()


def _lean_str(s):
    return '"' + s.replace('\\', '\\\\').replace('"', '\\"').replace('\n', '\\n') + '"'


def _strs(xs):
    return '[' + ', '.join(_lean_str(x) for x in xs) + ']'


def _is_referenced(e):
    return isinstance(e, ast.Attribute) and e.attr == 'referenced'


def _reserved_kind(e, fn):
    """'referenced' | 'empty' | 'other' for the 2nd argument of a new_symbol call inside function `fn`."""
    if _is_referenced(e):
        return 'referenced'
    if isinstance(e, ast.BinOp) and isinstance(e.op, ast.BitOr):
        l, r = _reserved_kind(e.left, fn), _reserved_kind(e.right, fn)
        return 'referenced' if l == r == 'referenced' else 'other'
    if isinstance(e, ast.Tuple) and not e.elts:
        return 'empty'
    if isinstance(e, ast.Name):
        # last assignment `name = <expr>` lexically preceding in the same function
        best = None
        for n in ast.walk(fn):
            if isinstance(n, ast.Assign) and len(n.targets) == 1 and isinstance(n.targets[0], ast.Name) \
                    and n.targets[0].id == e.id and n.lineno < e.lineno:
                if best is None or n.lineno > best.lineno:
                    best = n
        if best is not None:
            return _reserved_kind(best.value, fn)
    return 'other'


def _root_of(e, fn, cls_tree):
    """(kind, text): ('lit', root) | ('default', root) for a parameter with a string default | ('dyn', source)."""
    if isinstance(e, ast.Constant) and isinstance(e.value, str):
        return 'lit', e.value
    if isinstance(e, ast.Name):
        args = fn.args
        names = [a.arg for a in args.args]
        defaults = dict(zip(names[len(names) - len(args.defaults):], args.defaults))
        d = defaults.get(e.id)
        if isinstance(d, ast.Constant) and isinstance(d.value, str):
            return 'default', d.value
    return 'dyn', ast.unparse(e)


def _functions(tree):
    """(qualified name, FunctionDef) for every function, innermost last."""
    out = []

    def rec(node, prefix):
        for ch in ast.iter_child_nodes(node):
            if isinstance(ch, (ast.FunctionDef, ast.AsyncFunctionDef)):
                out.append((prefix + ch.name, ch))
                rec(ch, prefix + ch.name + '.')
            elif isinstance(ch, ast.ClassDef):
                rec(ch, prefix + ch.name + '.')
            else:
                rec(ch, prefix)
    rec(tree, '')
    return out


def _sites(rel, problems):
    tree = ast.parse(_read(rel))
    fns = _functions(tree)
    sites = []
    for n in ast.walk(tree):
        if isinstance(n, ast.Call) and isinstance(n.func, ast.Attribute) and n.func.attr == 'new_symbol':
            owner = None
            for q, fn in fns:      # innermost enclosing function = the last one containing the line
                if fn.lineno <= n.lineno <= max(getattr(fn, 'end_lineno', fn.lineno), fn.lineno):
                    owner = (q, fn)
            if owner is None or len(n.args) != 2 or n.keywords:
                problems.append('%s:%d: new_symbol call of unexpected form' % (rel, n.lineno))
                continue
            kind, root = _root_of(n.args[0], owner[1], tree)
            sites.append((n.lineno, n.col_offset, os.path.basename(rel), owner[0], kind, root,
                          _reserved_kind(n.args[1], owner[1])))
    sites.sort()
    return [s[2:] for s in sites]


def _idents(src):
    t = ast.parse(textwrap.dedent(src))
    out = set()
    for n in ast.walk(t):
        if isinstance(n, ast.Name):
            out.add(n.id)
        elif isinstance(n, ast.arg):
            out.add(n.arg)
        elif isinstance(n, (ast.FunctionDef, ast.ClassDef)):
            out.add(n.name)
        elif isinstance(n, (ast.Global, ast.Nonlocal)):
            out.update(n.names)
    return out


def _template_fixed_names(rel, problems):
    """Identifiers written literally in templates of one file (template resolution as DESIGN.md §2.1a)."""
    tree = ast.parse(_read(rel))
    fixed = set()
    ntemplates = 0
    for _, fn in _functions(tree):
        nodes = sorted([n for n in ast.walk(fn) if hasattr(n, 'lineno')], key=lambda n: (n.lineno, n.col_offset))
        tmpl = None
        for n in nodes:
            if isinstance(n, ast.Assign) and len(n.targets) == 1 and isinstance(n.targets[0], ast.Name) \
                    and n.targets[0].id == 'template' and isinstance(n.value, ast.Constant) and isinstance(n.value.value, str):
                tmpl = n.value.value
            if isinstance(n, ast.Call) and isinstance(n.func, ast.Attribute) and n.func.attr in ('replace', 'replace_as_expression') \
                    and isinstance(n.func.value, ast.Name) and n.func.value.id == 'templates' and n.args:
                a = n.args[0]
                if isinstance(a, ast.Constant) and isinstance(a.value, str):
                    s = a.value
                elif isinstance(a, ast.Name) and a.id == 'template' and tmpl is not None:
                    s = tmpl
                else:
                    s = None
                if s is None:
                    # a template built dynamically (today: slices.py's `target[key] = value` assembled from nodes)
                    continue
                ntemplates += 1
                kws = {k.arg for k in n.keywords}
                try:
                    fixed |= _idents(s) - kws
                except SyntaxError:
                    problems.append('%s:%d: template does not parse' % (rel, n.lineno))
    return fixed, ntemplates



# ------------------------------------------------------------------------------------------------
# EVERY site that introduces a name into generated code (growth round): templates (hard-coded identifiers and
# placeholders in binding position), parser.parse_expression/parse_str literals, direct ast.Name/arg/... constructions
# ------------------------------------------------------------------------------------------------
_AST_CTORS = ('Name', 'arg', 'Global', 'Nonlocal', 'alias', 'FunctionDef', 'ClassDef', 'Lambda')


def _is_new_symbol(e):
    return isinstance(e, ast.Call) and isinstance(e.func, ast.Attribute) and e.func.attr == 'new_symbol'


class _FileCtx(object):
    """Per-file resolution of where a value comes from: namer / namerState / passedIn / hard / other."""

    def __init__(self, rel):
        self.rel = rel
        self.tree = ast.parse(_read(rel))
        self.fns = _functions(self.tree)
        # attributes assigned (anywhere in the file) from a namer-derived value: `fn.do_return_var_name = <namer name>`
        self.namer_attrs = set()
        changed = True
        while changed:
            changed = False
            for q, fn in self.fns:
                for n in ast.walk(fn):
                    if isinstance(n, ast.Assign) and len(n.targets) == 1 and isinstance(n.targets[0], ast.Attribute):
                        k = self.classify(n.value, fn, n.lineno, depth=0)[0]
                        if k in ('namer', 'namerState') and n.targets[0].attr not in self.namer_attrs:
                            self.namer_attrs.add(n.targets[0].attr)
                            changed = True
                    if isinstance(n, ast.Call) and isinstance(n.func, ast.Attribute) and n.func.attr == 'setanno' and len(n.args) == 3 \
                            and isinstance(n.args[1], ast.Constant) and isinstance(n.args[1].value, str):
                        k = self.classify(n.args[2], fn, n.lineno, depth=0)[0]
                        if k in ('namer', 'namerState') and n.args[1].value not in self.namer_attrs:
                            self.namer_attrs.add(n.args[1].value)
                            changed = True

    def owner(self, lineno):
        best = None
        for q, fn in self.fns:
            if fn.lineno <= lineno <= getattr(fn, 'end_lineno', fn.lineno):
                best = (q, fn)
        return best

    def classify(self, e, fn, lineno, depth=0):
        """(kind, text). kind in namer | namerState | passedIn | hard:<name> | other"""
        text = ast.unparse(e)
        if _is_new_symbol(e):
            return 'namer', text
        if isinstance(e, ast.Constant) and isinstance(e.value, str):
            return 'hard:' + e.value, text
        if isinstance(e, ast.Call) and isinstance(e.func, ast.Attribute) and e.func.attr == 'Constant' and e.args:
            return 'literal', text                      # ast.Constant(<str>): a string VALUE in generated code, not an identifier
        if isinstance(e, ast.Attribute) and e.attr in self.namer_attrs:
            return 'namerState', text
        if isinstance(e, ast.Call) and isinstance(e.func, ast.Attribute) and e.func.attr == 'getanno' and len(e.args) >= 2 \
                and isinstance(e.args[1], ast.Constant) and e.args[1].value in self.namer_attrs:
            return 'namerState', text
        if isinstance(e, ast.Name) and fn is not None:
            assigns = [n for n in ast.walk(fn) if isinstance(n, ast.Assign) and len(n.targets) == 1
                       and isinstance(n.targets[0], ast.Name) and n.targets[0].id == e.id and n.lineno < lineno]
            if assigns:
                kinds = {self.classify(a.value, fn, a.lineno, depth)[0] for a in assigns}
                if len(kinds) == 1:
                    return kinds.pop(), text
                if kinds <= {'namer', 'namerState'}:
                    return 'namer', text
                return 'other', text + ' := ' + ' | '.join(sorted(ast.unparse(a.value) for a in assigns))
            params = [a.arg for a in fn.args.posonlyargs + fn.args.args + fn.args.kwonlyargs]
            if e.id in params and depth < 2:
                # a helper's parameter: look at every call of the helper in this file
                idx = params.index(e.id) - (1 if params and params[0] == 'self' else 0)
                kinds = set()
                for q2, fn2 in self.fns:
                    for c in ast.walk(fn2):
                        if isinstance(c, ast.Call) and ((isinstance(c.func, ast.Attribute) and c.func.attr == fn.name)
                                                        or (isinstance(c.func, ast.Name) and c.func.id == fn.name)):
                            if self.owner(c.lineno) is None or self.owner(c.lineno)[1] is not fn2:
                                continue
                            arg = None
                            if 0 <= idx < len(c.args):
                                arg = c.args[idx]
                            for k in c.keywords:
                                if k.arg == e.id:
                                    arg = k.value
                            if arg is not None:
                                kinds.add(self.classify(arg, fn2, c.lineno, depth + 1)[0])
                if kinds and kinds <= {'namer', 'namerState'}:
                    return 'namer', text
                if kinds and len(kinds) == 1:
                    return kinds.pop(), text
                return 'passedIn', text
        return 'other', text


def _template_positions(src, kws):
    """For a template: hard-coded identifiers -> how they occur; placeholders in binding position."""
    t = ast.parse(textwrap.dedent(src))
    hard, binders = {}, set()

    def note(name, how):
        if name in kws:
            if how == 'binds':
                binders.add(name)
        else:
            hard.setdefault(name, set()).add(how)
    for n in ast.walk(t):
        if isinstance(n, ast.Name):
            note(n.id, 'binds' if isinstance(n.ctx, (ast.Store, ast.Del)) else 'reads')
        elif isinstance(n, ast.arg):
            note(n.arg, 'binds')
        elif isinstance(n, (ast.FunctionDef, ast.ClassDef)):
            note(n.name, 'binds')
        elif isinstance(n, (ast.Global, ast.Nonlocal)):
            for x in n.names:
                note(x, 'binds')
    return hard, binders


def _intro_sites(rel, problems):
    """Rows (file, func, name, how, via, text) for one source file."""
    fc = _FileCtx(rel)
    base = rel[len('malt/'):] if rel.startswith('malt/') else rel
    rows = set()
    for q, fn in fc.fns:
        nodes = sorted([n for n in ast.walk(fn) if hasattr(n, 'lineno')], key=lambda n: (n.lineno, n.col_offset))
        tmpl = None
        for n in nodes:
            own = fc.owner(n.lineno)
            if own is None or own[1] is not fn:
                continue                                 # belongs to a nested function: handled there
            if isinstance(n, ast.Assign) and len(n.targets) == 1 and isinstance(n.targets[0], ast.Name) \
                    and n.targets[0].id == 'template' and isinstance(n.value, ast.Constant) and isinstance(n.value.value, str):
                tmpl = n.value.value
            if not isinstance(n, ast.Call):
                continue
            f = n.func
            # --- templates.replace / replace_as_expression
            if isinstance(f, ast.Attribute) and f.attr in ('replace', 'replace_as_expression') and isinstance(f.value, ast.Name) \
                    and f.value.id == 'templates' and n.args:
                a = n.args[0]
                src = a.value if isinstance(a, ast.Constant) and isinstance(a.value, str) else (
                    tmpl if isinstance(a, ast.Name) and a.id == 'template' else None)
                if src is None:
                    rows.add((base, q, '<template>', 'binds', 'other', ast.unparse(a)))
                    continue
                kws = {k.arg: k.value for k in n.keywords}
                try:
                    hard, binders = _template_positions(src, set(kws))
                except SyntaxError:
                    problems.append('%s:%d: template does not parse' % (rel, n.lineno))
                    continue
                for name, hows in hard.items():
                    for how in hows:
                        rows.add((base, q, name, how, 'hard', ''))
                for p in binders:
                    kind, text = fc.classify(kws[p], fn, n.lineno)
                    if kind.startswith('hard:'):
                        rows.add((base, q, kind[5:], 'binds', 'hard', 'placeholder ' + p))
                    else:
                        rows.add((base, q, p, 'binds', kind, text))
            # --- parser.parse_expression / parse_str
            elif isinstance(f, ast.Attribute) and f.attr in ('parse_expression', 'parse_str') and n.args:
                a = n.args[0]
                if isinstance(a, ast.Constant) and isinstance(a.value, str):
                    try:
                        for m in ast.walk(ast.parse(textwrap.dedent(a.value))):
                            if isinstance(m, ast.Name):
                                rows.add((base, q, m.id, 'binds' if isinstance(m.ctx, ast.Store) else 'reads', 'hard', ''))
                    except SyntaxError:
                        problems.append('%s:%d: parsed literal does not parse' % (rel, n.lineno))
                else:
                    kind, text = fc.classify(a, fn, n.lineno)
                    rows.add((base, q, '<parsed>', 'reads', kind if not kind.startswith('hard:') else 'other', text))
            # --- direct AST constructions of name-carrying nodes
            elif isinstance(f, ast.Attribute) and isinstance(f.value, ast.Name) and f.value.id in ('ast', 'gast') and f.attr in _AST_CTORS:
                if f.attr == 'Lambda':
                    continue
                arg = n.args[0] if n.args else None
                for k in n.keywords:
                    if k.arg in ('id', 'arg', 'name', 'names'):
                        arg = k.value
                if arg is None:
                    continue
                how = 'binds'
                if f.attr == 'Name':
                    ctx = n.args[1] if len(n.args) > 1 else next((k.value for k in n.keywords if k.arg == 'ctx'), None)
                    how = 'reads' if ctx is not None and 'Load' in ast.unparse(ctx) else ('binds' if ctx is not None and 'Store' in ast.unparse(ctx) else 'reads')
                kind, text = fc.classify(arg, fn, n.lineno)
                if kind.startswith('hard:'):
                    rows.add((base, q, kind[5:], how, 'hard', 'ast.' + f.attr))
                else:
                    rows.add((base, q, '<ast.%s>' % f.attr, how, kind, text))
            # --- run-time code construction
            elif isinstance(f, ast.Name) and f.id in ('exec', 'eval', 'compile'):
                rows.add((base, q, '<%s>' % f.id, 'binds', 'other', ast.unparse(n)[:80]))
    return sorted(rows)


def _namer_shape(problems):
    """Shape facts about Namer.new_symbol."""
    tree = ast.parse(_read('malt/pyct/naming.py'))
    fn = None
    for n in ast.walk(tree):
        if isinstance(n, ast.FunctionDef) and n.name == 'new_symbol':
            fn = n
    shapes = {}
    if fn is None:
        problems.append('naming.py: Namer.new_symbol not found')
        return shapes
    src = ast.unparse(fn)
    loops = [n for n in ast.walk(fn) if isinstance(n, ast.While)]
    shapes['one_search_loop'] = len(loops) == 1
    tested = set()
    if loops:
        for c in ast.walk(loops[0].test):
            if isinstance(c, ast.Compare) and len(c.ops) == 1 and isinstance(c.ops[0], ast.In) \
                    and isinstance(c.left, ast.Name) and c.left.id == 'new_name':
                tested.add(ast.unparse(c.comparators[0]))
        shapes['loop_is_disjunction'] = isinstance(loops[0].test, ast.BoolOp) and isinstance(loops[0].test.op, ast.Or)
        body = [ast.unparse(s) for s in loops[0].body]
        shapes['loop_advances_by_one_then_formats'] = body == ['n += 1', "new_name = '%s_%d' % (name_root, n)"]
    shapes['tests_global_namespace'] = 'self.global_namespace' in tested
    shapes['tests_reserved_locals'] = 'all_reserved_locals' in tested
    shapes['tests_generated_names'] = 'self.generated_names' in tested
    shapes['tests_exactly_three_sets'] = len(tested) == 3
    shapes['records_result'] = 'self.generated_names.add(new_name)' in src
    shapes['returns_new_name'] = isinstance(fn.body[-1], ast.Return) and ast.unparse(fn.body[-1]) == 'return new_name'
    shapes['splits_on_underscore'] = "pieces = name_root.split('_')" in src
    shapes['numeric_suffix_is_start'] = ("if pieces[-1].isdigit():" in src and "name_root = '_'.join(pieces[:-1])" in src
                                         and 'n = int(pieces[-1])' in src)
    shapes['otherwise_starts_at_zero'] = any(isinstance(i, ast.If) and [ast.unparse(s) for s in i.orelse] == ['n = 0']
                                             for i in ast.walk(fn))
    shapes['first_candidate_is_root'] = 'new_name = name_root' in src
    shapes['flattens_qualified_names'] = 'all_reserved_locals.update(s.qn)' in src and 'all_reserved_locals.add(s)' in src
    for k, v in shapes.items():
        if not v:
            problems.append('naming.py: shape %s not recognised' % k)
    return shapes


def collect(problems):
    """All facts as a dict (also used by harness/run_c11.py to extract the converter vocabulary)."""
    conv_files = sorted(p for p in glob.glob(os.path.join(REPO, 'malt', 'converters', '*.py')) if not p.endswith('_test.py'))
    conv_rel = [os.path.relpath(p, REPO) for p in conv_files]
    conv_sites = []
    for rel in conv_rel:
        conv_sites += _sites(rel, problems)
    tr_sites = _sites('malt/pyct/transpiler.py', problems)
    fixed = set()
    ntemplates = 0
    for rel in conv_rel + ['malt/pyct/transpiler.py', 'malt/core/converter.py', 'malt/pyct/common_transformers/anf.py',
                           'malt/pyct/transformer.py']:
        f, k = _template_fixed_names(rel, problems)
        fixed |= f
        ntemplates += k
    # get_transformed_name: api.PyToPy prefixes the generic transpiler's choice
    prefix, lam = None, None
    api = ast.parse(_read('malt/impl/api.py'))
    extra_locals = []
    for n in ast.walk(api):
        if isinstance(n, ast.FunctionDef) and n.name == 'get_transformed_name':
            for r in ast.walk(n):
                if isinstance(r, ast.Return) and isinstance(r.value, ast.BinOp) and isinstance(r.value.op, ast.Add) \
                        and isinstance(r.value.left, ast.Constant) and isinstance(r.value.left.value, str):
                    prefix = r.value.left.value
        if isinstance(n, ast.FunctionDef) and n.name == 'get_extra_locals':
            for a in ast.walk(n):
                if isinstance(a, ast.Assign) and isinstance(a.value, ast.Dict) and len(a.targets) == 1 \
                        and ast.unparse(a.targets[0]) == 'self._extra_locals':
                    extra_locals = [k.value for k in a.value.keys if isinstance(k, ast.Constant)]
    tp = ast.parse(_read('malt/pyct/transpiler.py'))
    name_is_node_name = False
    for n in ast.walk(tp):
        if isinstance(n, ast.FunctionDef) and n.name == 'get_transformed_name':
            for i in ast.walk(n):
                if isinstance(i, ast.If) and 'Lambda' in ast.unparse(i.test) and isinstance(i.body[0], ast.Return) \
                        and isinstance(i.body[0].value, ast.Constant):
                    lam = i.body[0].value.value
                if isinstance(i, ast.Return) and ast.unparse(i) == 'return node.name':
                    name_is_node_name = True
    if prefix is None:
        problems.append('api.py: get_transformed_name is not `<literal> + super().get_transformed_name(node)`')
    if lam is None or not name_is_node_name:
        problems.append('transpiler.py: get_transformed_name is not `lam` for lambdas / node.name for functions')
    if not extra_locals:
        problems.append('api.py: keys of get_extra_locals not found')
    shapes = _namer_shape(problems)
    intro = []
    op_files = sorted(os.path.relpath(p, REPO) for p in glob.glob(os.path.join(REPO, 'malt', 'operators', '*.py')) if not p.endswith('_test.py'))
    for rel in conv_rel + ['malt/pyct/transpiler.py', 'malt/pyct/templates.py', 'malt/core/converter.py',
                           'malt/pyct/common_transformers/anf.py', 'malt/pyct/transformer.py'] + op_files:
        intro += _intro_sites(rel, problems)
    return {'intro_sites': intro, 'conv_sites': conv_sites, 'tr_sites': tr_sites, 'fixed': sorted(fixed), 'ntemplates': ntemplates,
            'prefix': prefix, 'lam': lam, 'extra_locals': extra_locals, 'shapes': shapes}


def gen_naming(problems):
    facts = collect(problems)
    conv_sites, tr_sites, fixed, ntemplates = facts['conv_sites'], facts['tr_sites'], facts['fixed'], facts['ntemplates']
    prefix, lam, extra_locals, shapes = facts['prefix'], facts['lam'], facts['extra_locals'], facts['shapes']
    intro = facts['intro_sites']

    L = []
    L.append('/- GENERATED by tools/extract_naming.py from malt/converters/*.py, malt/pyct/transpiler.py, malt/pyct/naming.py and')
    L.append('   malt/impl/api.py — do not edit; regenerated (content-compared) on every run of ./check C11. -/')
    L.append('namespace Malt.Gen.Naming')
    L.append('')
    L.append('/-- What a `new_symbol` call site hands over as `reserved_locals`. -/')
    L.append('inductive Reserved where')
    L.append('  | referenced   -- `<scope>.referenced` or a `|`-union of such')
    L.append('  | empty        -- `()`')
    L.append('  | other')
    L.append('  deriving DecidableEq, Repr')
    L.append('')
    L.append('inductive RootKind where')
    L.append('  | lit | paramDefault | dynamic')
    L.append('  deriving DecidableEq, Repr')
    L.append('')
    L.append('structure Site where')
    L.append('  file : String')
    L.append('  func : String')
    L.append('  rootKind : RootKind')
    L.append('  root : String       -- the literal / default; for `dynamic` the source text of the expression')
    L.append('  reserved : Reserved')
    L.append('  deriving DecidableEq, Repr')
    L.append('')

    def site(s):
        f, q, kind, root, res = s
        return '  ⟨%s, %s, .%s, %s, .%s⟩' % (_lean_str(f), _lean_str(q), {'lit': 'lit', 'default': 'paramDefault', 'dyn': 'dynamic'}[kind],
                                            _lean_str(root), res)
    L.append('/-- Every `new_symbol` call site in malt/converters (source order per file). -/')
    L.append('def converterSites : List Site := [')
    L.append(',\n'.join(site(s) for s in conv_sites))
    L.append(']')
    L.append('')
    L.append('/-- Every `new_symbol` call site in malt/pyct/transpiler.py. -/')
    L.append('def transpilerSites : List Site := [')
    L.append(',\n'.join(site(s) for s in tr_sites))
    L.append(']')
    L.append('')
    roots = []
    for s in conv_sites:
        if s[2] in ('lit', 'default') and s[3] not in roots:
            roots.append(s[3])
    L.append('/-- Literal roots asked for by the converters (first-occurrence order). -/')
    L.append('def converterRoots : List String := ' + _strs(roots))
    troots = []
    for s in tr_sites:
        if s[2] in ('lit', 'default') and s[3] not in troots:
            troots.append(s[3])
    L.append('/-- Literal roots asked for by the transpiler (factory wrappers). -/')
    L.append('def transpilerRoots : List String := ' + _strs(troots))
    L.append('/-- `PyToPy.get_transformed_name(node)` = prefix ++ (node.name | lambdaName). -/')
    L.append('def transformedNamePrefix : String := ' + _lean_str(prefix or '<unresolved>'))
    L.append('def lambdaName : String := ' + _lean_str(lam or '<unresolved>'))
    L.append('/-- Keys of `get_extra_locals()`: parameters of the inner factory, visible to the converted function as locals of its enclosing scope. -/')
    L.append('def extraLocals : List String := ' + _strs(extra_locals))
    L.append('/-- Identifiers written literally in the %d resolved templates (not placeholders): used by generated code without asking the namer. -/' % ntemplates)
    L.append('def templateFixedNames : List String := ' + _strs(sorted(fixed)))
    L.append('')
    L.append('/-- How a name-introducing site gets its name. -/')
    L.append('inductive Via where')
    L.append('  | namer        -- the result of a `new_symbol` call (directly, or through a local / a helper\'s argument)')
    L.append('  | namerState   -- a namer result stored on transformer state / an annotation and read back')
    L.append('  | passedIn     -- a helper\'s parameter whose callers could not all be resolved')
    L.append('  | hard         -- an identifier written literally in the source (template text, parsed literal, ast.Name(\'x\'), string constant for a binder)')
    L.append('  | other        -- anything else (user AST, user variable names, configuration, ...): `text` is the source expression')
    L.append('  deriving DecidableEq, Repr')
    L.append('')
    L.append('inductive How where')
    L.append('  | binds | reads')
    L.append('  deriving DecidableEq, Repr')
    L.append('')
    L.append('structure Intro where')
    L.append('  file : String')
    L.append('  func : String')
    L.append('  name : String     -- the identifier (via = hard), else the template placeholder / `<ast.Ctor>` / `<parsed>` / `<template>`')
    L.append('  how : How')
    L.append('  via : Via')
    L.append('  text : String')
    L.append('  deriving DecidableEq, Repr')
    L.append('')
    L.append('/-- EVERY site in malt/converters, pyct/transpiler.py, pyct/templates.py, core/converter.py, anf.py, pyct/transformer.py and')
    L.append('malt/operators that puts an identifier into generated code: non-placeholder identifiers and binding-position placeholders of')
    L.append('every `templates.replace*` call, identifiers of `parser.parse_expression/parse_str` arguments, direct `ast.Name/arg/Global/')
    L.append('Nonlocal/alias/FunctionDef/ClassDef(...)` constructions, and `exec/eval/compile` calls. -/')
    L.append('def introSites : List Intro := [')
    L.append(',\n'.join('  ⟨%s, %s, %s, .%s, .%s, %s⟩' % (_lean_str(r[0]), _lean_str(r[1]), _lean_str(r[2]), r[3], r[4], _lean_str(r[5])) for r in intro))
    L.append(']')
    L.append('')
    L.append('/-- Does `Namer.new_symbol` still have the statement structure the model `Malt.Naming.newSymbol` describes? -/')
    L.append('def namerShapes : List (String × Bool) := [')
    L.append(',\n'.join('  (%s, %s)' % (_lean_str(k), 'true' if v else 'false') for k, v in shapes.items()))
    L.append(']')
    L.append('')
    L.append('end Malt.Gen.Naming')
    return '\n'.join(L) + '\n'
