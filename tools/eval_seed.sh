#!/bin/bash
# usage: eval_seed.sh <patch.diff> <tier> <prop> [<prop>...]
# Applies a seeded change to a SCRATCH copy of /repo and runs the named checks from a SCRATCH copy of /verif
# (so that concurrently running builders and the registered evidence are not disturbed). Prints each check's verdict.
set -u
patch="$(readlink -f "$1")"; tier="$2"; shift 2
w="$(mktemp -d /tmp/evalseed_XXXX)"
trap 'rm -rf "$w"' EXIT
rsync -a --exclude .git /repo/ "$w/repo/"
rsync -a --exclude .git --exclude replays /verif/ "$w/verif/"
( cd "$w/repo" && patch -p1 -s < "$patch" ) || { echo "PATCH-FAILED"; exit 2; }
for p in "$@"; do
  out="$(cd "$w/verif" && MALT_REPO="$w/repo" VERIF_SEED="${VERIF_SEED:-0}" timeout 3000 ./check "$p" --tier "$tier" 2>&1)"
  rc=$?
  echo "=== $p rc=$rc"
  echo "$out" | grep -E "^VIOLATION|^C[0-9]+ tier|broken obligation|INFRA" | head -12
  if [ -d "$w/verif/replays/$p" ]; then
    f="$(ls "$w/verif/replays/$p" | head -1)"
    [ -n "$f" ] && python3 -c "
import json,sys
r=json.load(open('$w/verif/replays/$p/$f'))
print('  replay what:', str(r.get('what', r.get('broken_obligations')))[:300])"
  fi
done
