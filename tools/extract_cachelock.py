"""C10: lock discipline and key shape of the conversion cache, read from the source with `ast`.

`gen_cachelock` -> lean/MaltModel/Generated/CacheLock.lean:
* for `PyToPy.transform_function` (malt/pyct/transpiler.py): every cache-relevant site in source order with
  the flag "is inside `with self._cache_lock:`" (has / get / xform / create / store / inst);
* the kind of the lock and of the outer dictionary, the key expression of `CodeObjectCache._get_key`, the subkey
  returned by `api.PyToPy.get_caching_key`, the dictionary operations of `has` / `__getitem__` (cache.py), the
  arguments `instantiate` is called with.
Anything that cannot be resolved is emitted as "unresolved" and reported.
"""
import ast, os

REPO = os.environ.get('MALT_REPO', '/repo')


def _read(rel):
    with open(os.path.join(REPO, rel)) as f:
        return f.read()


def _s(x):
    return '"' + x.replace('\\', '\\\\').replace('"', '\\"') + '"'


def _find_class(tree, name):
    for n in tree.body:
        if isinstance(n, ast.ClassDef) and n.name == name:
            return n
    return None


def _find_def(cls, name):
    for n in cls.body:
        if isinstance(n, ast.FunctionDef) and n.name == name:
            return n
    return None


def _is_self_attr(node, attr):
    return isinstance(node, ast.Attribute) and node.attr == attr and isinstance(node.value, ast.Name) and node.value.id == 'self'


def _site_of(node):
    """Classify one AST node of transform_function as a cache-relevant site."""
    if isinstance(node, ast.Call) and isinstance(node.func, ast.Attribute):
        f = node.func
        if f.attr == 'has' and _is_self_attr(f.value, '_cache'):
            return 'has'
        if f.attr == '_cached_factory' and isinstance(f.value, ast.Name) and f.value.id == 'self':
            return 'get'
        if f.attr == 'transform_function' and isinstance(f.value, ast.Call) and isinstance(f.value.func, ast.Name) \
                and f.value.func.id == 'super':
            return 'xform'
        if f.attr == 'create' and isinstance(f.value, ast.Name) and f.value.id == 'factory':
            return 'create'
        if f.attr == 'instantiate' and isinstance(f.value, ast.Name) and f.value.id == 'factory':
            return 'inst'
        if f.attr in ('acquire', 'release') and _is_self_attr(f.value, '_cache_lock'):
            return 'explicit-' + f.attr
    if isinstance(node, ast.Assign):
        for tg in node.targets:
            if isinstance(tg, ast.Subscript) and isinstance(tg.value, ast.Subscript) and _is_self_attr(tg.value.value, '_cache'):
                return 'store'
    return None


def _walk_sites(stmts, in_lock, out):
    for st in stmts:
        if isinstance(st, ast.With):
            locked = in_lock or any(_is_self_attr(it.context_expr, '_cache_lock') for it in st.items)
            _walk_sites(st.body, locked, out)
            continue
        # the statement's own expressions first (test of an `if`, value of an assignment), then its blocks, in source order
        head = []
        if isinstance(st, (ast.If, ast.While)):
            head = [st.test]
        elif isinstance(st, (ast.Assign, ast.Expr, ast.Return, ast.AugAssign)):
            head = [st]
        for h in head:
            s0 = _site_of(h) if isinstance(h, ast.Assign) else None
            subs = [n for n in ast.walk(h) if isinstance(n, ast.Call)]
            subs.sort(key=lambda n: (n.lineno, n.col_offset))
            for n in subs:
                s = _site_of(n)
                if s:
                    out.append((s, in_lock))
            if s0:
                out.append((s0, in_lock))
        for blk in ('body', 'orelse', 'finalbody'):
            b = getattr(st, blk, None)
            if b and not isinstance(st, ast.With):
                _walk_sites(b, in_lock, out)
        if isinstance(st, ast.Try):
            for h in st.handlers:
                _walk_sites(h.body, in_lock, out)


def gen_cachelock(problems):
    tp = ast.parse(_read('malt/pyct/transpiler.py'))
    cls = _find_class(tp, 'PyToPy')
    sites, lock_kind, outer_kind, inst_args, cached_expr = [], 'unresolved', 'unresolved', [], 'unresolved'
    if cls is None:
        problems.append('class PyToPy not found in transpiler.py')
    else:
        tf = _find_def(cls, 'transform_function')
        if tf is None:
            problems.append('PyToPy.transform_function not found')
        else:
            _walk_sites(tf.body, False, sites)
            for n in ast.walk(tf):
                if isinstance(n, ast.Call) and _site_of(n) == 'inst':
                    inst_args = [(k.arg or '**', ast.unparse(k.value)) for k in n.keywords] + \
                                [('#%d' % i, ast.unparse(a)) for i, a in enumerate(n.args)]
        init = _find_def(cls, '__init__')
        if init is not None:
            for n in ast.walk(init):
                if isinstance(n, ast.Assign) and len(n.targets) == 1 and _is_self_attr(n.targets[0], '_cache_lock'):
                    lock_kind = ast.unparse(n.value)
        cf = _find_def(cls, '_cached_factory')
        if cf is not None:
            for n in ast.walk(cf):
                if isinstance(n, ast.Assign) and isinstance(n.targets[0], ast.Name) and n.targets[0].id == 'cached_factory':
                    cached_expr = ast.unparse(n.value)
    if not sites:
        problems.append('no cache-relevant site found in PyToPy.transform_function')
    # cache.py
    cp = ast.parse(_read('malt/pyct/cache.py'))
    base = _find_class(cp, '_TransformedFnCache')
    has_ops, get_ops, key_expr = [], [], 'unresolved'

    def ops_of(fn):
        out = []
        for n in sorted([m for m in ast.walk(fn) if isinstance(m, (ast.Call, ast.Compare, ast.Assign, ast.Subscript))],
                        key=lambda m: (m.lineno, m.col_offset)):
            if isinstance(n, ast.Call) and isinstance(n.func, ast.Attribute) and _is_self_attr(n.func.value, '_cache'):
                out.append('outer.' + n.func.attr)
            elif isinstance(n, ast.Compare) and any(isinstance(o, (ast.In, ast.NotIn)) for o in n.ops):
                out.append('in')
            elif isinstance(n, ast.Assign) and any(isinstance(tg, ast.Subscript) and _is_self_attr(tg.value, '_cache') for tg in n.targets):
                out.append('outer.set' + ('{}' if isinstance(n.value, ast.Dict) and not n.value.keys else ''))
            elif isinstance(n, ast.Subscript) and _is_self_attr(n.value, '_cache') and isinstance(n.ctx, ast.Load):
                out.append('outer.getitem')
        return out
    if base is None:
        problems.append('class _TransformedFnCache not found in cache.py')
    else:
        for nm, dst in (('has', has_ops), ('__getitem__', get_ops)):
            fn = _find_def(base, nm)
            if fn is None:
                problems.append('_TransformedFnCache.%s not found' % nm)
            else:
                dst.extend(ops_of(fn))
        init = _find_def(base, '__init__')
        if init is not None:
            for n in ast.walk(init):
                if isinstance(n, ast.Assign) and len(n.targets) == 1 and _is_self_attr(n.targets[0], '_cache'):
                    outer_kind = ast.unparse(n.value)
    coc = _find_class(cp, 'CodeObjectCache')
    if coc is not None and _find_def(coc, '_get_key') is not None:
        rets = [ast.unparse(n.value) for n in ast.walk(_find_def(coc, '_get_key')) if isinstance(n, ast.Return) and n.value is not None]
        key_expr = ' | '.join(rets)
    else:
        problems.append('CodeObjectCache._get_key not found')
    # api.py
    ap = ast.parse(_read('malt/impl/api.py'))
    subkey = 'unresolved'
    acls = _find_class(ap, 'PyToPy')
    if acls is not None and _find_def(acls, 'get_caching_key') is not None:
        rets = [ast.unparse(n.value) for n in ast.walk(_find_def(acls, 'get_caching_key')) if isinstance(n, ast.Return) and n.value is not None]
        subkey = ' | '.join(rets)
    else:
        problems.append('api.PyToPy.get_caching_key not found')

    L = ['/- GENERATED by tools/extract.py (extract_cachelock.py) from malt/pyct/transpiler.py, malt/pyct/cache.py,',
         '   malt/impl/api.py — do not edit. -/',
         'namespace Malt.Gen.CacheLock', '',
         '/-- Cache-relevant sites of `PyToPy.transform_function` in source order, with the flag',
         '"lexically inside `with self._cache_lock:`".  has = `self._cache.has(...)`, get = `self._cached_factory(...)`,',
         'xform = `super().transform_function(...)` (parse + transform_ast), create = `factory.create(...)`,',
         'store = `self._cache[fn][subkey] = factory`, inst = `factory.instantiate(...)`. -/',
         'def sites : List (String × Bool) := [' + ', '.join('(%s, %s)' % (_s(a), 'true' if b else 'false') for a, b in sites) + ']',
         '', '/-- `self._cache_lock = …` in `PyToPy.__init__`. -/', 'def lockKind : String := ' + _s(lock_kind),
         '', '/-- `self._cache = …` in `_TransformedFnCache.__init__`. -/', 'def outerKind : String := ' + _s(outer_kind),
         '', '/-- What `CodeObjectCache._get_key` returns. -/', 'def keyExpr : String := ' + _s(key_expr),
         '', '/-- What `api.PyToPy.get_caching_key` returns. -/', 'def subkeyExpr : String := ' + _s(subkey),
         '', '/-- Dictionary operations of `_TransformedFnCache.has` / `__getitem__`, in source order. -/',
         'def hasOps : List String := [' + ', '.join(_s(x) for x in has_ops) + ']',
         'def getitemOps : List String := [' + ', '.join(_s(x) for x in get_ops) + ']',
         '', '/-- `_cached_factory`: the expression fetched on a hit. -/', 'def cachedFactoryExpr : String := ' + _s(cached_expr),
         '', '/-- Arguments of `factory.instantiate(...)`. -/',
         'def instantiateArgs : List (String × String) := [' + ', '.join('(%s, %s)' % (_s(a), _s(b)) for a, b in inst_args) + ']',
         '', 'end Malt.Gen.CacheLock', '']
    return '\n'.join(L)
