#!/usr/bin/env python3
"""Add or update one check in MANIFEST.json and keep not_applicable in sync.  usage: manifest_add.py Cxx <json-file-or-->"""
import json, sys, os
V = os.path.dirname(os.path.dirname(os.path.abspath(__file__)))
prop = sys.argv[1]
spec = json.load(sys.stdin)
m = json.load(open(os.path.join(V, 'MANIFEST.json')))
entry = {
    'property_id': prop,
    'quick_cmd': './check %s --tier quick' % prop,
    'thorough_cmd': './check %s --tier thorough' % prop,
    'evidence_file': 'evidence/%s.json' % prop,
    'replay_cmd_template': './check %s --replay {path}' % prop,
    'engine': 'lean-malt-model',
    'technique': spec['technique'],
    'level_claimed': {'category': 'proof', 'text': spec['text'], 'design_ref': 'DESIGN.md §4 ' + prop},
    'level_note': spec['note'],
}
m['checks'] = [c for c in m['checks'] if c['property_id'] != prop] + [entry]
m['checks'].sort(key=lambda c: c['property_id'])
m['not_applicable'] = [n for n in m.get('not_applicable', []) if n['property_id'] != prop]
for e in m['engines']:
    e['serves_properties'] = sorted(c['property_id'] for c in m['checks'])
json.dump(m, open(os.path.join(V, 'MANIFEST.json'), 'w'), indent=1)
print('ok', [c['property_id'] for c in m['checks']])
